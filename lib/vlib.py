"""Common machinery for /verif/check: running tools, Coq build + audit, cargo
harness build, evidence, known findings, violation reports."""
import os, sys, re, json, time, subprocess, fcntl, hashlib, contextlib, glob, shutil

ROOT = os.path.dirname(os.path.dirname(os.path.abspath(__file__)))
REPO = os.environ.get('VERIF_REPO', '/repo')
COQ = os.path.join(ROOT, 'coq')
CACHE = os.path.join(ROOT, '.cache')
HARNESS = os.path.join(ROOT, 'harness')
OUT = ROOT                      # where evidence/ and replays/ are written
TARGET = os.path.join(CACHE, 'target')
GUARD = 'fuse_backend_rs_verif'
NPROC = os.cpu_count() or 4

os.makedirs(CACHE, exist_ok=True)

# Alternate-repo mode (used only to try the checks against a scratch worktree, e.g. a
# seeded mutation, without touching /repo or the build state of the registered checks):
# VERIF_REPO=/tmp/wt ./check Cxx  works on private copies of coq/ and harness/ and writes
# evidence/replays under .cache/alt-<tag>/ .
if REPO.rstrip('/') != '/repo':
    REPO = os.path.abspath(REPO)
    _tag = hashlib.sha1(REPO.encode()).hexdigest()[:8]
    WORK = os.path.join(CACHE, 'alt-' + _tag)
    os.makedirs(WORK, exist_ok=True)
    for _src, _dst, _ex in ((COQ, 'coq', ['target', 'Cases']), (HARNESS, 'harness', ['target'])):
        _cmd = ['rsync', '-a'] + sum([['--exclude', e] for e in _ex], []) + [_src + '/', os.path.join(WORK, _dst) + '/']
        _rc = subprocess.run(_cmd).returncode
        if _rc not in (0, 24):      # 24: a source file vanished (a concurrent make replaced a .vo): harmless, make rebuilds it
            raise SystemExit('rsync of %s failed with %d' % (_src, _rc))
    COQ = os.path.join(WORK, 'coq'); HARNESS = os.path.join(WORK, 'harness'); OUT = WORK
    TARGET = os.path.join(WORK, 'target')
    for _f in ('Cargo.toml',):
        _p = os.path.join(HARNESS, _f); _s = open(_p).read().replace('path = "/repo"', 'path = "%s"' % REPO)
        if open(_p).read() != _s: open(_p, 'w').write(_s)

SCRATCH = CACHE if OUT == ROOT else OUT     # per-repo scratch space (locks, probe builds, case files)

def log(*a):
    print(*a, file=sys.stderr, flush=True)

def run(cmd, timeout=600, cwd=None, env=None, input=None, mem_gb=None):
    """-> (rc, stdout+stderr text).  rc = 124 on timeout.  mem_gb: address-space limit for the child."""
    e = dict(os.environ)
    e.update({'CARGO_NET_OFFLINE': 'true', 'LC_ALL': 'C'})
    if env: e.update(env)
    pre = None
    if mem_gb:
        import resource
        lim = int(mem_gb * (1 << 30))
        pre = lambda: resource.setrlimit(resource.RLIMIT_AS, (lim, lim))
    try:
        p = subprocess.run(cmd, cwd=cwd, env=e, input=input, stdout=subprocess.PIPE,
                           stderr=subprocess.STDOUT, timeout=timeout, text=True,
                           shell=isinstance(cmd, str), errors='replace', preexec_fn=pre)
        return p.returncode, p.stdout
    except subprocess.TimeoutExpired as ex:
        out = ex.stdout or ''
        if isinstance(out, bytes): out = out.decode(errors='replace')
        return 124, out + '\n[timeout after %ss]' % timeout

@contextlib.contextmanager
def lock(name):
    os.makedirs(os.path.join(SCRATCH, 'locks'), exist_ok=True)
    f = open(os.path.join(SCRATCH, 'locks', name), 'w')
    fcntl.flock(f, fcntl.LOCK_EX)
    try:
        yield
    finally:
        fcntl.flock(f, fcntl.LOCK_UN); f.close()

def write_if_changed(path, content):
    try:
        if open(path).read() == content: return False
    except FileNotFoundError:
        pass
    os.makedirs(os.path.dirname(path), exist_ok=True)
    tmp = path + '.tmp.%d' % os.getpid()
    open(tmp, 'w').write(content); os.replace(tmp, path)
    return True

# ------------------------------------------------------------------ Coq
FORBIDDEN = re.compile(r'\b(Admitted|admit|Axiom|Axioms|Parameter|Parameters|Conjecture|Conjectures|'
                       r'Admit Obligations|Unset Guard Checking|Unset Positivity Checking|'
                       r'Unset Universe Checking|bypass_check|type-in-type|impredicative-set|'
                       r'native_compute)\b')

def strip_coq_comments(s):
    out = []; d = 0; i = 0
    while i < len(s):
        if s.startswith('(*', i): d += 1; i += 2; continue
        if s.startswith('*)', i) and d > 0: d -= 1; i += 2; continue
        if d == 0: out.append(s[i])
        elif s[i] == '\n': out.append('\n')
        i += 1
    return ''.join(out)

def coq_files():
    proj = open(os.path.join(COQ, '_CoqProject')).read().split('\n')
    return [l.strip() for l in proj if l.strip().endswith('.v')]

def coq_cone(prop):
    """the .v files Props/<prop>.v depends on (transitively), by coqdep"""
    rc, out = run(['coqdep', '-Q', '.', 'FB', '-sort', 'Props/%s.v' % prop], cwd=COQ, timeout=120)
    fs = [w for w in out.split() if w.endswith('.v')]
    return fs or ['Props/%s.v' % prop]

def hygiene(files=None):
    """-> list of 'file:line: text' offences (forbidden vernacular, Variable/Hypothesis outside Section)."""
    bad = []
    for f in (files or coq_files()):
        p = os.path.join(COQ, f)
        if not os.path.exists(p):
            bad.append('%s: listed in _CoqProject but missing' % f); continue
        src = strip_coq_comments(open(p).read())
        depth = 0
        for n, line in enumerate(src.split('\n'), 1):
            if FORBIDDEN.search(line): bad.append('%s:%d: %s' % (f, n, line.strip()))
            if re.match(r'\s*(Section|Module)\s+\w+', line) and not re.match(r'\s*Module\s+\w+\s*:=', line): depth += 1
            if re.match(r'\s*End\s+\w+\s*\.', line): depth = max(0, depth - 1)
            if depth == 0 and re.match(r'\s*(Variable|Variables|Hypothesis|Hypotheses|Context)\b', line):
                bad.append('%s:%d: %s (outside a Section)' % (f, n, line.strip()))
    return bad

def coq_make(targets, timeout=1500):
    """Full .vo build of the given targets (relative to coq/).  -> (ok, log)"""
    with lock('coq'):
        mk = os.path.join(COQ, 'Makefile'); proj = os.path.join(COQ, '_CoqProject')
        if (not os.path.exists(mk)) or os.path.getmtime(mk) < os.path.getmtime(proj):
            rc, out = run(['coq_makefile', '-f', '_CoqProject', '-o', 'Makefile'], cwd=COQ, timeout=120)
            if rc != 0: return False, out
        rc, out = run(['make', '-j%d' % NPROC] + targets, cwd=COQ, timeout=timeout)
        return rc == 0, out

def theorems_in(props_file):
    src = strip_coq_comments(open(os.path.join(COQ, props_file)).read())
    return re.findall(r'^\s*Theorem\s+(\w+)', src, flags=re.M)

def coq_error_site(out):
    """From a coqc error log -> (file, line, enclosing lemma name or None, message)"""
    m = re.search(r'File "\./?([^"]+)", line (\d+), characters [\d-]+:\s*\n(Error:.*?)(?:\n\n|\nmake|\Z)', out, flags=re.S)
    if not m: return None
    f, ln, msg = m.group(1), int(m.group(2)), ' '.join(m.group(3).split())
    name = None
    try:
        lines = open(os.path.join(COQ, f)).read().split('\n')
        for i in range(min(ln, len(lines)) - 1, -1, -1):
            mm = re.match(r'\s*(Lemma|Theorem|Example|Corollary|Definition|Fixpoint|Fact)\s+(\w+)', lines[i])
            if mm: name = mm.group(2); break
    except Exception:
        pass
    return f, ln, name, msg[:600]

STD_AXIOMS_ALLOWED = {
    # axioms declared by Coq's standard library that a property may rely on if named in its trusted base
    'functional_extensionality_dep', 'Eqdep.Eq_rect_eq.eq_rect_eq', 'Classical_Prop.classic',
    'ProofIrrelevance.proof_irrelevance', 'JMeq.JMeq_eq',
}

def props_audit(prop, allow_axioms=()):
    """Rebuild Props/<prop>.vo (always, so Print Assumptions output is fresh) and audit it.
    -> dict(ok, obligations, discharged, theorems, axioms, log, error_site)"""
    pf = 'Props/%s.v' % prop
    vo = os.path.join(COQ, 'Props/%s.vo' % prop)
    with lock('coq-props-' + prop):
        try: os.remove(vo)
        except FileNotFoundError: pass
        ok, out = coq_make(['Props/%s.vo' % prop])
    ths = theorems_in(pf)
    res = {'ok': ok, 'theorems': ths, 'log': out, 'error_site': None, 'axioms': []}
    if not ok:
        res['error_site'] = coq_error_site(out)
        res.update(obligations=len(ths) + 1, discharged=0)
        return res
    closed = len(re.findall(r'Closed under the global context', out))
    ax_blocks = re.findall(r'Axioms:\s*\n((?:.+\n?)+?)(?=\n\S|\Z|Closed under|Axioms:)', out)
    axioms = sorted(set(re.findall(r'^(\S+)\s*:', '\n'.join(ax_blocks), flags=re.M)))
    res['axioms'] = axioms
    src = strip_coq_comments(open(os.path.join(COQ, pf)).read())
    pa = re.findall(r'Print Assumptions\s+(\w+)', src)
    missing = [t for t in ths if t not in pa]
    disallowed = [a for a in axioms if a not in allow_axioms]
    n_assumption_reports = closed + len(re.findall(r'^Axioms:', out, flags=re.M))
    res['obligations'] = len(ths) + 1          # theorems + hygiene audit
    good = ok and not missing and not disallowed and n_assumption_reports >= len(pa)
    res['discharged'] = len(ths) if good else 0
    res['missing_print_assumptions'] = missing
    res['disallowed_axioms'] = disallowed
    res['ok'] = good
    return res

def coq_eval(name, body, timeout=600):
    """Compile an ad-hoc file coq/Cases/<name>.v (after the project is built) and return coqc's output."""
    d = os.path.join(COQ, 'Cases'); os.makedirs(d, exist_ok=True)
    p = os.path.join(d, name + '.v')
    open(p, 'w').write(body)
    rc, out = run(['coqc', '-noglob', '-Q', '.', 'FB', '-w', '-all', 'Cases/%s.v' % name], cwd=COQ, timeout=timeout, mem_gb=6)
    for ext in ('.vo', '.vok', '.vos', '.glob'):
        try: os.remove(os.path.join(d, name + ext))
        except FileNotFoundError: pass
    return rc, out

def coq_flat(out):
    """Join Coq's wrapped output into one line per '= ...' answer."""
    ans = []
    for chunk in re.split(r'\n(?=\s*= )', '\n' + out):
        c = ' '.join(chunk.split())
        if c.startswith('= '): ans.append(c)
    return ans

# ------------------------------------------------------------------ cargo
def cargo_build(bins=None, features=None, timeout=1800, release=False):
    """Build the harness crate against REPO with the hook guard on. -> (ok, log, bindir)"""
    lockf = os.path.join(HARNESS, 'Cargo.lock')
    with lock('cargo'):
        src_lock = os.path.join(REPO, 'Cargo.lock')
        if not os.path.exists(lockf) and os.path.exists(src_lock):
            shutil.copy(src_lock, lockf)
        cmd = ['cargo', 'build', '--offline']
        if release: cmd.append('--release')
        for b in (bins or []): cmd += ['--bin', b]
        if features: cmd += ['--features', ','.join(features)]
        env = {'RUSTFLAGS': '--cfg %s' % GUARD, 'CARGO_TARGET_DIR': TARGET}
        rc, out = run(cmd, cwd=HARNESS, env=env, timeout=timeout)
    bindir = os.path.join(TARGET, 'release' if release else 'debug')
    return rc == 0, out, bindir

def cargo_build_asan(bins, features=None, timeout=2400):
    """AddressSanitizer build of harness bins (nightly toolchain, own target dir). -> (ok, log, bindir)"""
    with lock('cargo-asan'):
        cmd = ['cargo', '+nightly', 'build', '--offline', '--target', 'x86_64-unknown-linux-gnu']
        for b in bins: cmd += ['--bin', b]
        if features: cmd += ['--features', ','.join(features)]
        env = {'RUSTFLAGS': '--cfg %s -Zsanitizer=address' % GUARD, 'CARGO_TARGET_DIR': TARGET + '-asan'}
        rc, out = run(cmd, cwd=HARNESS, env=env, timeout=timeout)
    return rc == 0, out, os.path.join(TARGET + '-asan', 'x86_64-unknown-linux-gnu', 'debug')

# ------------------------------------------------------------------ findings / reports
def known_findings(prop):
    """entries of the committed /verif/known_findings.json (assembled from known_findings.d/ by
    tools/assemble.py, never written at run time) with status 'known' for this property"""
    p = os.path.join(ROOT, 'known_findings.json')
    if not os.path.exists(p): return []
    return [f for f in json.load(open(p)) if f.get('property') == prop and f.get('status') == 'known']

def write_replay(prop, obj):
    d = os.path.join(OUT, 'replays'); os.makedirs(d, exist_ok=True)
    blob = json.dumps(obj, indent=1, sort_keys=True, default=str)
    h = hashlib.sha1(blob.encode()).hexdigest()[:10]
    p = os.path.join(d, '%s-%s.json' % (prop, h))
    open(p, 'w').write(blob)
    return p

def violation(prop, replay_obj, no_input=False):
    p = write_replay(prop, replay_obj)
    print('VIOLATION property=%s replay=%s%s' % (prop, p, ' no-failing-input-found' if no_input else ''), flush=True)
    return p

class Evidence:
    def __init__(self, prop, tier, seed):
        self.prop, self.tier, self.seed = prop, tier, seed
        self.t0 = time.time()
        self.cov = {'obligations': 0, 'discharged': 0, 'checker_cmd': '', 'trusted_base': [],
                    'evaluations': 0, 'distinct_nontrivial': 0, 'rule': '', 'samples': []}
        self.assumptions = []
        self.violations = 0
    def write(self):
        d = os.path.join(OUT, 'evidence'); os.makedirs(d, exist_ok=True)
        obj = {'property_id': self.prop, 'tier': self.tier, 'seed': self.seed, 'level': 'proof',
               'coverage': self.cov, 'assumptions': self.assumptions,
               'wall_s': round(time.time() - self.t0, 2), 'violations': self.violations}
        p = os.path.join(d, '%s.json' % self.prop)
        tmp = p + '.tmp'; open(tmp, 'w').write(json.dumps(obj, indent=1, default=str)); os.replace(tmp, p)
        return p

TRUSTED_COMMON = [
    'Coq 8.16.1 kernel (coqc full .vo build; vm_compute used for finite tables and witnesses; no native_compute)',
    'no Axiom/Parameter/Admitted in the development (grep audit each run); Print Assumptions of every property theorem compared with an allowlist',
]

# ------------------------------------------------------------------ case evaluation inside Coq
IDX_FALSE = ('Definition idx_false (l : list bool) : list N := map fst (filter (fun p => negb (snd p)) '
             '(combine (map N.of_nat (seq 0 (List.length l))) l)).\n')

_CASE_LIBS_READY = []
def ensure_case_libs():
    """Libraries that only the generated case files import (no Props cone depends on them): build once per process."""
    if _CASE_LIBS_READY: return
    ok, out = coq_make(['Lib/Hex.vo'])
    if ok: _CASE_LIBS_READY.append(1)

def coq_check_cases(name, header, exprs, shard=250, timeout=400):
    """exprs: Coq terms of type bool (model run on the case compared with what the implementation did).
    Evaluated by vm_compute in parallel shards.  -> (failing_indices, error_logs)"""
    from concurrent.futures import ThreadPoolExecutor
    ensure_case_libs()
    shards = [(i, exprs[i:i + shard]) for i in range(0, len(exprs), shard)]
    def one(sh, tmo=None, depth=0):
        base, es = sh
        tmo = tmo or timeout
        body = header + '\n' + IDX_FALSE + 'Eval vm_compute in idx_false [%s].\n' % ';\n'.join(es)
        rc, out = coq_eval('%s_%d' % (name, base), body, timeout=tmo)
        if (rc == 124 or 'out of memory' in out[-400:].lower() or 'Stack overflow' in out[-400:]) and depth < 4:
            # a shard that ran out of time or memory (a loaded machine, or unusually heavy cases) is not evidence of anything:
            # evaluate it again in halves with a doubled time limit before giving up
            if len(es) > 1:
                h = len(es) // 2
                b1, f1, e1 = one((base, es[:h]), tmo * 2, depth + 1)
                if e1 is not None: return base, None, e1
                b2, f2, e2 = one((base + h, es[h:]), tmo * 2, depth + 1)
                if e2 is not None: return base, None, e2
                return base, f1 + f2, None
            return one(sh, tmo * 4, depth + 1)
        ans = coq_flat(out)
        if rc != 0 or len(ans) != 1: return base, None, out[-1500:]
        if re.match(r'= (\[\]|nil)\s*:', ans[0]): return base, [], None
        return base, [base + int(x) for x in re.findall(r'\d+', ans[0].split(':')[0])], None
    fails, errs = [], []
    with ThreadPoolExecutor(max_workers=NPROC) as ex:
        for base, f, err in ex.map(one, shards):
            if err is not None: errs.append({'shard_base': base, 'log': err})
            else: fails += f
    return sorted(fails), errs

def coq_eval_values(name, header, exprs, shard=250, timeout=1200):
    """exprs: Coq terms; returns the printed value (one flat string) per expr, or None on error."""
    from concurrent.futures import ThreadPoolExecutor
    ensure_case_libs()
    shards = [(i, exprs[i:i + shard]) for i in range(0, len(exprs), shard)]
    def one(sh):
        base, es = sh
        body = header + '\n' + ''.join('Eval vm_compute in (%s).\n' % e for e in es)
        rc, out = coq_eval('%s_%d' % (name, base), body, timeout=timeout)
        ans = coq_flat(out)
        if rc != 0 or len(ans) != len(es): return [None] * len(es), out[-1500:]
        return ans, None
    res, errs = [], []
    with ThreadPoolExecutor(max_workers=NPROC) as ex:
        for a, err in ex.map(one, shards):
            res += a
            if err: errs.append(err)
    return res, errs

def hexN(bs):
    """bytes -> Coq term of type list N via the hex decoder of Lib/Hex.v: (unhex "0a1b");
    long constant runs are printed as (repeat b (N.to_nat n)) so that megabyte payloads stay small"""
    bs = bytes(bs)
    if len(bs) < 4096: return '(unhex "%s")' % bs.hex()
    parts = []; i = 0; lit = bytearray()
    while i < len(bs):
        j = i
        while j < len(bs) and bs[j] == bs[i]: j += 1
        if j - i >= 256:
            if lit: parts.append('unhex "%s"' % bytes(lit).hex()); lit = bytearray()
            parts.append('repeat %d (N.to_nat %d)' % (bs[i], j - i))
        else: lit += bs[i:j]
        i = j
    if lit: parts.append('unhex "%s"' % bytes(lit).hex())
    return '(' + ' ++ '.join(parts) + ')%list'


def finding_known(f, known):
    for k in known:
        sig = k.get('signature')
        if isinstance(sig, str) and sig in f.get('what', ''): return k
        if isinstance(sig, dict) and all(f.get('sig', {}).get(a) == b for a, b in sig.items()): return k
    return None

def finish(ev, prop, findings, broken):
    """Classification per the decision table of DESIGN.md 2.4. findings: concrete failing inputs
    (dicts with 'what' and the replayable input); broken: proof obligations / ties that no longer check."""
    known = known_findings(prop)
    new = []; seen_known = {}
    for f in findings:
        k = finding_known(f, known)
        if k is not None: seen_known[json.dumps(k.get('signature'), sort_keys=True)] = k
        else: new.append(f)
    for k in seen_known.values():
        print('KNOWN-FINDING: property=%s %s' % (prop, k['what']), flush=True)
    rc = 0
    if new:
        violation(prop, {'property': prop, 'kind': 'property fails on the implementation',
                         'failing': new[:10], 'n_failing': len(new), 'broken_obligations': broken[:10]})
        rc = 1
    elif broken:
        violation(prop, {'property': prop,
                         'kind': 'a proof obligation or the model-code correspondence no longer checks; no concrete failing input was found',
                         'broken': broken[:20]}, no_input=True)
        rc = 1
    ev.violations = len(new) + (1 if (broken and not new) else 0)
    ev.cov['known_findings_seen'] = len(seen_known)
    ev.write()
    return rc

def coqchk(prop, timeout=3000):
    """independent re-check of Props/<prop>.vo and everything it depends on; -> (ok, axioms listed, log tail)"""
    rc, out = run(['coqchk', '-o', '-silent', '-Q', '.', 'FB', 'FB.Props.%s' % prop], cwd=COQ, timeout=timeout, mem_gb=12)
    m = re.search(r'\* Axioms:\s*(.*?)(?:\n\s*\*|\Z)', out, flags=re.S)
    axioms = ' '.join(m.group(1).split()) if m else None
    return rc == 0, axioms, out[-1500:]

def std_audit(ev, prop, broken, allow_axioms=()):
    """Coq build + Props audit + hygiene; fills evidence; appends to broken. -> audit dict
    In the thorough tier the cone is additionally re-checked with coqchk."""
    audit = props_audit(prop, allow_axioms)
    ev.cov['obligations'] = audit['obligations']
    ev.cov['discharged'] = audit['discharged']
    ev.cov['axioms'] = audit['axioms']
    ev.cov['theorems'] = audit['theorems']
    hy = hygiene(coq_cone(prop))
    ev.cov['cone_files'] = coq_cone(prop)
    if hy:
        broken.append({'kind': 'hygiene', 'offences': hy[:20]}); ev.cov['discharged'] = 0
    elif audit['ok']:
        ev.cov['discharged'] += 1
    if not audit['ok']:
        es = audit['error_site']
        broken.append({'kind': 'proof', 'theorem_or_lemma': es[2] if es else None,
                       'site': list(es[:2]) if es else None, 'message': es[3] if es else audit['log'][-1500:],
                       'disallowed_axioms': audit.get('disallowed_axioms'),
                       'missing_print_assumptions': audit.get('missing_print_assumptions')})
    elif ev.tier == 'thorough':
        ok, axioms, tail = coqchk(prop)
        ev.cov['coqchk'] = {'ok': ok, 'axioms': axioms}
        ev.cov['obligations'] += 1
        if ok and (axioms is None or '<none>' in axioms or all(a in allow_axioms for a in axioms.split())):
            ev.cov['discharged'] += 1
        else:
            broken.append({'kind': 'coqchk', 'log': tail, 'axioms': axioms})
    return audit
