"""repr(C) layout in python (mirror of coq/Lib/Layout.v; both are compared with rustc / gcc by the probes)."""
def round_up(x, a): return x if a == 0 else ((x + a - 1) // a) * a

def size_align(env, t):
    if 'int' in t: return t['int'], t['int']
    if 'arr' in t:
        s, a = size_align(env, t['arr']); return s * t['n'], a
    off = 0; al = 1
    for f, ft in env[t['named']]:
        s, a = size_align(env, ft)
        off = round_up(off, a) + s; al = max(al, a)
    return round_up(off, al), al

def flatten(env, t, prefix='', base=0):
    """-> list of (path, off, width, signed)"""
    if 'int' in t: return [(prefix, base, t['int'], t['signed'])]
    if 'arr' in t:
        s, _ = size_align(env, t['arr']); out = []
        for i in range(t['n']):
            out += flatten(env, t['arr'], '%s[%d]' % (prefix, i), base + i * s)
        return out
    out = []; off = 0
    for f, ft in env[t['named']]:
        s, a = size_align(env, ft)
        o = round_up(off, a)
        out += flatten(env, ft, f if prefix == '' else prefix + '.' + f, base + o)
        off = o + s
    return out

def head(path):
    for i, c in enumerate(path):
        if c in '.[': return path[:i]
    return path
