#!/usr/bin/env python3
"""Translator: small pure integer/byte functions of /repo/src  ->  coq/Gen/RustPure.v (terms of Lib/RustExpr.v).

For every entry of FUNCTIONS the named `fn` is located in its file (inside the given `impl` when one is named), its
parameter list and body are parsed by a recursive-descent parser for an expression subset of Rust, and the body is
emitted as an `rexpr`; `const NAME: T = <expr>` items and `type A = T;` aliases are resolved from the listed files.
Statement sequences become nested `ELet`/`EIf` (the rest of the block is the continuation; `x = e` and `x op= e`
re-bind `x`, which is exact for loop-free code), `match`/`matches!` on literals, constants, enum paths and booleans
become `EIf` chains, `return e` becomes `ERet`, calls of other functions of the same files are inlined under `EScope`.

What is NOT pure in a function is named explicitly in its spec and never skipped silently:
  opaque      : source expressions (by their text) that become extra parameters (`d.name.len()`, an atomic load, ..)
  param_lets  : `let x = <anything>;` whose right-hand side is replaced by a parameter x
  skip_lets   : `let x = <anything>;` dropped (x must not be used by what is translated: an unbound name is an error)
  effects     : statement prefixes (`cursor.write_all`) dropped as effects; a block left empty is dropped with them
Each of these must match at least once, otherwise the spec is stale and that is an error too.  A function that
cannot be found or parsed yields an error entry (a string) and no definition.

Logging macros (error!, warn!, info!, debug!, trace!) are dropped: they do not influence the value.
"""
import os, re, sys

HERE = os.path.dirname(os.path.abspath(__file__))
sys.path.insert(0, HERE)
import rust_abi

class PureError(Exception):
    pass

# ------------------------------------------------------------------ what is translated
V = 'src/api/vfs/mod.rs'
PM = 'src/passthrough/mod.rs'
PU = 'src/passthrough/util.rs'
SS = 'src/api/server/sync_io.rs'
OV = 'src/api/filesystem/overlay.rs'

FUNCTIONS = [
    dict(out='remap_id', fn='remap_id', file=V),
    dict(out='vfs_inode_new', fn='new', file=V, impl='VfsInode', newtypes=['VfsInode', 'Self']),
    dict(out='vfs_inode_is_pseudo_fs', fn='is_pseudo_fs', file=V, impl='VfsInode', opaque=[('self.0', 'self0', 'tuple:VfsInode')]),
    dict(out='vfs_inode_fs_idx', fn='fs_idx', file=V, impl='VfsInode', opaque=[('self.0', 'self0', 'tuple:VfsInode')]),
    dict(out='vfs_inode_ino', fn='ino', file=V, impl='VfsInode', opaque=[('self.0', 'self0', 'tuple:VfsInode')]),
    dict(out='vfs_convert_inode', fn='convert_inode', file=V, impl='Vfs'),
    dict(out='seal_size_check', fn='seal_size_check', file=PM, impl='PassthroughFs', enums=['Opcode'], helpers=[PU]),
    dict(out='get_writeback_open_flags', fn='get_writeback_open_flags', file=PM, impl='PassthroughFs',
         opaque=[('self.writeback.load(Ordering::Relaxed)', 'writeback', 'bool')]),
    dict(out='is_safe_inode', fn='is_safe_inode', file=PU),
    dict(out='add_dirent', fn='add_dirent', file=SS,
         opaque=[('d.name.len()', 'name_len', 'usize'), ('entry.is_some()', 'plus', 'bool'),
                 ('cursor.bytes_written()', 'written', 'usize')],
         skip_lets=['dirent'], effects=['cursor.write_all'], drop_iflet=['entry']),
    dict(out='unique_inode', fn='get_unique_inode', file=PU, impl='UniqueInodeGenerator', consts_from=[PM],
         param_lets={'unique_id': 'u8'},
         opaque=[('id.ino', 'host_ino', 'field:InodeId.ino:src/passthrough/inode_store.rs'),
                 ('self.next_virtual_inode.load(Ordering::Relaxed)', 'next_virtual', 'u64'),
                 ('self.next_virtual_inode.fetch_add(1,Ordering::Relaxed)', 'next_virtual', 'u64')]),
]

# libc functions used by the sources above, as the libc crate defines them for linux (trusted transcription)
PRELUDE = '''
fn major(dev: u64) -> u32 {
    let mut major = 0;
    major |= (dev & 0x00000000000fff00) >> 8;
    major |= (dev & 0xfffff00000000000) >> 32;
    major as u32
}
fn minor(dev: u64) -> u32 {
    let mut minor = 0;
    minor |= (dev & 0x00000000000000ff) >> 0;
    minor |= (dev & 0x00000ffffff00000) >> 12;
    minor as u32
}
'''

ITY = {'u8': 'U8', 'u16': 'U16', 'u32': 'U32', 'u64': 'U64', 'usize': 'Usize', 'i32': 'I32', 'i64': 'I64'}
LIBC_TYPES = dict(rust_abi.TYPE_ALIASES, c_int='i32', c_uint='u32', ino_t='u64', off_t='i64', size_t='usize',
                  uid_t='u32', gid_t='u32', c_ulong='u64', c_long='i64')
LOG_MACROS = {'error', 'warn', 'info', 'debug', 'trace'}

def libc_consts():
    """libc::NAME -> (type, value) for the host platform (python's os/stat/errno mirror the C headers the libc crate
    mirrors); fallocate mode bits from /usr/include/linux/falloc.h when installed"""
    import stat as st, errno as er
    t = {}
    for n in dir(os):
        if n.startswith('O_') and isinstance(getattr(os, n), int): t[n] = ('i32', getattr(os, n))
    for n in dir(st):
        if n.startswith('S_I') and isinstance(getattr(st, n), int): t[n] = ('u32', getattr(st, n))
    for n in dir(er):
        if n.startswith('E') and isinstance(getattr(er, n), int): t[n] = ('i32', getattr(er, n))
    fl = {'FALLOC_FL_KEEP_SIZE': 1, 'FALLOC_FL_PUNCH_HOLE': 2, 'FALLOC_FL_NO_HIDE_STALE': 4, 'FALLOC_FL_COLLAPSE_RANGE': 8,
          'FALLOC_FL_ZERO_RANGE': 16, 'FALLOC_FL_INSERT_RANGE': 32, 'FALLOC_FL_UNSHARE_RANGE': 64}
    try:
        for m in re.finditer(r'#define\s+(FALLOC_FL_\w+)\s+(0x[0-9a-fA-F]+|\d+)', open('/usr/include/linux/falloc.h').read()):
            fl[m.group(1)] = int(m.group(2), 0)
    except OSError:
        pass
    for n, v in fl.items(): t[n] = ('i32', v)
    t['S_IFMT'] = ('u32', 0o170000)          # python's stat.S_IFMT is a function
    t['AT_EMPTY_PATH'] = ('i32', 0x1000); t['AT_SYMLINK_NOFOLLOW'] = ('i32', 0x100)
    return t

# ------------------------------------------------------------------ tokens
PUNCT = ['<<=', '>>=', '..=', '...', '::', '->', '=>', '==', '!=', '<=', '>=', '&&', '||', '<<', '>>', '+=', '-=', '*=', '/=',
         '%=', '&=', '|=', '^=', '..']

def tokenize(src):
    """-> list of (kind, text): kind in id, int, str, chr, life, p"""
    toks = []; i = 0; n = len(src)
    while i < n:
        c = src[i]
        if c.isspace(): i += 1; continue
        if src.startswith('//', i):
            j = src.find('\n', i); i = n if j < 0 else j; continue
        if src.startswith('/*', i):
            d = 1; i += 2
            while i < n and d:
                if src.startswith('/*', i): d += 1; i += 2
                elif src.startswith('*/', i): d -= 1; i += 2
                else: i += 1
            continue
        m = re.compile(r'b?r(#*)"').match(src, i)
        if m:
            end = src.find('"' + m.group(1), m.end())
            if end < 0: raise PureError('unterminated raw string')
            toks.append(('str', '')); i = end + 1 + len(m.group(1)); continue
        if c == '"' or (c == 'b' and src.startswith('b"', i)):
            j = i + (2 if c == 'b' else 1)
            while j < n and src[j] != '"':
                j += 2 if src[j] == '\\' else 1
            toks.append(('str', '')); i = j + 1; continue
        if c == "'" or (c == 'b' and src.startswith("b'", i)):
            k = i + (1 if c == 'b' else 0)
            m = re.compile(r"'(\\.[^']*|[^'\\])'").match(src, k)
            if m: toks.append(('chr', m.group(0))); i = m.end(); continue
            m = re.compile(r"'[A-Za-z_]\w*").match(src, k)
            if m: toks.append(('life', m.group(0))); i = m.end(); continue
            raise PureError('cannot tokenize at %r' % src[i:i + 20])
        m = re.compile(r'(0x[0-9a-fA-F_]+|0o[0-7_]+|0b[01_]+|\d[\d_]*)([ui](?:8|16|32|64|128|size))?').match(src, i)
        if m and not (m.end() < n and (src[m.end()].isalpha() or src[m.end()] == '_')):
            if src.startswith('.', m.end()) and m.end() + 1 < n and src[m.end() + 1].isdigit() and not m.group(0).startswith('0x'):
                raise PureError('floating point literal')
            toks.append(('int', m.group(0))); i = m.end(); continue
        m = re.compile(r'[A-Za-z_]\w*').match(src, i)
        if m: toks.append(('id', m.group(0))); i = m.end(); continue
        for p in PUNCT:
            if src.startswith(p, i):
                toks.append(('p', p)); i += len(p); break
        else:
            toks.append(('p', c)); i += 1
    return toks

OPEN = {'(': ')', '[': ']', '{': '}'}

def match_close(toks, i):
    """toks[i] is an opening bracket -> index of its closing bracket"""
    d = 0
    for j in range(i, len(toks)):
        t = toks[j]
        if t[0] == 'p':
            if t[1] in OPEN: d += 1
            elif t[1] in (')', ']', '}'):
                d -= 1
                if d == 0: return j
    raise PureError('unbalanced brackets')

def skip_angle(toks, i):
    """toks[i] == '<' opening a generic list -> index after the matching '>' ('>>' closes two)"""
    d = 0; j = i
    while j < len(toks):
        k, t = toks[j]
        if k == 'p':
            if t == '<': d += 1
            elif t == '>': d -= 1
            elif t == '>>': d -= 2
            elif t == '->': pass
            elif t in OPEN: j = match_close(toks, j)
            if d <= 0: return j + 1
        j += 1
    raise PureError('unbalanced <>')

# ------------------------------------------------------------------ items of a file
class SourceFile:
    def __init__(self, path, text):
        self.path = path
        self.toks = tokenize(rust_abi.cut_tests(text))
        self._index()

    def _index(self):
        T = self.toks
        self.consts = {}      # name -> (type text, token list of the expression)
        self.aliases = {}     # type alias -> type text
        self.fns = []         # (name, impl name or None, index of 'fn')
        self.tuple_structs = {}   # name -> field type text
        self.structs = {}     # name -> {field: type text}
        impl_stack = []       # (name, closing index)
        i = 0
        while i < len(T):
            while impl_stack and i > impl_stack[-1][1]: impl_stack.pop()
            k, t = T[i]
            if k == 'id' and t in ('impl', 'trait') and (t == 'impl' or T[i + 1][0] == 'id'):
                j = i + 1
                if T[j] == ('p', '<'): j = skip_angle(T, j)
                names = []; b = j
                while T[b] != ('p', '{'):
                    if T[b] == ('p', '<'): b = skip_angle(T, b); continue
                    if T[b] == ('id', 'where'):
                        while T[b] != ('p', '{'): b += 1
                        break
                    if T[b][0] == 'id' and T[b][1] != 'for': names.append(T[b][1])
                    b += 1
                impl_stack.append((names[-1] if names else None, match_close(T, b)))
                i = b + 1; continue
            if k == 'id' and t == 'const' and i + 2 < len(T) and T[i + 1][0] == 'id' and T[i + 2] == ('p', ':'):
                j = i + 3; ty = []
                while T[j] != ('p', '=') and T[j] != ('p', ';'): ty.append(T[j][1]); j += 1
                if T[j] == ('p', '='):
                    e = j + 1; d = 0
                    while not (T[e] == ('p', ';') and d == 0):
                        if T[e][0] == 'p' and T[e][1] in OPEN: d += 1
                        if T[e][0] == 'p' and T[e][1] in (')', ']', '}'): d -= 1
                        e += 1
                    self.consts[T[i + 1][1]] = (''.join(ty), T[j + 1:e])
                    i = e + 1; continue
            if k == 'id' and t == 'type' and i + 2 < len(T) and T[i + 1][0] == 'id' and T[i + 2] == ('p', '='):
                j = i + 3; ty = []
                while T[j] != ('p', ';'): ty.append(T[j][1]); j += 1
                self.aliases[T[i + 1][1]] = ''.join(ty); i = j + 1; continue
            if k == 'id' and t == 'struct' and T[i + 1][0] == 'id':
                name = T[i + 1][1]; j = i + 2
                if T[j] == ('p', '<'): j = skip_angle(T, j)
                if T[j] == ('p', '('):
                    c = match_close(T, j)
                    inner = [x[1] for x in T[j + 1:c] if x != ('id', 'pub')]
                    self.tuple_structs[name] = ''.join(inner)
                    i = c + 1; continue
                if T[j] == ('p', '{'):
                    c = match_close(T, j); fields = {}; a = j + 1
                    while a < c:
                        while T[a] == ('p', '#'): a = match_close(T, a + 1) + 1
                        if T[a] == ('id', 'pub'):
                            a += 1
                            if T[a] == ('p', '('): a = match_close(T, a) + 1
                        if a >= c: break
                        fname = T[a][1]
                        if T[a + 1] != ('p', ':'): break
                        b = a + 2; ty = []; d = 0
                        while b < c and not (T[b] == ('p', ',') and d == 0):
                            if T[b] == ('p', '<'): d += 1
                            if T[b] == ('p', '>'): d -= 1
                            if T[b] == ('p', '>>'): d -= 2
                            ty.append(T[b][1]); b += 1
                        fields[fname] = ''.join(ty); a = b + 1
                    self.structs[name] = fields
                    i = c + 1; continue
            if k == 'id' and t == 'fn' and T[i + 1][0] == 'id':
                self.fns.append((T[i + 1][1], impl_stack[-1][0] if impl_stack else None, i))
            i += 1

    def find_fn(self, name, impl=None):
        c = [f for f in self.fns if f[0] == name and (impl is None or f[1] == impl)]
        if impl is None and len(c) > 1:
            top = [f for f in c if f[1] is None]
            if len(top) == 1: c = top
        if not c: return None
        if len(c) > 1: raise PureError('fn %s is ambiguous in %s (name an impl)' % (name, self.path))
        return self.parse_fn_header(c[0][2])

    def parse_fn_header(self, i):
        """-> dict(name, params=[(name, type text)], ret, body=(lo, hi) token range inside the braces)"""
        T = self.toks; name = T[i + 1][1]; j = i + 2
        if T[j] == ('p', '<'): j = skip_angle(T, j)
        if T[j] != ('p', '('): raise PureError('fn %s: parameter list not found' % name)
        c = match_close(T, j); params = []; a = j + 1
        while a < c:
            b = a; d = 0
            while b < c and not (T[b] == ('p', ',') and d == 0):
                if T[b][0] == 'p' and T[b][1] in OPEN: b = match_close(T, b)
                elif T[b] == ('p', '<'): d += 1
                elif T[b] == ('p', '>'): d -= 1
                elif T[b] == ('p', '>>'): d -= 2
                b += 1
            part = T[a:b]
            if part:
                txt = [x[1] for x in part]
                if 'self' in txt and ':' not in txt: params.append(('self', 'Self'))
                else:
                    k = txt.index(':')
                    pn = [x for x in txt[:k] if x != 'mut']
                    if len(pn) != 1: raise PureError('fn %s: unsupported parameter pattern %r' % (name, ' '.join(txt)))
                    params.append((pn[0], ''.join(txt[k + 1:])))
            a = b + 1
        j = c + 1; ret = []
        while T[j] != ('p', '{'):
            if T[j] == ('p', ';'): raise PureError('fn %s has no body' % name)
            ret.append(T[j][1]); j += 1
        return dict(name=name, params=params, ret=''.join(ret), body=(j + 1, match_close(T, j)), file=self)

# ------------------------------------------------------------------ expression parser (python AST = tuples)
BINPREC = [['||'], ['&&'], ['==', '!=', '<', '>', '<=', '>='], ['|'], ['^'], ['&'], ['<<', '>>'], ['+', '-'], ['*', '/', '%']]
ASSIGN_OPS = {'+=': '+', '-=': '-', '*=': '*', '/=': '/', '%=': '%', '&=': '&', '|=': '|', '^=': '^', '<<=': '<<', '>>=': '>>'}

class Parser:
    def __init__(self, toks, spec):
        self.t = toks; self.i = 0; self.spec = spec
        self.used = {'skip_lets': set(), 'param_lets': set(), 'effects': set(), 'drop_iflet': set()}

    def peek(self, k=0):
        return self.t[self.i + k] if self.i + k < len(self.t) else ('eof', '')
    def at(self, s, k=0):
        x = self.peek(k); return x[0] in ('p', 'id') and x[1] == s
    def eat(self, s):
        if not self.at(s): raise PureError('expected %r, found %r (token %d)' % (s, self.peek()[1], self.i))
        self.i += 1
    def eof(self): return self.i >= len(self.t)

    # ---- blocks and statements
    def block_body(self):
        """statements up to the end of the token list -> ('block', [stmts], tail or None)"""
        stmts = []; tail = None
        while not self.eof():
            if self.at(';'): self.i += 1; continue
            if self.at('#'):            # attribute on a statement
                self.i += 1; self.i = match_close(self.t, self.i) + 1; continue
            if self.at('let'):
                stmts.append(self.let_stmt()); continue
            eff = self.effect_stmt()
            if eff is not None:
                stmts.append(eff); continue
            e = self.expr(stmt=True)
            if self.at('='):
                self.i += 1; rhs = self.expr(); self.eat(';')
                stmts.append(('assign', e, rhs)); continue
            if self.peek()[0] == 'p' and self.peek()[1] in ASSIGN_OPS:
                op = ASSIGN_OPS[self.peek()[1]]; self.i += 1; rhs = self.expr(); self.eat(';')
                stmts.append(('assign', e, ('bin', op, e, rhs))); continue
            if self.at(';'):
                self.i += 1; stmts.append(('expr', e)); continue
            if self.eof():
                tail = e; break
            if e[0] in ('if', 'iflet', 'match', 'block'):     # block-like expression statement without ';'
                stmts.append(('expr', e)); continue
            raise PureError('expected ; after expression, found %r' % (self.peek()[1],))
        return ('block', stmts, tail)

    def effect_stmt(self):
        """a statement that starts with one of the declared effect prefixes: dropped up to its ';'"""
        for pre in self.spec.get('effects', []):
            pt = [x[1] for x in tokenize(pre)]
            if [x[1] for x in self.t[self.i:self.i + len(pt)]] == pt:
                j = self.i
                while not (self.t[j] == ('p', ';')):
                    if self.t[j][0] == 'p' and self.t[j][1] in OPEN: j = match_close(self.t, j)
                    j += 1
                self.i = j + 1; self.used['effects'].add(pre)
                return ('effect', pre)
        return None

    def let_stmt(self):
        self.eat('let')
        if self.at('mut'): self.i += 1
        if self.peek()[0] != 'id' or self.at('('):
            raise PureError('unsupported let pattern at %r' % (self.peek()[1],))
        name = self.peek()[1]; self.i += 1; ty = None
        if self.at(':'):
            self.i += 1; ty = self.type_text(stop=('=', ';'))
        if self.at(';'):
            raise PureError('let %s without initialiser' % name)
        self.eat('=')
        if name in self.spec.get('skip_lets', []) or name in self.spec.get('param_lets', {}):
            j = self.i
            while self.t[j] != ('p', ';'):
                if self.t[j][0] == 'p' and self.t[j][1] in OPEN: j = match_close(self.t, j)
                j += 1
            self.i = j + 1
            if name in self.spec.get('skip_lets', []):
                self.used['skip_lets'].add(name); return ('skiplet', name)
            self.used['param_lets'].add(name); return ('paramlet', name, ty)
        e = self.expr(); self.eat(';')
        return ('let', name, ty, e)

    def type_text(self, stop):
        out = []; d = 0
        while True:
            k, t = self.peek()
            if k == 'eof': break
            if d == 0 and k == 'p' and t in stop: break
            if t == '<': d += 1
            if t == '>': d -= 1
            if t == '>>': d -= 2
            out.append(t); self.i += 1
        return ''.join(out)

    def braced(self):
        """{ ... } -> block node"""
        if not self.at('{'): raise PureError('expected {, found %r' % (self.peek()[1],))
        c = match_close(self.t, self.i)
        sub = Parser(self.t[self.i + 1:c], self.spec); sub.used = self.used
        b = sub.block_body(); self.i = c + 1
        return b

    # ---- expressions
    def expr(self, stmt=False, nostruct=False):
        if self.at('return'):
            self.i += 1
            if self.at(';') or self.eof() or self.at(',') or self.at('}'): return ('ret', ('unit',))
            return ('ret', self.expr())
        if self.at('|') or self.at('||') or self.at('move'):
            return self.closure()
        return self.binary(0, stmt, nostruct)

    def closure(self):
        if self.at('move'): self.i += 1
        ps = []
        if self.at('||'): self.i += 1
        else:
            self.eat('|')
            while not self.at('|'):
                if self.peek()[0] != 'id': raise PureError('unsupported closure parameter')
                ps.append(self.peek()[1]); self.i += 1
                if self.at(':'): self.i += 1; self.type_text(stop=(',', '|'))
                if self.at(','): self.i += 1
            self.eat('|')
        return ('closure', ps, self.expr())

    def binary(self, lvl, stmt=False, nostruct=False):
        if lvl == len(BINPREC): return self.cast_expr(stmt, nostruct)
        a = self.binary(lvl + 1, stmt, nostruct)
        if stmt and a[0] in ('if', 'iflet', 'match', 'block'): return a      # block-like statement: no operator follows
        while self.peek()[0] == 'p' and self.peek()[1] in BINPREC[lvl]:
            if lvl == 3 and self.at('|') and self.at('=', 1): break
            op = self.peek()[1]; self.i += 1
            b = self.binary(lvl + 1, False, nostruct)
            a = ('bin', op, a, b)
            if lvl == 2 and self.peek()[0] == 'p' and self.peek()[1] in BINPREC[2]:
                raise PureError('chained comparison')
        return a

    def cast_expr(self, stmt, nostruct):
        e = self.unary(stmt, nostruct)
        while self.at('as'):
            self.i += 1; ty = []
            while self.peek()[0] == 'id' or self.at('::'):
                ty.append(self.peek()[1]); self.i += 1
            e = ('cast', e, ''.join(ty))
        return e

    def unary(self, stmt, nostruct):
        if self.at('!'): self.i += 1; return ('un', '!', self.unary(False, nostruct))
        if self.at('-'): self.i += 1; return ('un', '-', self.unary(False, nostruct))
        if self.at('*'): self.i += 1; return self.unary(False, nostruct)          # deref of a reference to an integer
        if self.at('&'):
            self.i += 1
            if self.at('mut'): self.i += 1
            return self.unary(False, nostruct)
        if self.at('&&'):
            self.i += 1; return self.unary(False, nostruct)
        return self.postfix(stmt, nostruct)

    def args(self):
        """( a, b, .. ) -> list; self.i at '('"""
        c = match_close(self.t, self.i)
        sub = Parser(self.t[self.i + 1:c], self.spec); sub.used = self.used
        out = []
        while not sub.eof():
            out.append(sub.expr())
            if not sub.eof(): sub.eat(',')
        self.i = c + 1
        return out

    def postfix(self, stmt, nostruct):
        e = self.primary(stmt, nostruct)
        if stmt and e[0] in ('if', 'iflet', 'match', 'block') and not self.at('.') and not self.at('?'): return e
        while True:
            if self.at('?'): self.i += 1; e = ('try', e); continue
            if self.at('.'):
                nk, nt = self.peek(1)
                if nk == 'int': self.i += 2; e = ('field', e, nt); continue
                if nk != 'id': raise PureError('unsupported postfix after .')
                self.i += 2; gen = ''
                if self.at('::') and self.at('<', 1):
                    j = skip_angle(self.t, self.i + 1); gen = ''.join(x[1] for x in self.t[self.i:j]); self.i = j
                if self.at('('): e = ('mcall', e, nt, self.args()); continue
                e = ('field', e, nt); continue
            if self.at('['): raise PureError('indexing is outside the fragment')
            return e

    def path(self):
        segs = []
        while True:
            k, t = self.peek()
            if k != 'id': raise PureError('path expected, found %r' % (t,))
            segs.append(t); self.i += 1
            if self.at('::'):
                if self.at('<', 1):
                    j = skip_angle(self.t, self.i + 1)
                    segs[-1] += '::' + ''.join(x[1] for x in self.t[self.i + 1:j]); self.i = j
                    if self.at('::'): self.i += 1; continue
                    break
                self.i += 1; continue
            break
        return ('path', segs)

    def primary(self, stmt, nostruct):
        k, t = self.peek()
        if k == 'int':
            self.i += 1
            m = re.fullmatch(r'(0x[0-9a-fA-F_]+|0o[0-7_]+|0b[01_]+|[\d_]+)([ui]\w+)?', t)
            return ('int', int(m.group(1).replace('_', ''), 0), m.group(2))
        if k == 'p' and t == '(':
            c = match_close(self.t, self.i)
            if c == self.i + 1: self.i = c + 1; return ('unit',)
            sub = Parser(self.t[self.i + 1:c], self.spec); sub.used = self.used
            e = sub.expr()
            if not sub.eof(): raise PureError('tuples are outside the fragment')
            self.i = c + 1; return ('paren', e)
        if k == 'p' and t == '{': return self.braced()
        if k == 'id' and t == 'unsafe' and self.at('{', 1): raise PureError('unsafe block')
        if k == 'id' and t == 'if': return self.if_expr()
        if k == 'id' and t == 'match': return self.match_expr()
        if k == 'id' and t in ('true', 'false'): self.i += 1; return ('bool', t == 'true')
        if k == 'id' and t in ('loop', 'while', 'for'): raise PureError('loops are outside the fragment')
        if k == 'id':
            p = self.path()
            if self.at('!'):                          # macro
                name = p[1][-1]; self.i += 1
                if not (self.peek()[0] == 'p' and self.peek()[1] in OPEN): raise PureError('macro %s without arguments' % name)
                c = match_close(self.t, self.i); inner = self.t[self.i + 1:c]; self.i = c + 1
                return ('macro', name, inner)
            if self.at('('): return ('call', p, self.args())
            if self.at('{') and not nostruct and not stmt and p[1][-1][:1].isupper():
                raise PureError('struct literal %s {..} is outside the fragment' % '::'.join(p[1]))
            return p
        raise PureError('unexpected token %r' % (t,))

    def if_expr(self):
        self.eat('if')
        if self.at('let'):
            self.i += 1; pat = []
            while not self.at('='): pat.append(self.peek()[1]); self.i += 1
            self.eat('=')
            scrut = self.expr(nostruct=True); a = self.braced(); b = None
            if self.at('else'):
                self.i += 1; b = self.if_expr() if self.at('if') else self.braced()
            return ('iflet', ''.join(pat), scrut, a, b)
        c = self.expr(nostruct=True); a = self.braced(); b = None
        if self.at('else'):
            self.i += 1; b = self.if_expr() if self.at('if') else self.braced()
        return ('if', c, a, b)

    def match_expr(self):
        self.eat('match')
        scrut = self.expr(nostruct=True)
        c = match_close(self.t, self.i)
        sub = Parser(self.t[self.i + 1:c], self.spec); sub.used = self.used
        arms = []
        while not sub.eof():
            arms.append(sub.arm())
        self.i = c + 1
        return ('match', scrut, arms)

    def pattern_alts(self):
        alts = []
        if self.at('|'): self.i += 1
        while True:
            k, t = self.peek()
            if k == 'int': alts.append(self.primary(False, True))
            elif k == 'id' and t == '_': self.i += 1; alts.append(('wild',))
            elif k == 'id' and t in ('true', 'false'): self.i += 1; alts.append(('bool', t == 'true'))
            elif k == 'id':
                p = self.path()
                if self.at('(') or self.at('{'): raise PureError('destructuring pattern %s(..) is outside the fragment' % '::'.join(p[1]))
                alts.append(p)
            else: raise PureError('unsupported pattern at %r' % (t,))
            if self.at('..=') or self.at('..'): raise PureError('range pattern')
            if self.at('|'): self.i += 1; continue
            return alts

    def arm(self):
        alts = self.pattern_alts()
        if self.at('if'): raise PureError('match guard')
        self.eat('=>')
        if self.at('{'):
            body = self.braced()
            if self.at(','): self.i += 1
        else:
            body = self.expr()
            if not self.eof(): self.eat(',')
        return (alts, body)

def unparse(e):
    """canonical text of an expression (used to match the `opaque` entries of a spec)"""
    k = e[0]
    if k == 'path': return '::'.join(e[1])
    if k == 'int': return str(e[1]) + (e[2] or '')
    if k == 'bool': return 'true' if e[1] else 'false'
    if k == 'unit': return '()'
    if k == 'paren': return '(' + unparse(e[1]) + ')'
    if k == 'field': return unparse(e[1]) + '.' + e[2]
    if k == 'mcall': return unparse(e[1]) + '.' + e[2] + '(' + ','.join(unparse(a) for a in e[3]) + ')'
    if k == 'call': return unparse(e[1]) + '(' + ','.join(unparse(a) for a in e[2]) + ')'
    if k == 'bin': return unparse(e[2]) + e[1] + unparse(e[3])
    if k == 'un': return e[1] + unparse(e[2])
    if k == 'cast': return unparse(e[1]) + ' as ' + e[2]
    if k == 'try': return unparse(e[1]) + '?'
    return '<%s>' % k

def parse_expr_text(text, spec=None):
    p = Parser(tokenize(text), spec or {})
    e = p.expr()
    if not p.eof(): raise PureError('trailing tokens in %r' % text)
    return e

# ------------------------------------------------------------------ translation to rexpr (Coq text)
def q(s): return '"%s"' % s
def zlit(v): return '(%d)%%Z' % v

BINOPS = {'+': 'BAdd', '-': 'BSub', '*': 'BMul', '/': 'BDiv', '%': 'BRem', '&': 'BAnd', '|': 'BOr', '^': 'BXor',
          '<<': 'BShl', '>>': 'BShr', '==': 'BEq', '!=': 'BNe', '<': 'BLt', '<=': 'BLe', '>': 'BGt', '>=': 'BGe',
          '&&': 'BLAnd', '||': 'BLOr'}
METH1 = {'wrapping_add': 'MWrappingAdd', 'wrapping_sub': 'MWrappingSub', 'wrapping_mul': 'MWrappingMul',
         'checked_add': 'MCheckedAdd', 'checked_sub': 'MCheckedSub', 'checked_mul': 'MCheckedMul',
         'saturating_add': 'MSaturatingAdd', 'saturating_sub': 'MSaturatingSub', 'min': 'MMin', 'max': 'MMax'}
METH0 = {'is_some': 'MIsSome', 'is_none': 'MIsNone', 'is_ok': 'MIsOk', 'is_err': 'MIsErr', 'unwrap': 'MUnwrap'}
INT_MAX = {'u8': 2**8 - 1, 'u16': 2**16 - 1, 'u32': 2**32 - 1, 'u64': 2**64 - 1, 'usize': 2**64 - 1,
           'i32': 2**31 - 1, 'i64': 2**63 - 1}
INT_MIN = {'u8': 0, 'u16': 0, 'u32': 0, 'u64': 0, 'usize': 0, 'i32': -2**31, 'i64': -2**63}

class World:
    """everything the translation of one function may look at: its file, helper files, the prelude, libc, ABI sizes"""
    def __init__(self, repo):
        self.repo = repo; self.files = {}
        self.libc = libc_consts()
        self.prelude = SourceFile('<prelude>', PRELUDE)
        self._abi = None
    def file(self, rel):
        if rel not in self.files:
            p = os.path.join(self.repo, rel)
            try: txt = open(p).read()
            except OSError as ex: raise PureError('cannot read %s: %s' % (rel, ex))
            self.files[rel] = SourceFile(rel, txt)
        return self.files[rel]
    def abi_sizeof(self, name):
        if self._abi is None:
            t = rust_abi.translate(self.repo, lenient_conv=True)
            self._abi = dict((n, fs) for n, fs in t['structs'])
        def sz(t):
            if 'int' in t: return t['int'], t['int']
            if 'arr' in t:
                s, a = sz(t['arr']); return s * t['n'], a
            return st(t['named'])
        def st(n):
            if n not in self._abi: raise PureError('size_of::<%s>: not a #[repr(C)] struct of src/abi' % n)
            off = 0; al = 1
            for _f, ty in self._abi[n]:
                s, a = sz(ty); off = (off + a - 1) // a * a + s; al = max(al, a)
            return (off + al - 1) // al * al, al
        return st(name)[0]

class Tr:
    def __init__(self, world, spec, files, depth=0):
        self.w = world; self.spec = spec; self.files = files; self.depth = depth
        self.fresh = [0]
        self.opaque = []
        for text, pname, ty in spec.get('opaque', []):
            self.opaque.append((unparse(parse_expr_text(text)), pname, ty))
        self.opaque_used = set()
        self.extra_params = []      # (name, type) in order of first use ... emitted in spec order instead

    # ---- types
    def resolve_ty(self, text):
        t = text.strip()
        t = re.sub(r'^(?:::)?(?:\w+::)*', '', t)
        for _ in range(8):
            if t in ITY or t == 'bool': return t
            if t in LIBC_TYPES: t = LIBC_TYPES[t]; continue
            for f in self.files:
                if t in f.aliases:
                    t = re.sub(r'^(?:::)?(?:\w+::)*', '', f.aliases[t]); break
            else:
                return None
        return None
    def ity(self, text, what):
        t = self.resolve_ty(text)
        if t not in ITY: raise PureError('%s: type %r is not an integer type of the fragment' % (what, text))
        return ITY[t]
    def opaque_type(self, ty):
        if ty.startswith('tuple:'):
            n = ty[6:]
            for f in self.files:
                if n in f.tuple_structs: return f.tuple_structs[n]
            raise PureError('tuple struct %s not found' % n)
        if ty.startswith('field:'):
            parts = ty[6:].split(':'); sn, fn = parts[0].split('.')
            fs = list(self.files) + ([self.w.file(parts[1])] if len(parts) > 1 else [])
            for f in fs:
                if sn in f.structs and fn in f.structs[sn]: return f.structs[sn][fn]
            raise PureError('field %s.%s not found' % (sn, fn))
        return ty

    # ---- constants
    def const(self, segs):
        name = segs[-1]
        if len(segs) >= 2 and segs[-2] in INT_MAX and name in ('MAX', 'MIN'):
            v = INT_MAX[segs[-2]] if name == 'MAX' else INT_MIN[segs[-2]]
            return '(ELitT %s %s)' % (ITY[segs[-2]], zlit(v))
        if len(segs) >= 2 and segs[-2] == 'libc':
            if name not in self.w.libc: raise PureError('libc::%s is not in the libc table of translator/rust_pure.py' % name)
            ty, v = self.w.libc[name]
            return '(EConst %s %s (ELit %s))' % (q('libc::' + name), ITY[ty], zlit(v))
        for f in self.files:
            if name in f.consts:
                ty, toks = f.consts[name]
                p = Parser(toks, {}); e = p.expr()
                if not p.eof(): raise PureError('const %s: cannot parse its expression' % name)
                sub = Tr(self.w, {}, [f] + [x for x in self.files if x is not f], self.depth + 1)
                if self.depth > 8: raise PureError('const %s: definitions nest too deep' % name)
                return '(EConst %s %s %s)' % (q(name), self.ity(ty, 'const ' + name), sub.expr(e, set()))
        return None

    def newvar(self, base):
        self.fresh[0] += 1
        return '__%s%d' % (base, self.fresh[0])

    # ---- expressions
    def expr(self, e, bound):
        k = e[0]
        if k != 'int' and k != 'bool':
            u = unparse(e)
            for text, pname, ty in self.opaque:
                if u == text:
                    self.opaque_used.add(text); return '(EVar %s)' % q(pname)
        if k == 'paren': return self.expr(e[1], bound)
        if k == 'int':
            if e[2]: return '(ELitT %s %s)' % (self.ity(e[2], 'literal'), zlit(e[1]))
            return '(ELit %s)' % zlit(e[1])
        if k == 'bool': return '(EBool %s)' % ('true' if e[1] else 'false')
        if k == 'unit': return 'EUnit'
        if k == 'path':
            segs = e[1]
            if len(segs) == 1 and segs[0] in bound: return '(EVar %s)' % q(segs[0])
            if segs[-1] == 'None' : return 'ENone'
            c = self.const(segs)
            if c is not None: return c
            if len(segs) >= 2 and segs[-2] in self.spec.get('enums', []): return '(EEnum %s)' % q('::'.join(segs[-2:]))
            raise PureError('unbound name %s' % '::'.join(segs))
        if k == 'un': return '(EUn %s %s)' % ('UNot' if e[1] == '!' else 'UNeg', self.expr(e[2], bound))
        if k == 'bin': return '(EBin %s %s %s)' % (BINOPS[e[1]], self.expr(e[2], bound), self.expr(e[3], bound))
        if k == 'cast':
            return '(ECast %s %s)' % (self.expr(e[1], bound), self.ity(e[2], 'cast'))
        if k == 'ret': return '(ERet %s)' % self.expr(e[1], bound)
        if k == 'try': return '(ETry %s)' % self.expr(e[1], bound)
        if k in ('block', 'if', 'iflet', 'match'): return self.stmts([('tail', e)], None, bound, True)
        if k == 'macro': return self.macro(e, bound)
        if k == 'call': return self.call(e, bound)
        if k == 'mcall': return self.mcall(e, bound)
        if k == 'field': raise PureError('field access %s is not declared opaque' % unparse(e))
        raise PureError('expression form %s is outside the fragment' % k)

    def macro(self, e, bound):
        name, toks = e[1], e[2]
        if name == 'matches':
            p = Parser(toks, self.spec); scrut = p.expr(); p.eat(','); alts = p.pattern_alts()
            if not p.eof(): raise PureError('matches! with a guard')
            return self.match(scrut, [(alts, ('bool', True)), ([('wild',)], ('bool', False))], None, bound)
        raise PureError('macro %s! in expression position' % name)

    def call(self, e, bound):
        segs = e[1][1]; args = e[2]; name = segs[-1]
        base = name.split('::<')[0]
        if base in ('Ok', 'Err', 'Some') and len(segs) == 1 and len(args) == 1:
            return '(%s %s)' % ({'Ok': 'EOk', 'Err': 'EErr', 'Some': 'ESome'}[base], self.expr(args[0], bound))
        if base in self.spec.get('newtypes', []) and len(segs) == 1 and len(args) == 1:
            return self.expr(args[0], bound)
        if base == 'from_raw_os_error' and len(args) == 1: return self.expr(args[0], bound)
        if len(segs) >= 2 and segs[-2] in ('Error',) and base in ('other', 'new', 'last_os_error'):
            return '(EEnum %s)' % q('io::Error::' + base)
        if base == 'from' and len(segs) == 2 and segs[0] in ITY and len(args) == 1:
            return '(ECast %s %s)' % (self.expr(args[0], bound), ITY[segs[0]])
        if base == 'size_of' and '::<' in name and not args:
            ty = name.split('::<')[1].rstrip('>')
            r = self.resolve_ty(ty)
            if r in ITY: return '(ELitT Usize %s)' % zlit({'U8': 1, 'U16': 2, 'U32': 4, 'I32': 4}.get(ITY[r], 8))
            return '(EConst %s Usize (ELit %s))' % (q('size_of::<%s>' % ty), zlit(self.w.abi_sizeof(ty)))
        # a function of the same files (or of the libc prelude): inlined
        callee = None
        if len(segs) >= 2 and segs[-2] == 'libc':
            callee = self.w.prelude.find_fn(base)
            if callee is None: raise PureError('libc::%s is not in the prelude of translator/rust_pure.py' % base)
        elif len(segs) == 1 or segs[0] in ('self', 'Self', 'super', 'crate'):
            for f in self.files:
                callee = f.find_fn(base)
                if callee is not None: break
        if callee is None: raise PureError('call of %s is outside the fragment' % '::'.join(segs))
        if self.depth > 6: raise PureError('calls nest too deep at %s' % base)
        ps = [p for p in callee['params'] if p[0] != 'self']
        if len(ps) != len(args): raise PureError('call of %s: %d arguments for %d parameters' % (base, len(args), len(ps)))
        sub = Tr(self.w, dict(self.spec, param_lets={}, skip_lets=[], effects=[], drop_iflet=[]), [callee['file']] + [f for f in self.files if f is not callee['file']], self.depth + 1)
        sub.fresh = self.fresh; sub.opaque = []
        inner_bound = set(); lets = []; substs = {}
        for (pn, pt), a in zip(ps, args):
            r = sub.resolve_ty(pt)
            if r in ITY or r == 'bool':
                tmp = self.newvar('a'); lets.append((tmp, None, self.expr(a, bound)))
                lets.append((pn, ITY.get(r), '(EVar %s)' % q(tmp))); inner_bound.add(pn)
            else:
                if a[0] != 'path' or len(a[1]) != 1: raise PureError('call of %s: non-integer argument %s must be a plain variable' % (base, unparse(a)))
                substs[pn] = a[1][0]
        body = Parser(callee['file'].toks[callee['body'][0]:callee['body'][1]], sub.spec).block_body()
        if substs: body = rename(body, substs)
        sub.opaque = self.opaque; sub.opaque_used = self.opaque_used      # fields of a struct argument keep their meaning
        out = sub.stmts(sub.items(body), None, inner_bound)
        out = '(EScope %s)' % out
        # the callee's body sees only its own parameters: wrap so that argument temporaries are evaluated outside
        for x, ty, v in reversed(lets):
            out = '(ELet %s %s %s %s)' % (q(x), ('(Some %s)' % ty) if ty else 'None', v, out)
        return out

    def mcall(self, e, bound):
        recv, name, args = e[1], e[2], e[3]
        if name in METH1 and len(args) == 1:
            return '(EMeth1 %s %s %s)' % (METH1[name], self.expr(recv, bound), self.expr(args[0], bound))
        if name in METH0 and not args:
            return '(EMeth0 %s %s)' % (METH0[name], self.expr(recv, bound))
        if name == 'map' and len(args) == 1 and args[0][0] == 'closure' and len(args[0][1]) == 1:
            x = args[0][1][0]
            return '(EOptMap %s %s %s)' % (self.expr(recv, bound), q(x), self.expr(args[0][2], bound | {x}))
        if name == 'ok_or_else' and len(args) == 1 and args[0][0] == 'closure' and not args[0][1]:
            return '(EOkOr %s %s)' % (self.expr(recv, bound), self.expr(args[0][2], bound))
        if name == 'ok_or' and len(args) == 1:
            return '(EOkOr %s %s)' % (self.expr(recv, bound), self.expr(args[0], bound))
        # `self.helper()` where helper is a method of the same impl taking only `&self`: inlined (its `self` is ours)
        if recv[0] == 'path' and recv[1] == ['self'] and not args and self.spec.get('impl') and self.depth <= 6:
            callee = None
            for f in self.files:
                try: callee = f.find_fn(name, self.spec['impl'])
                except PureError: callee = None
                if callee is not None: break
            if callee is not None and all(p[0] == 'self' for p in callee['params']):
                sub = Tr(self.w, dict(self.spec, skip_lets=[], effects=[], drop_iflet=[]), [callee['file']] + [f for f in self.files if f is not callee['file']], self.depth + 1)
                sub.fresh = self.fresh; sub.opaque = self.opaque; sub.opaque_used = self.opaque_used
                body = Parser(callee['file'].toks[callee['body'][0]:callee['body'][1]], sub.spec).block_body()
                return '(EScope %s)' % sub.stmts(sub.items(body), None, set())
        raise PureError('method call %s is outside the fragment and not declared opaque' % unparse(e))

    # ---- statements with a continuation
    @staticmethod
    def items(block):
        return block[1] + ([('tail', block[2])] if block[2] is not None else [])

    def stmts(self, ss, k, bound, nested=False):
        """ss: statements; ('tail', e) may close the list.  k: None (the value of the list is its tail, unit when
        there is none) or a function bound -> Coq term for what follows the list."""
        if not ss:
            return 'EUnit' if k is None else k(bound)
        s = ss[0]; rest = ss[1:]
        def cont(b): return self.stmts(rest, k, b, nested)
        kind = s[0]
        if kind == 'effect': return cont(bound)
        if kind == 'skiplet': return cont(bound - {s[1]})
        if kind == 'paramlet':
            x = s[1]; ty = self.spec['param_lets'][x]
            if s[2] is not None and self.resolve_ty(s[2]) != ty: raise PureError('let %s: annotated %s, spec says %s' % (x, s[2], ty))
            return '(ELet %s None (EVar %s) %s)' % (q(x), q('param:' + x), cont(bound | {x}))
        if kind == 'let':
            x, ty, e = s[1], s[2], s[3]
            if nested and x in bound: raise PureError('let %s in a nested block shadows an outer binding (unsupported)' % x)
            t = ('(Some %s)' % self.ity(ty, 'let ' + x)) if ty is not None else 'None'
            return '(ELet %s %s %s %s)' % (q(x), t, self.expr(e, bound), cont(bound | {x}))
        if kind == 'assign':
            lhs = s[1]
            if lhs[0] != 'path' or len(lhs[1]) != 1 or lhs[1][0] not in bound: raise PureError('assignment to %s' % unparse(lhs))
            return '(ELet %s None %s %s)' % (q(lhs[1][0]), self.expr(s[2], bound), cont(bound))
        e = s[1]
        if e[0] == 'paren' and kind == 'tail': e = e[1] if e[1][0] in ('if', 'match', 'block') else e
        if e[0] == 'ret': return self.expr(e, bound)
        if e[0] not in ('if', 'iflet', 'match', 'block', 'macro'):
            if kind == 'tail':
                if k is None: return self.expr(e, bound)
                if e[0] == 'unit': return k(bound)
                raise PureError('value of a nested block is discarded: %s' % unparse(e))
            raise PureError('expression statement %s has no translatable effect' % unparse(e))
        if e[0] == 'macro':
            if e[1] in LOG_MACROS: return cont(bound)
            if e[1] in ('assert', 'assert_eq', 'assert_ne', 'debug_assert', 'debug_assert_eq', 'debug_assert_ne'):
                p = Parser(e[2], self.spec); a = p.expr(); c = a
                if e[1].endswith('_eq') or e[1].endswith('_ne'):
                    p.eat(','); b = p.expr(); c = ('bin', '==' if e[1].endswith('_eq') else '!=', a, b)
                return '(EAssert %s %s %s)' % ('true' if e[1].startswith('debug_') else 'false', self.expr(c, bound), cont(bound))
            if kind == 'tail' and k is None: return self.expr(e, bound)
            raise PureError('macro %s! as a statement' % e[1])
        # block-like: as the tail of the list it inherits the list's continuation, as a statement what follows it
        kk = k if kind == 'tail' else (lambda b: cont(bound))
        k2 = None if kk is None else (lambda b: kk(bound))
        if e[0] == 'block':
            return self.stmts(self.items(e), k2, bound, True)
        if e[0] == 'if':
            c = self.expr(e[1], bound)
            A = self.items(e[2])
            if e[3] is None: B = []
            elif e[3][0] == 'block': B = self.items(e[3])
            else: B = [('tail', e[3])]
            return '(EIf %s %s %s)' % (c, self.stmts(A, k2, bound, True), self.stmts(B, k2, bound, True))
        if e[0] == 'iflet':
            sc = e[2]
            if sc[0] == 'path' and len(sc[1]) == 1 and sc[1][0] in self.spec.get('drop_iflet', []) and \
               all(x[0] == 'effect' for x in e[3][1]) and e[3][2] is None and e[4] is None:
                self.dropped_iflet = getattr(self, 'dropped_iflet', set()) | {sc[1][0]}
                return 'EUnit' if kk is None else kk(bound)
            raise PureError('if let %s = %s is outside the fragment' % (e[1], unparse(sc)))
        return self.match(e[1], e[2], k2, bound)

    def match(self, scrut, arms, k, bound):
        pre = None
        if scrut[0] == 'path' and len(scrut[1]) == 1 and scrut[1][0] in bound: sv = scrut[1][0]
        else:
            sv = self.newvar('m'); pre = self.expr(scrut, bound)
        b2 = bound | {sv}
        def arm_body(body):
            ss = self.items(body) if body[0] == 'block' else [('tail', body)]
            return self.stmts(ss, (None if k is None else (lambda b: k(bound))), b2, True)
        out = None
        for idx in range(len(arms) - 1, -1, -1):
            alts, body = arms[idx]
            if any(a[0] == 'wild' for a in alts) or (len(alts) == 1 and alts[0][0] == 'path' and len(alts[0][1]) == 1 and alts[0][1][0][:1].islower()):
                if idx != len(arms) - 1: raise PureError('catch-all arm is not the last arm')
                if alts[0][0] == 'path': raise PureError('binding pattern %s' % alts[0][1][0])
                out = arm_body(body); continue
            conds = ['(EBin BEq (EVar %s) %s)' % (q(sv), self.expr(a, bound)) for a in alts]
            c = conds[0]
            for c2 in conds[1:]: c = '(EBin BLOr %s %s)' % (c, c2)
            if out is None:
                bools = [a[1] for al, _ in arms for a in al if a[0] == 'bool']
                if sorted(bools) == [False, True] and len(arms) == 2:
                    out = arm_body(body); continue
                out = '(EVar "match:not-exhaustive")'
            out = '(EIf %s %s %s)' % (c, arm_body(body), out)
        if pre is not None: out = '(ELet %s None %s %s)' % (q(sv), pre, out)
        return out

def rename(node, m):
    """rename free single-segment paths (struct-typed parameters of an inlined callee)"""
    if isinstance(node, tuple):
        if node and node[0] == 'path' and len(node[1]) == 1 and node[1][0] in m: return ('path', [m[node[1][0]]])
        return tuple(rename(x, m) for x in node)
    if isinstance(node, list): return [rename(x, m) for x in node]
    return node

# ------------------------------------------------------------------ one function
PTY = lambda t: 'PBool' if t == 'bool' else '(PInt %s)' % ITY[t]

def translate_fn(world, spec):
    f = world.file(spec['file'])
    files = [f] + [world.file(x) for x in spec.get('helpers', []) + spec.get('consts_from', [])]
    fn = f.find_fn(spec['fn'], spec.get('impl'))
    if fn is None: raise PureError('fn %s%s not found in %s' % (spec['fn'], (' of impl ' + spec['impl']) if spec.get('impl') else '', spec['file']))
    tr = Tr(world, spec, files)
    params = []; bound = set()
    for pn, pt in fn['params']:
        if pn == 'self': continue
        r = tr.resolve_ty(pt)
        if r in ITY or r == 'bool': params.append((pn, PTY(r))); bound.add(pn)
        elif re.sub(r'^(\w+::)*', '', pt) in spec.get('enums', []): params.append((pn, 'PEnum')); bound.add(pn)
    p = Parser(f.toks[fn['body'][0]:fn['body'][1]], spec)
    body = p.block_body()
    ss = body[1] + ([('tail', body[2])] if body[2] is not None else [])
    if spec.get('prefix_until_let'):
        # only the statements up to and including `let <x> = ..;` are translated; the value is <result_var>
        x = spec['prefix_until_let']
        idx = [i for i, s in enumerate(ss) if s[0] == 'let' and s[1] == x]
        if not idx: raise PureError('fn %s: let %s not found' % (spec['fn'], x))
        ss = ss[:idx[0] + 1] + [('tail', ('path', [spec['result_var']]))]
    coq = tr.stmts(ss, None, bound)
    extra = []; seen = set()
    for text, pname, ty in tr.opaque:
        if text not in tr.opaque_used: raise PureError('fn %s: opaque expression %s does not occur any more' % (spec['fn'], text))
        if pname in seen: continue
        seen.add(pname)
        r = tr.resolve_ty(tr.opaque_type(ty))
        if not (r in ITY or r == 'bool'): raise PureError('fn %s: opaque %s has type %s' % (spec['fn'], text, ty))
        extra.append((pname, PTY(r)))
    for x, ty in spec.get('param_lets', {}).items():
        if x not in p.used['param_lets']: raise PureError('fn %s: let %s not found' % (spec['fn'], x))
        extra.append(('param:' + x, PTY(ty)))
    for key in ('skip_lets', 'effects'):
        for x in spec.get(key, []):
            if x not in p.used[key]: raise PureError('fn %s: %s entry %s matches nothing' % (spec['fn'], key, x))
    for x in spec.get('drop_iflet', []):
        if x not in getattr(tr, 'dropped_iflet', set()): raise PureError('fn %s: `if let .. = %s` with only effects not found' % (spec['fn'], x))
    rt = 'None'
    rtxt = re.sub(r'^->', '', fn['ret'])
    m = re.fullmatch(r'(?:\w+::)*(?:Result|Option)<(.+?)(?:,.*)?>', rtxt)
    r = tr.resolve_ty(m.group(1) if m else rtxt) if rtxt else None
    if r in ITY: rt = '(Some %s)' % ITY[r]
    return params + extra, rt, coq

def pretty(term, width=110):
    """break the one-line term at top-level-ish parentheses so that the generated file is readable and diff-friendly"""
    out = []; depth = 0; line = ''
    i = 0
    while i < len(term):
        c = term[i]
        if c == '(' and len(line) > width * 0.6 and term[i + 1:i + 2] == 'E':
            out.append(line.rstrip()); line = '  ' * min(depth, 20)
        if c == '(': depth += 1
        if c == ')': depth -= 1
        line += c; i += 1
    out.append(line)
    return '\n'.join(out)

def translate(repo):
    """-> (list of (out name, params, result type, coq body term), list of error strings)"""
    world = World(repo); defs = []; errs = []
    for spec in FUNCTIONS:
        try:
            params, rt, coq = translate_fn(world, spec)
            defs.append((spec['out'], params, rt, coq))
        except PureError as ex:
            errs.append('%s (%s): %s' % (spec['out'], spec['file'], ex))
        except rust_abi.TranslateError as ex:
            errs.append('%s (%s): %s' % (spec['out'], spec['file'], ex))
        except (IndexError, KeyError, ValueError, RecursionError) as ex:
            errs.append('%s (%s): source shape not understood (%s: %s)' % (spec['out'], spec['file'], type(ex).__name__, ex))
    return defs, errs

def emit_coq(defs, errs):
    L = ['(* GENERATED by translator/rust_pure.py from the function bodies in /repo/src -- do not edit. *)',
         'From Coq Require Import List String NArith ZArith.',
         'From FB Require Import Lib.RustExpr.',
         'Import ListNotations.',
         'Local Open Scope string_scope.',
         '']
    for name, params, rt, coq in defs:
        ps = '; '.join('(%s, %s)' % (q(n), t) for n, t in params)
        L.append('Definition %s_src : rfun := {| params := [%s]; ret := %s; body :=\n%s |}.' % (name, ps, rt, pretty(coq)))
        L.append('')
    for e in errs:
        L.append('(* NOT TRANSLATED: %s *)' % e.replace('*)', '* )'))
    return '\n'.join(L) + '\n'

def generate(repo, coq_dir, write_if_changed):
    defs, errs = translate(repo)
    write_if_changed(os.path.join(coq_dir, 'Gen/RustPure.v'), emit_coq(defs, errs))
    return errs

if __name__ == '__main__':
    repo = sys.argv[1] if len(sys.argv) > 1 else '/repo'
    defs, errs = translate(repo)
    sys.stdout.write(emit_coq(defs, errs))
    for e in errs: print('ERROR', e, file=sys.stderr)
