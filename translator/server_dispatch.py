#!/usr/bin/env python3
"""Translator: src/api/server/sync_io.rs + mod.rs -> coq/Gen/RustDispatch.v

Reads: the arms of the `match in_header.opcode` in handle_message (opcode -> handler fn),
for each handler fn the `self.fs.<method>(` calls in its body (following do_rename / do_readdir),
the constants of src/api/server/mod.rs, the `impl<FS: FileSystem> FileSystem for Arc<FS>`
forwarding table of src/api/filesystem/sync_io.rs, and the arms of encode_io_error_kind (src/lib.rs)."""
import re, os, sys
sys.path.insert(0, os.path.dirname(os.path.abspath(__file__)))
from rust_abi import strip_comments, match_brace, TranslateError, eval_expr, coq_str, coq_list, write_if_changed, translate as abi_translate

LIBC_ERRNO = {'EPERM': 1, 'ENOENT': 2, 'EINTR': 4, 'EIO': 5, 'EACCES': 13, 'EEXIST': 17, 'EWOULDBLOCK': 11, 'EAGAIN': 11,
              'EINVAL': 22, 'ETIMEDOUT': 110, 'ECONNREFUSED': 111, 'ECONNRESET': 104, 'EPIPE': 32, 'ENOTCONN': 107,
              'ECONNABORTED': 103, 'EADDRNOTAVAIL': 99, 'EADDRINUSE': 98, 'ENOSYS': 38, 'ENOMEM': 12}

def fn_bodies(src):
    out = {}
    for m in re.finditer(r'\bfn\s+(\w+)\s*(?:<[^>{]*>)?\s*\(', src):
        i = src.find('{', m.end())
        j = src.find(';', m.end())
        if i < 0 or (0 <= j < i): continue
        try: end = match_brace(src, i)
        except TranslateError: continue
        out.setdefault(m.group(1), src[i:end])
    return out

def fs_methods(name, bodies, seen=None):
    seen = seen or set()
    if name in seen or name not in bodies: return []
    seen.add(name)
    body = bodies[name]
    ms = re.findall(r'self\s*\.\s*fs\s*\.\s*(\w+)\s*\(', body)
    for callee in re.findall(r'self\s*\.\s*(do_\w+)\s*\(', body):
        ms += fs_methods(callee, bodies, seen)
    out = []
    for m in ms:
        if m not in out: out.append(m)
    return out

def translate(repo='/repo'):
    src = strip_comments(open(os.path.join(repo, 'src/api/server/sync_io.rs')).read())
    t = src.find('#[cfg(test)]\nmod tests')
    if t > 0: src = src[:t]
    abi = abi_translate(repo, lenient_conv=True)     # only constants and enums are used here
    opnum = dict(abi['enums'][0][1])
    m = re.search(r'fn\s+handle_message\b', src)
    if not m: raise TranslateError('handle_message not found')
    body = src[src.index('{', m.end()):]
    body = body[:match_brace(body, 0)]
    mm = re.search(r'match\s+in_header\.opcode\s*\{', body)
    if not mm: raise TranslateError('dispatch match not found')
    arms_src = body[mm.end() - 1:]
    arms_src = arms_src[:match_brace(arms_src, 0)]
    arms = []
    for am in re.finditer(r'x\s+if\s+x\s*==\s*Opcode::(\w+)\s+as\s+u32\s*=>\s*(\{[^{}]*self\s*\.\s*(\w+)\s*\([^;]*;[^{}]*\}|self\s*\.\s*(\w+)\s*\()', arms_src):
        op = am.group(1); h = am.group(3) or am.group(4)
        if op not in opnum: raise TranslateError('unknown opcode %s in dispatch' % op)
        arms.append([opnum[op], op, h])
    if len(arms) < 40: raise TranslateError('only %d dispatch arms parsed' % len(arms))
    dm = re.search(r'_\s*=>\s*ctx\.reply_error\(io::Error::from_raw_os_error\(libc::(\w+)\)\)', arms_src)
    if not dm: raise TranslateError('default dispatch arm not found')
    bodies = fn_bodies(src)
    table = [[n, op, h, fs_methods(h, bodies)] for n, op, h in arms]
    # server constants
    msrc = strip_comments(open(os.path.join(repo, 'src/api/server/mod.rs')).read())
    consts = []
    env = {}
    for cm in re.finditer(r'(?:#\[cfg\(target_os\s*=\s*"(\w+)"\)\]\s*)?(?:pub\s+)?const\s+(\w+)\s*:\s*(\w+)\s*=\s*([^;]+);', msrc):
        if cm.group(1) == 'macos': continue
        try: v = eval_expr(cm.group(4), env)
        except TranslateError: continue
        env[cm.group(2)] = v; consts.append([cm.group(2), v])
    # Arc<FS> forwarding
    fsrc = strip_comments(open(os.path.join(repo, 'src/api/filesystem/sync_io.rs')).read())
    am = re.search(r'impl\s*<\s*FS\s*:\s*FileSystem\s*>\s*FileSystem\s+for\s+Arc\s*<\s*FS\s*>\s*\{', fsrc)
    if not am: raise TranslateError('impl FileSystem for Arc<FS> not found')
    ab = fsrc[am.end() - 1:]; ab = ab[:match_brace(ab, 0)]
    fwd = []
    for fm in re.finditer(r'fn\s+(\w+)\s*(?:<[^>{]*>)?\s*\(([^)]*)\)[^{;]*\{', ab):
        name = fm.group(1); i = fm.end() - 1; b = ab[i:match_brace(ab, i)]
        params = [p.split(':')[0].strip().replace('mut ', '') for p in fm.group(2).split(',') if ':' in p and 'self' not in p.split(':')[0]]
        cm = re.search(r'self\.deref\(\)\s*\.\s*(\w+)\s*\(([^;]*)\)\s*[;}]?', b, flags=re.S) or re.search(r'\(\*\*self\)\s*\.\s*(\w+)\s*\(([^;]*)\)', b, flags=re.S)
        if not cm:
            fwd.append([name, None, params, None]); continue
        args = [a.strip() for a in cm.group(2).replace('\n', ' ').split(',') if a.strip()]
        fwd.append([name, cm.group(1), params, args])
    # encode_io_error_kind
    lsrc = strip_comments(open(os.path.join(repo, 'src/lib.rs')).read())
    em = re.search(r'pub\s+fn\s+encode_io_error_kind\s*\([^)]*\)\s*->\s*i32\s*\{', lsrc)
    if not em: raise TranslateError('encode_io_error_kind not found')
    eb = lsrc[em.end() - 1:]; eb = eb[:match_brace(eb, 0)]
    kinds = []; default = None
    for km in re.finditer(r'(ErrorKind::(\w+)|_)\s*=>\s*([^,]+),', eb):
        val = 0
        for t_ in km.group(3).split('|'):
            nm = t_.strip().replace('libc::', '')
            if nm not in LIBC_ERRNO: raise TranslateError('unknown errno %s' % nm)
            val |= LIBC_ERRNO[nm]
        if km.group(1) == '_': default = val
        elif km.group(2) not in KIND_CODE: raise TranslateError('encode_io_error_kind has an arm for ErrorKind::%s, which has no harness kind code' % km.group(2))
        else: kinds.append([km.group(2), val])
    if default is None: raise TranslateError('no default arm in encode_io_error_kind')
    return {'dispatch': table, 'default_errno': LIBC_ERRNO[dm.group(1)], 'consts': consts, 'forward': fwd,
            'error_kinds': kinds, 'error_kind_default': default}

KIND_CODE = {'PermissionDenied': 0, 'NotFound': 1, 'Interrupted': 2, 'AlreadyExists': 3, 'WouldBlock': 4, 'InvalidData': 5,
             'Other': 6, 'TimedOut': 7, 'UnexpectedEof': 8, 'WriteZero': 9}
# every other stable io::ErrorKind has a harness code too (harness/src/bin/codec*.rs kind_of), so that an arm added to
# encode_io_error_kind for ANY kind reaches the model comparison and can be scripted as a filesystem answer; a kind
# this table does not know is a TranslateError, never a silently dropped arm
KIND_EXT = ['ConnectionRefused', 'ConnectionReset', 'ConnectionAborted', 'NotConnected', 'AddrInUse', 'AddrNotAvailable',
            'BrokenPipe', 'InvalidInput', 'Unsupported', 'OutOfMemory', 'HostUnreachable', 'NetworkUnreachable', 'NetworkDown',
            'NotADirectory', 'IsADirectory', 'DirectoryNotEmpty', 'ReadOnlyFilesystem', 'StaleNetworkFileHandle', 'StorageFull',
            'NotSeekable', 'QuotaExceeded', 'FileTooLarge', 'ResourceBusy', 'ExecutableFileBusy', 'Deadlock', 'CrossesDevices',
            'TooManyLinks', 'InvalidFilename', 'ArgumentListTooLong']
for _i, _k in enumerate(KIND_EXT): KIND_CODE[_k] = 10 + _i

def emit_coq(t):
    L = ['(* GENERATED by translator/server_dispatch.py from /repo/src/api/server/*.rs, src/api/filesystem/sync_io.rs, src/lib.rs -- do not edit. *)',
         'From Coq Require Import List String NArith Bool.', 'Import ListNotations.', 'Local Open Scope string_scope.', 'Local Open Scope N_scope.', '']
    L.append('(* (opcode number, handler function, filesystem methods the handler calls) *)')
    L.append('Definition rust_dispatch : list (N * string * list string) := ' + coq_list(
        ['(%d, %s, [%s])' % (n, coq_str(h), '; '.join(coq_str(x) for x in ms)) for n, op, h, ms in t['dispatch']]) + '.\n')
    L.append('Definition rust_dispatch_default_errno : N := %d.\n' % t['default_errno'])
    L.append('Definition rust_server_consts : list (string * N) := ' + coq_list(['(%s, %d)' % (coq_str(n), v) for n, v in t['consts']]) + '.\n')
    L.append('(* Arc<FS> forwarding: (method, forwarded-to method, arguments passed in parameter order?) *)')
    L.append('Definition rust_arc_forward : list (string * string * bool) := ' + coq_list(
        ['(%s, %s, %s)' % (coq_str(n), coq_str(tgt or ''), 'true' if (args is not None and [a for a in args] == params) else 'false')
         for n, tgt, params, args in t['forward']]) + '.\n')
    L.append('(* encode_io_error_kind: (harness kind code, errno) for the kinds with an explicit arm, and the default *)')
    L.append('Definition rust_error_kinds : list (N * N) := ' + coq_list(
        ['(%d, %d)' % (KIND_CODE[k], v) for k, v in t['error_kinds'] if k in KIND_CODE]) + '.')
    L.append('Definition rust_error_kind_default : N := %d.\n' % t['error_kind_default'])
    return '\n'.join(L)

if __name__ == '__main__':
    import json
    t = translate(sys.argv[1] if len(sys.argv) > 1 else '/repo')
    print(json.dumps(t, indent=1)[:6000])
