#!/usr/bin/env python3
"""Translator: /repo/src/abi/{fuse_abi_linux,virtio_fs}.rs  ->  tables.

Reads (line/brace level, fixed Rust subset):
  * every `#[repr(C)] pub struct S { pub f: T, ... }`
  * every top-level `const NAME: T = EXPR;`
  * every `bitflags! { pub struct B: T { const M = EXPR; ... } }`
  * `#[repr(u32)] pub enum E { V = n, ... }`
  * the arms of `impl From<u32> for Opcode`
  * the field pairings of Attr::with_flags, From<Attr> for stat64,
    From<statvfs64> for Kstatfs, From<SetattrIn> for stat64
Anything it cannot parse raises TranslateError (reported as a broken tie).
Output: a python dict (also dumped as JSON) and coq/Gen/RustABI.v.
"""
import re, json, os, sys

class TranslateError(Exception):
    pass

INT_TYPES = {
    'u8': (1, False), 'u16': (2, False), 'u32': (4, False), 'u64': (8, False),
    'i8': (1, True), 'i16': (2, True), 'i32': (4, True), 'i64': (8, True),
    'usize': (8, False), 'isize': (8, True),
}

def strip_comments(s):
    s = re.sub(r'/\*.*?\*/', '', s, flags=re.S)
    s = re.sub(r'//[^\n]*', '', s)
    return s

def match_brace(s, i):
    """s[i] == '{' -> index just after the matching '}'"""
    assert s[i] == '{'
    d = 0
    for j in range(i, len(s)):
        if s[j] == '{': d += 1
        elif s[j] == '}':
            d -= 1
            if d == 0: return j + 1
    raise TranslateError('unbalanced braces')

def cut_tests(s):
    m = re.search(r'#\[cfg\(test\)\]\s*mod\s+tests\s*\{', s)
    if not m: return s
    return s[:m.start()]

def eval_expr(expr, env):
    e = expr.strip()
    e = re.sub(r'(\d)_(?=[0-9a-fA-F])', r'\1', e)
    e = re.sub(r'(\d)_(?=[0-9a-fA-F])', r'\1', e)
    e = re.sub(r'\b(0x[0-9a-fA-F]+|\d+)_?(u8|u16|u32|u64|i32|i64|usize)\b', r'\1', e)
    e = re.sub(r'\bas\s+\w+', '', e)
    if not re.fullmatch(r'[\w\s<>|&()+\-*~x]+', e):
        raise TranslateError('unsupported const expression: %r' % expr)
    try:
        return int(eval(e, {"__builtins__": {}}, dict(env)))
    except Exception as ex:
        raise TranslateError('cannot evaluate %r: %s' % (expr, ex))

def parse_type(t, env=None):
    t = t.strip()
    m = re.fullmatch(r'\[\s*(.+?)\s*;\s*(\d+)\s*\]', t)
    if m:
        return {'arr': parse_type(m.group(1), env), 'n': int(m.group(2))}
    # the length may be a named constant of the same file (`[u32; N_UNUSED]`): read it from the translated constants
    m = re.fullmatch(r'\[\s*(.+?)\s*;\s*(?:\w+::)*([A-Z]\w*)(?:\s+as\s+usize)?\s*\]', t)
    if m and env is not None and isinstance(env.get(m.group(2)), int):
        return {'arr': parse_type(m.group(1), env), 'n': env[m.group(2)]}
    if t in INT_TYPES:
        w, s = INT_TYPES[t]
        return {'int': w, 'signed': s}
    if re.fullmatch(r'[A-Z]\w*', t):
        return {'named': t}
    raise TranslateError('unsupported field type %r' % t)

def parse_structs(src, env=None, lenient=False):
    """strict: every `#[repr(C)] pub struct` with `pub` integer / array / named fields; a `pub struct` that implements
    ByteValued (i.e. is read from / written to the wire) without `#[repr(C)]` is an error (its layout is unspecified).
    lenient (names-only fallback, used to keep the rustc probes running on source the strict reader refuses): every
    `pub struct` with a braced body; a field whose type cannot be read is kept as {'opaque': text} (the probe still
    reports its offset and size), a field that is not `pub` is kept with 'private' (it cannot be probed from outside)."""
    out = []
    wire = set(re.findall(r'unsafe\s+impl\s+ByteValued\s+for\s+(\w+)', src))
    if lenient:
        rx = r'((?:#\[[^\]]*\]\s*)*)pub\s+struct\s+(\w+)\s*\{'
    else:
        rx = r'(#\[repr\(C\)\]\s*(?:#\[[^\]]*\]\s*)*)pub\s+struct\s+(\w+)\s*\{'
    seen = set()
    for m in re.finditer(rx, src):
        name = m.group(2)
        if lenient and name not in wire and 'repr(C' not in m.group(1): continue
        end = match_brace(src, m.end() - 1)
        body = src[m.end():end - 1]
        fields = []
        for part in body.split(','):
            part = part.strip()
            if not part: continue
            # array types contain ';' not ',' so a plain comma split is fine
            fm = re.fullmatch(r'(?:#\[[^\]]*\]\s*)*pub\s+(\w+)\s*:\s*(.+)', part, flags=re.S)
            if not fm:
                if not lenient: raise TranslateError('struct %s: cannot parse field %r' % (name, part))
                fm = re.fullmatch(r'(?:#\[[^\]]*\]\s*)*(?:pub\s*\([^)]*\)\s*)?(\w+)\s*:\s*(.+)', part, flags=re.S)
                if not fm: raise TranslateError('struct %s: cannot parse field %r' % (name, part))
                try: ty = parse_type(fm.group(2), env)
                except TranslateError: ty = {'opaque': fm.group(2).strip()}
                ty = dict(ty, private=True)
                fields.append([fm.group(1), ty]); continue
            try: ty = parse_type(fm.group(2), env)
            except TranslateError:
                if not lenient: raise
                ty = {'opaque': fm.group(2).strip()}
            fields.append([fm.group(1), ty])
        out.append([name, fields]); seen.add(name)
    if not lenient:
        for mm in re.finditer(r'pub\s+struct\s+(\w+)\s*\{', src):
            if mm.group(1) in wire and mm.group(1) not in seen:
                raise TranslateError('struct %s implements ByteValued but is not declared `#[repr(C)] pub struct` '
                                     '(layout unspecified / attribute form not understood)' % mm.group(1))
    return out

def parse_consts(src, lenient=False):
    env = {}
    order = []
    depth0 = []
    # only top-level consts: walk and track brace depth
    d = 0; i = 0; n = len(src); line_start = 0
    tops = []
    cur = []
    for ch in src:
        if ch == '{': d += 1
        elif ch == '}': d -= 1
        cur.append(ch if d == 0 or (d == 1 and ch == '{') else ' ')
    flat = ''.join(cur)
    for m in re.finditer(r'(pub\s+)?const\s+(\w+)\s*:\s*(\w+)\s*=\s*([^;]+);', flat):
        name, ty, expr = m.group(2), m.group(3), m.group(4)
        try: v = eval_expr(expr, env)
        except TranslateError:
            if not lenient: raise
            v = None            # names-only fallback: the value is whatever rustc reports for the name
        if v is not None: env[name] = v
        order.append([name, ty, v, bool(m.group(1))])
    return order, env

def parse_bitflags(src, env, lenient=False):
    out = []
    for m in re.finditer(r'bitflags!\s*\{', src):
        end = match_brace(src, m.end() - 1)
        body = src[m.end():end - 1]
        sm = re.search(r'pub\s+struct\s+(\w+)\s*:\s*(\w+)\s*\{', body)
        if not sm: raise TranslateError('bitflags block without struct')
        iend = match_brace(body, sm.end() - 1)
        inner = body[sm.end():iend - 1]
        members = []
        menv = dict(env)
        for cm in re.finditer(r'const\s+(\w+)\s*=\s*([^;]+);', inner):
            # a member may be composed of earlier members: `Self::A.bits | Self::B.bits` / `Self::A.bits()`
            expr = re.sub(r'\bSelf::(\w+)\.bits(?:\(\))?', r'__m_\1', cm.group(2))
            try: v = eval_expr(expr, menv)
            except TranslateError:
                if not lenient: raise
                v = None
            if v is not None: menv['__m_' + cm.group(1)] = v
            members.append([cm.group(1), v])
        out.append([sm.group(1), sm.group(2), members])
    return out

def parse_enums(src, env=None, lenient=False):
    """`#[repr(u32)] pub enum E { V = expr, W, ... }`: an explicit discriminant may be any constant expression the
    constant reader understands; a variant without one continues from its predecessor (0 for the first), as in Rust."""
    out = []
    for m in re.finditer(r'#\[repr\(u32\)\]\s*(?:#\[[^\]]*\]\s*)*pub\s+enum\s+(\w+)\s*\{', src):
        end = match_brace(src, m.end() - 1)
        body = src[m.end():end - 1]
        vs = []; nxt = 0
        for part in body.split(','):
            part = re.sub(r'#\[[^\]]*\]', '', part).strip()
            if not part: continue
            vm = re.fullmatch(r'(\w+)\s*(?:=\s*(.+))?', part, flags=re.S)
            if not vm:
                if lenient: continue
                raise TranslateError('enum %s: cannot parse %r' % (m.group(1), part))
            if vm.group(2) is None: v = nxt
            else:
                try: v = eval_expr(vm.group(2), env or {})
                except TranslateError:
                    if not lenient: raise
                    v = None
            vs.append([vm.group(1), v]); nxt = None if v is None else v + 1
        out.append([m.group(1), vs])
    return out

def parse_opcode_from(src):
    """The u32 -> Opcode table.  Accepts the table inside `impl From<u32> for Opcode` or inside a private helper
    (`fn from_raw(op: u32) -> Option<Opcode>`) that `From<u32>` calls with `.unwrap_or(Opcode::X)`; the scrutinee may
    have any name.  Whatever is read here is compared with rustc's `Opcode::from` on thousands of values by the probe."""
    m = re.search(r'impl\s+From<u32>\s+for\s+Opcode\s*\{', src)
    if not m: raise TranslateError('impl From<u32> for Opcode not found')
    end = match_brace(src, m.end() - 1)
    from_body = src[m.end():end - 1]
    arms_src = None
    for mm in re.finditer(r'match\s+\w+\s*\{', src):
        mend = match_brace(src, mm.end() - 1)
        cand = src[mm.end():mend - 1]
        if len(re.findall(r'\d+\s*=>\s*(?:Some\(\s*)?Opcode::\w+', cand)) >= 20:
            arms_src = cand; break
    if arms_src is None: raise TranslateError('opcode table (match with N => Opcode::X arms) not found')
    outer_default = None
    dm = re.search(r'unwrap_or(?:_else)?\(\s*(?:\|\|\s*)?Opcode::(\w+)\s*\)', from_body)
    if dm: outer_default = dm.group(1)
    arms = []; default = None
    for part in arms_src.split(','):
        part = part.strip()
        if not part: continue
        am = re.fullmatch(r'(.+?)\s*=>\s*(?:Some\(\s*)?Opcode::(\w+)\s*\)?', part, flags=re.S)
        if not am:
            if re.fullmatch(r'_\s*=>\s*(?:return\s+)?None', part) and outer_default is not None:
                default = outer_default; continue
            raise TranslateError('cannot parse match arm %r' % part)
        pat, tgt = am.group(1).strip(), am.group(2)
        if pat == '_':
            default = tgt
        else:
            for alt in pat.split('|'):
                alt = alt.strip()
                rm = re.fullmatch(r'(\d+)\s*\.\.=\s*(\d+)', alt)
                if rm:
                    for v in range(int(rm.group(1)), int(rm.group(2)) + 1):
                        arms.append([v, tgt])
                elif re.fullmatch(r'[\d_]+', alt):
                    arms.append([int(alt.replace('_', '')), tgt])
                else:
                    raise TranslateError('unsupported match pattern %r' % alt)
    if default is None: raise TranslateError('no default arm in From<u32> for Opcode')
    return arms, default

# libc::stat64 / statvfs64 field types on x86_64-unknown-linux-gnu (documented in
# the trusted base; cross-checked by the Rust probe through size_of_val).
STAT64 = {
    'st_dev': 'u64', 'st_ino': 'u64', 'st_nlink': 'u64', 'st_mode': 'u32', 'st_uid': 'u32',
    'st_gid': 'u32', 'st_rdev': 'u64', 'st_size': 'i64', 'st_blksize': 'i64', 'st_blocks': 'i64',
    'st_atime': 'i64', 'st_atime_nsec': 'i64', 'st_mtime': 'i64', 'st_mtime_nsec': 'i64',
    'st_ctime': 'i64', 'st_ctime_nsec': 'i64',
}
STATVFS64 = {
    'f_bsize': 'u64', 'f_frsize': 'u64', 'f_blocks': 'u64', 'f_bfree': 'u64', 'f_bavail': 'u64',
    'f_files': 'u64', 'f_ffree': 'u64', 'f_favail': 'u64', 'f_fsid': 'u64', 'f_flag': 'u64',
    'f_namemax': 'u64',
}
TYPE_ALIASES = {'mode_t': 'u32', 'nlink_t': 'u64', 'dev_t': 'u64', 'blksize_t': 'i64',
                'ino64_t': 'u64', 'off64_t': 'i64'}

def norm_ty(t):
    t = TYPE_ALIASES.get(t, t)
    if t not in INT_TYPES: raise TranslateError('unknown integer type %r in conversion' % t)
    return t

def fn_body(src, header_re):
    m = re.search(header_re, src)
    if not m: raise TranslateError('conversion %r not found' % header_re)
    i = src.index('{', m.end() - 1)
    end = match_brace(src, i)
    return src[i + 1:end - 1]

def hoisted_locals(body, src_var):
    """`let x = src.f as T;` bindings in front of the literal / assignments (a pure read given a name)"""
    b = {}
    for m in re.finditer(r'\blet\s+(\w+)(?:\s*:\s*\w+)?\s*=\s*([^;]+);', body):
        rhs = m.group(2).strip()
        if re.fullmatch(src_var + r'\.\w+(?:\s+as\s+\w+)*', rhs) or re.fullmatch(r'\w+::from\(\s*' + src_var + r'\.\w+\s*\)', rhs):
            b[m.group(1)] = rhs
    return b

def parse_conv_literal(body, struct_name, src_var, dst_types, src_types):
    """Struct-literal style: `Name { dst: src_var.src as T, ... }` -> [(dst, src|None, [types...])]"""
    m = re.search(r'\b(?:' + struct_name + r'|Self)\s*\{', body)
    if not m: raise TranslateError('literal %s {..} not found' % struct_name)
    binds = hoisted_locals(body, src_var)
    end = match_brace(body, m.end() - 1)
    inner = body[m.end():end - 1]
    inner = re.sub(r'#\[[^\]]*\]', '', inner)
    rows = []
    for part in inner.split(','):
        part = part.strip()
        if not part or part.startswith('..'): continue
        fm = re.fullmatch(r'(\w+)\s*:\s*(.+)', part, flags=re.S)
        if fm:
            dst, rhs = fm.group(1), fm.group(2).strip()
        elif re.fullmatch(r'\w+', part):
            dst, rhs = part, part
        else:
            raise TranslateError('cannot parse conversion field %r' % part)
        if rhs in binds: rhs = binds[rhs]
        if re.fullmatch(r'0|\[\s*0\s*;\s*\d+\s*\]|Default::default\(\)', rhs): continue    # explicit zero = the derived default
        rows.append(conv_row(dst, rhs, src_var, dst_types, src_types))
    return rows

def conv_row(dst, rhs, src_var, dst_types, src_types):
    rm = re.fullmatch(src_var + r'\.(\w+)((?:\s+as\s+\w+)*)', rhs)
    if rm:
        src = rm.group(1)
        casts = [norm_ty(c) for c in re.findall(r'as\s+(\w+)', rm.group(2))]
    else:
        rm = re.fullmatch(r'(\w+)::from\(\s*' + src_var + r'\.(\w+)\s*\)', rhs)
        if rm:
            src = rm.group(2); casts = [norm_ty(rm.group(1))]
        elif re.fullmatch(r'\w+', rhs):
            return [dst, None, rhs, []]   # parameter passed through (e.g. flags)
        else:
            raise TranslateError('unsupported conversion rhs %r' % rhs)
    if src not in src_types: raise TranslateError('unknown source field %r' % src)
    if dst not in dst_types: raise TranslateError('unknown destination field %r' % dst)
    chain = [src_types[src]] + casts + [dst_types[dst]]
    return [dst, src, None, chain]

def parse_conv_assign(body, dst_var, src_var, dst_types, src_types):
    rows = []
    binds = hoisted_locals(body, src_var)
    for m in re.finditer(r'\b' + dst_var + r'\.(\w+)\s*=\s*([^;]+);', body):
        rhs = m.group(2).strip()
        if rhs in binds: rhs = binds[rhs]
        rows.append(conv_row(m.group(1), rhs, src_var, dst_types, src_types))
    if not rows: raise TranslateError('no `%s.field = ...;` assignments found in conversion' % dst_var)
    return rows

def fn_vars(src, header_re):
    """(name of the first parameter, name of the `let mut x` result variable or None) of the function matched by header_re"""
    m = re.search(header_re, src)
    if not m: raise TranslateError('conversion %r not found' % header_re)
    pm = re.compile(r'\(\s*(\w+)\s*:').search(src, m.end() - 1)
    if not pm: raise TranslateError('parameter of %r not found' % header_re)
    i = src.index('{', pm.end()); end = match_brace(src, i)
    lm = re.search(r'\blet\s+mut\s+(\w+)', src[i:end])
    return pm.group(1), (lm.group(1) if lm else None)

def struct_field_types(structs, name):
    for n, fs in structs:
        if n == name:
            d = {}
            for f, t in fs:
                if 'int' in t:
                    d[f] = [k for k, v in INT_TYPES.items() if v == (t['int'], t['signed']) and k not in ('usize', 'isize')][0]
            return d
    raise TranslateError('struct %s not found' % name)

ENTRY_SRC = {'inode': 'u64', 'generation': 'u64', 'attr_flags': 'u32',
             'entry_timeout.secs': 'u64', 'entry_timeout.nsec': 'u32', 'attr_timeout.secs': 'u64', 'attr_timeout.nsec': 'u32'}

def parse_entry_out(src, attr_rows, attr_t):
    """`impl From<Entry> for fuse::EntryOut` (src/api/filesystem/mod.rs): a struct literal whose fields are
    `entry.f`, `entry.t.as_secs()`, `entry.t.subsec_nanos()` and `attr: Attr::with_flags(entry.attr, entry.attr_flags)`.
    Rows are named by leaf path (`attr.ino` <- `attr.st_ino`)."""
    H = r'impl\s+From<Entry>\s+for\s+(?:fuse::)?EntryOut\s*\{\s*fn\s+from'
    body = fn_body(src, H); var = fn_vars(src, H)[0]
    m = re.search(r'\b(?:fuse::)?EntryOut\s*\{', body)
    if not m: raise TranslateError('literal EntryOut {..} not found')
    if body[:m.start()].strip(): raise TranslateError('From<Entry> for EntryOut: statements before the literal: %r' % body[:m.start()].strip()[:80])
    end = match_brace(body, m.end() - 1)
    if body[end:].strip(): raise TranslateError('From<Entry> for EntryOut: code after the literal')
    inner = body[m.end():end - 1]
    dst_t = {'nodeid': 'u64', 'generation': 'u64', 'entry_valid': 'u64', 'attr_valid': 'u64', 'entry_valid_nsec': 'u32', 'attr_valid_nsec': 'u32'}
    rows = []
    # split on commas outside parentheses
    parts = []; d = 0; cur = ''
    for ch in inner:
        if ch == '(': d += 1
        elif ch == ')': d -= 1
        if ch == ',' and d == 0: parts.append(cur); cur = ''
        else: cur += ch
    parts.append(cur)
    for part in parts:
        part = part.strip()
        if not part: continue
        fm = re.fullmatch(r'(\w+)\s*:\s*(.+)', part, flags=re.S)
        if not fm: raise TranslateError('cannot parse EntryOut field %r' % part)
        dst, rhs = fm.group(1), fm.group(2).strip()
        if dst == 'attr':
            am = re.fullmatch(r'(?:fuse::)?Attr::with_flags\(\s*' + var + r'\.attr\s*,\s*' + var + r'\.(\w+)\s*\)', rhs)
            if not am: raise TranslateError('unsupported EntryOut.attr expression %r' % rhs)
            for d_, s_, par, chain in attr_rows:
                if s_ is None: rows.append(['attr.' + d_, am.group(1), None, [ENTRY_SRC.get(am.group(1), 'u32'), attr_t[d_]]])
                else: rows.append(['attr.' + d_, 'attr.' + s_, None, chain])
            continue
        rm = re.fullmatch(var + r'\.(\w+)(?:\.(as_secs|subsec_nanos)\(\))?((?:\s+as\s+\w+)*)', rhs)
        if not rm: raise TranslateError('unsupported EntryOut rhs %r' % rhs)
        srcf = rm.group(1) + ({'as_secs': '.secs', 'subsec_nanos': '.nsec'}.get(rm.group(2), '') if rm.group(2) else '')
        if srcf not in ENTRY_SRC: raise TranslateError('unknown Entry source %r' % srcf)
        if dst not in dst_t: raise TranslateError('unknown EntryOut field %r' % dst)
        casts = [norm_ty(c) for c in re.findall(r'as\s+(\w+)', rm.group(3))]
        rows.append([dst, srcf, None, [ENTRY_SRC[srcf]] + casts + [dst_t[dst]]])
    return rows

def list_from_impls(*srcs):
    """every `impl From<A> for B` of the ABI files: the check requires each to be a conversion it probes"""
    out = []
    for s in srcs:
        out += ['%s->%s' % (a.replace('fuse::', '').replace('&', ''), b.replace('fuse::', ''))
                for a, b in re.findall(r'impl\s+(?:<[^>]*>\s*)?From<\s*([^>]+?)\s*>\s+for\s+([\w:]+)', s)]
    return sorted(out)

def translate(repo='/repo', lenient_conv=False, lenient_names=False):
    """lenient_conv: keep going when a conversion body / the opcode table cannot be read (the rest is translated strictly).
    lenient_names: additionally keep going on struct fields, constant / flag / discriminant expressions the reader does
    not understand: such an item is kept by NAME with value None ({'opaque': ..} type) so that the rustc probe can still
    report what the compiler makes of it.  Only props/c13.py asks for this, and only after the strict run failed."""
    p1 = os.path.join(repo, 'src/abi/fuse_abi_linux.rs')
    p2 = os.path.join(repo, 'src/abi/virtio_fs.rs')
    p3 = os.path.join(repo, 'src/api/filesystem/mod.rs')
    s1 = cut_tests(strip_comments(open(p1).read()))
    s2 = cut_tests(strip_comments(open(p2).read()))
    s3 = cut_tests(strip_comments(open(p3).read()))
    ln = lenient_names
    if ln: lenient_conv = True
    consts, env = parse_consts(s1, lenient=ln)
    structs = parse_structs(s1, env, lenient=ln) + parse_structs(s2, env, lenient=ln)
    bitflags = parse_bitflags(s1, env, lenient=ln) + parse_bitflags(s2, {}, lenient=ln)
    enums = parse_enums(s1, env, lenient=ln)
    opcode_error = None
    try:
        arms, default = parse_opcode_from(s1)
    except TranslateError as ex:
        # lenient mode: keep everything else so that the probe of the real Opcode::from (thousands of values against
        # the kernel's opcode table) can still run and name a concrete failing opcode number
        if not lenient_conv: raise
        arms, default, opcode_error = [], None, str(ex)
    conv = {}; conv_errors = {}
    try:
        attr_t = struct_field_types(structs, 'Attr')
        kst_t = struct_field_types(structs, 'Kstatfs')
        set_t = struct_field_types(structs, 'SetattrIn')
    except TranslateError as ex:
        if not ln: raise
        attr_t = kst_t = set_t = None; conv_errors['types'] = str(ex)
    H1 = r'pub\s+fn\s+with_flags\s*\('; H2 = r'impl\s+From<Attr>\s+for\s+stat64\s*\{\s*fn\s+from'
    H3 = r'impl\s+From<statvfs64>\s+for\s+Kstatfs\s*\{\s*fn\s+from'; H4 = r'impl\s+From<SetattrIn>\s+for\s+stat64\s*\{\s*fn\s+from'
    conv_specs = [
        ('attr_of_stat', lambda: parse_conv_literal(fn_body(s1, H1), 'Attr', fn_vars(s1, H1)[0], attr_t, STAT64)),
        ('stat_of_attr', lambda: parse_conv_assign(fn_body(s1, H2), fn_vars(s1, H2)[1] or 'out', fn_vars(s1, H2)[0], STAT64, attr_t)),
        ('kstatfs_of_statvfs', lambda: parse_conv_literal(fn_body(s1, H3), 'Kstatfs', fn_vars(s1, H3)[0], kst_t, STATVFS64)),
        ('stat_of_setattr', lambda: parse_conv_assign(fn_body(s1, H4), fn_vars(s1, H4)[1] or 'out', fn_vars(s1, H4)[0], STAT64, set_t)),
        # the twins: From<stat64> for Attr (GETATTR/SETATTR replies) and From<Entry> for EntryOut (LOOKUP/CREATE/... replies)
        ('attr_from_stat', lambda: parse_attr_from_stat_typed(s1, conv['attr_of_stat'], attr_t)),
        ('entry_out', lambda: parse_entry_out(s3, conv['attr_of_stat'], attr_t)),
    ]
    for cname, thunk in conv_specs:
        if attr_t is None: break
        try: conv[cname] = thunk()
        except (TranslateError, KeyError) as ex:
            # lenient mode (used only to search for a concrete failing input after the strict translation failed):
            # everything else is still translated so that the probes on the real conversions can run
            if not lenient_conv:
                if isinstance(ex, KeyError): raise TranslateError('conversion %s: depends on an untranslated conversion %s' % (cname, ex))
                raise
            conv_errors[cname] = str(ex)
    return {'structs': structs, 'consts': consts, 'bitflags': bitflags, 'enums': enums,
            'opcode_from': {'arms': arms, 'default': default, 'error': opcode_error}, 'conv': conv, 'conv_errors': conv_errors,
            'from_impls': list_from_impls(s1, s2, s3)}

def parse_attr_from_stat_typed(s1, attr_rows, attr_t):
    H = r'impl\s+From<stat64>\s+for\s+Attr\s*\{\s*fn\s+from'
    body = fn_body(s1, H); var = fn_vars(s1, H)[0]
    if re.fullmatch(r'\s*(?:Attr|Self)::with_flags\(\s*' + var + r'\s*,\s*0\s*\)\s*', body):
        return [r for r in attr_rows if r[1] is not None]
    if re.search(r'\b(?:Attr|Self)\s*\{', body) and 'with_flags' not in body and not re.search(r'\blet\s+mut\b', body):
        return parse_conv_literal(body, 'Attr', var, attr_t, STAT64)
    raise TranslateError('From<stat64> for Attr is neither exactly `Attr::with_flags(%s, 0)` nor a plain struct literal' % var)

# ---------------------------------------------------------------- Coq emission
def coq_str(s): return '"%s"' % s
def coq_ty(t):
    if 'int' in t: return '(TInt %d %s)' % (t['int'], 'true' if t['signed'] else 'false')
    if 'arr' in t: return '(TArr %s %d)' % (coq_ty(t['arr']), t['n'])
    return '(TNamed %s)' % coq_str(t['named'])
def coq_list(items, indent='  '):
    if not items: return '[]'
    return '[\n' + indent + (';\n' + indent).join(items) + ']'
def coq_ity(name):
    w, s = INT_TYPES[name]
    return '(%d, %s)' % (w, 'true' if s else 'false')

def emit_coq(t):
    L = []
    L.append('(* GENERATED by translator/rust_abi.py from /repo/src/abi/*.rs -- do not edit. *)')
    L.append('From Coq Require Import List String NArith Bool.')
    L.append('From FB Require Import Lib.Layout.')
    L.append('Import ListNotations.')
    L.append('Local Open Scope string_scope.')
    L.append('Local Open Scope N_scope.')
    L.append('')
    L.append('Definition rust_structs : env := ' + coq_list(
        ['(%s, %s)' % (coq_str(n), coq_list(['(%s, %s)' % (coq_str(f), coq_ty(ty)) for f, ty in fs], '     '))
         for n, fs in t['structs']]) + '.')
    L.append('')
    L.append('Definition rust_consts : list (string * N) := ' + coq_list(
        ['(%s, %d)' % (coq_str(n), v) for n, ty, v, _pub in t['consts']]) + '.')
    L.append('')
    L.append('Definition rust_bitflags : list (string * list (string * N)) := ' + coq_list(
        ['(%s, %s)' % (coq_str(n), coq_list(['(%s, %d)' % (coq_str(m), v) for m, v in ms], '     '))
         for n, ty, ms in t['bitflags']]) + '.')
    L.append('')
    L.append('Definition rust_enums : list (string * list (string * N)) := ' + coq_list(
        ['(%s, %s)' % (coq_str(n), coq_list(['(%s, %d)' % (coq_str(m), v) for m, v in vs], '     '))
         for n, vs in t['enums']]) + '.')
    L.append('')
    L.append('Definition rust_opcode_from_arms : list (N * string) := ' + coq_list(
        ['(%d, %s)' % (v, coq_str(tgt)) for v, tgt in t['opcode_from']['arms']]) + '.')
    L.append('Definition rust_opcode_from_default : string := %s.' % coq_str(t['opcode_from']['default']))
    L.append('')
    L.append('(* conversion rows: (destination field, source field (None = a parameter), cast chain as (bytes, signed)) *)')
    for name, rows in t['conv'].items():
        items = []
        for dst, src, param, chain in rows:
            if src is None:
                items.append('(%s, None, [])' % coq_str(dst))
            else:
                items.append('(%s, Some %s, [%s])' % (coq_str(dst), coq_str(src), '; '.join(coq_ity(c) for c in chain)))
        L.append('Definition rust_conv_%s : list (string * option string * list (N * bool)) := %s.' % (name, coq_list(items)))
        L.append('')
    return '\n'.join(L) + '\n'

def write_if_changed(path, content):
    try:
        if open(path).read() == content: return False
    except FileNotFoundError:
        pass
    os.makedirs(os.path.dirname(path), exist_ok=True)
    tmp = path + '.tmp'
    open(tmp, 'w').write(content); os.replace(tmp, path)
    return True

if __name__ == '__main__':
    repo = sys.argv[1] if len(sys.argv) > 1 else '/repo'
    t = translate(repo)
    here = os.path.dirname(os.path.abspath(__file__))
    write_if_changed(os.path.join(here, '../coq/Gen/RustABI.v'), emit_coq(t))
    json.dump(t, sys.stdout, indent=1)
