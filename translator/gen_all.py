"""Regenerate every translated Coq file (coq/Gen/*.v, coq/Spec/KernelABI.v) and generated harness sources."""
import os, sys
HERE = os.path.dirname(os.path.abspath(__file__))
sys.path.insert(0, HERE); sys.path.insert(0, os.path.join(HERE, '../lib')); sys.path.insert(0, os.path.join(HERE, '../props'))
from vlib import REPO, COQ, HARNESS, write_if_changed
import rust_abi, kernel_spec

def generate_all():
    errs = []
    try:
        t = rust_abi.translate(REPO)
        write_if_changed(os.path.join(COQ, 'Gen/RustABI.v'), rust_abi.emit_coq(t))
        import c13
        write_if_changed(os.path.join(HARNESS, 'src/gen/abi_probe_gen.rs'), c13.gen_probe(t))
    except rust_abi.TranslateError as ex:
        errs.append('rust_abi: %s' % ex)
    write_if_changed(os.path.join(COQ, 'Spec/KernelABI.v'), kernel_spec.emit())
    try:
        import server_dispatch
        write_if_changed(os.path.join(COQ, 'Gen/RustDispatch.v'), server_dispatch.emit_coq(server_dispatch.translate(REPO)))
    except rust_abi.TranslateError as ex:
        errs.append('server_dispatch: %s' % ex)
    try:
        import server_handlers              # handler bodies -> Gen/RustHandlers.v (C02)
        write_if_changed(os.path.join(COQ, 'Gen/RustHandlers.v'), server_handlers.emit_coq(server_handlers.translate(REPO)))
    except (rust_abi.TranslateError, Exception) as ex:
        errs.append('server_handlers: %s' % ex)
    try:
        import server_async_dispatch
        write_if_changed(os.path.join(COQ, 'Gen/RustAsyncDispatch.v'), server_async_dispatch.emit_coq(server_async_dispatch.translate(REPO)))
    except rust_abi.TranslateError as ex:
        errs.append('server_async_dispatch: %s' % ex)
    try:
        import bytes_delegation
        bytes_delegation.generate(REPO)
    except Exception as ex:
        errs.append('bytes_delegation: %s' % ex)
    try:
        import validators
        write_if_changed(os.path.join(COQ, 'Gen/Validators.v'), validators.emit_coq(validators.translate(REPO)))
    except Exception as ex:
        errs.append('validators: %s' % ex)
    try:
        import vfs_src                      # props/vfs_src.py -> Gen/VfsTable.v (C07, C14, C19)
        vfs_src.generate(REPO, COQ, write_if_changed)
    except Exception as ex:
        errs.append('vfs_src: %s' % ex)
    try:
        import async_transport
        async_transport.generate(REPO)
    except Exception as ex:
        errs.append('async_transport: %s' % ex)
    try:
        import rust_pure                    # function bodies of small pure functions -> Gen/RustPure.v (Cxx_src_* theorems)
        for e in rust_pure.generate(REPO, COQ, write_if_changed): errs.append('rust_pure: %s' % e)
    except Exception as ex:
        errs.append('rust_pure: %s' % ex)
    return errs

if __name__ == '__main__':
    for e in generate_all(): print(e)
