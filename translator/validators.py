#!/usr/bin/env python3
"""Translator for C06: which FileSystem methods validate which name argument, and where.

Reads (line/brace level, fixed Rust subset), from the working tree given as `repo`:
  * src/api/vfs/mod.rs: the constants CURRENT_DIR_CSTR, PARENT_DIR_CSTR, SLASH_ASCII and the bodies of
    `is_dot_or_dotdot`, `is_safe_path_component`, `validate_path_component` (compared, after
    whitespace/comment normalisation, with the shapes the Coq model Model/Names.v transcribes);
  * src/passthrough/mod.rs: the wrapper `PassthroughFs::validate_path_component` (guard on
    `cfg.do_import`) and the root ".." rewrite + open flags of `do_lookup`/`open_file_restricted`/
    `open_file_and_handle`; src/passthrough/util.rs: `is_safe_inode`, `reopen_fd_through_proc`;
    src/passthrough/sync_io.rs: `open_inode`;
  * `impl FileSystem for Vfs` (src/api/vfs/sync_io.rs) and `impl FileSystem for PassthroughFs`
    (src/passthrough/sync_io.rs): for every method, its `&CStr` parameters, and for each top-level
    statement of the body whether it is a name validation (`validate_path_component(x)?;` /
    `self.validate_path_component(x)?;`), the lookup slash check
    (`if x.to_bytes_with_nul().contains(&SLASH_ASCII) { return Err(..EINVAL..); }`) or anything
    else.  Position of the first "anything else" statement = first statement that can touch a backend
    or issue a system call (conservative: every statement that is not a validation counts).
Anything it cannot parse raises TranslateError (reported as a broken tie, never ignored).
Output: python dict and coq/Gen/Validators.v.
"""
import re, os, sys, json

class TranslateError(Exception):
    pass

def strip_comments(s):
    """remove // and /* */ comments, keep string literals intact enough for brace matching
    (string/char literals are blanked so that braces/semicolons inside them do not count)"""
    out = []; i = 0; n = len(s)
    while i < n:
        c = s[i]
        if s.startswith('//', i):
            j = s.find('\n', i); j = n if j < 0 else j
            i = j; continue
        if s.startswith('/*', i):
            j = s.find('*/', i + 2)
            if j < 0: raise TranslateError('unterminated comment')
            i = j + 2; continue
        if c == '"' or (c == 'b' and i + 1 < n and s[i + 1] == '"'):
            k = i + (2 if c == 'b' else 1); lit = s[i:k]
            while k < n and s[k] != '"':
                if s[k] == '\\': lit += s[k:k + 2]; k += 2
                else: lit += s[k]; k += 1
            if k >= n: raise TranslateError('unterminated string literal')
            lit += '"'
            # keep the literal text but neutralise braces / semicolons
            out.append(lit.replace('{', '\x01').replace('}', '\x02').replace(';', '\x03'))
            i = k + 1; continue
        if c == "'" and i + 2 < n and (s[i + 2] == "'" or (s[i + 1] == '\\' and i + 3 < n and s[i + 3] == "'")):
            k = i + (4 if s[i + 1] == '\\' else 3)
            out.append(s[i:k].replace('{', '\x01').replace('}', '\x02').replace(';', '\x03'))
            i = k; continue
        out.append(c); i += 1
    return ''.join(out)

def restore(s):
    return s.replace('\x01', '{').replace('\x02', '}').replace('\x03', ';')

def match_close(s, i, op='{', cl='}'):
    assert s[i] == op
    d = 0
    for j in range(i, len(s)):
        if s[j] == op: d += 1
        elif s[j] == cl:
            d -= 1
            if d == 0: return j + 1
    raise TranslateError('unbalanced %s%s' % (op, cl))

def cut_tests(s):
    m = re.search(r'#\[cfg\(test\)\]\s*(pub\s+)?mod\s+\w+\s*\{', s)
    return s[:m.start()] if m else s

def norm(s):
    return re.sub(r'\s+', ' ', restore(s)).strip()

def read(repo, rel):
    p = os.path.join(repo, rel)
    if not os.path.exists(p): raise TranslateError('missing source file %s' % rel)
    return cut_tests(strip_comments(open(p).read()))

def find_fn(src, name, what):
    """-> (params_text, ret_text, body_text_without_outer_braces) of `fn name`"""
    ms = list(re.finditer(r'\bfn\s+%s\s*(<[^>]*>)?\s*\(' % re.escape(name), src))
    if len(ms) != 1:
        raise TranslateError('%s: expected exactly one `fn %s`, found %d' % (what, name, len(ms)))
    m = ms[0]
    pe = match_close(src, m.end() - 1, '(', ')')
    params = src[m.end():pe - 1]
    b = src.find('{', pe)
    semi = src.find(';', pe)
    if b < 0 or (0 <= semi < b): raise TranslateError('%s: fn %s has no body' % (what, name))
    ret = src[pe:b]
    be = match_close(src, b)
    return params, ret, src[b + 1:be - 1]

def split_params(p):
    out = []; d = 0; cur = ''
    for ch in p:
        if ch in '(<[': d += 1
        elif ch in ')>]': d -= 1
        if ch == ',' and d == 0: out.append(cur); cur = ''
        else: cur += ch
    if cur.strip(): out.append(cur)
    return [x.strip() for x in out if x.strip()]

def split_statements(body):
    """top-level statements of a fn body: split at `;` on depth 0 and after a `}` on depth 0 that is
    followed by something that starts a new statement (block-like expression statements)."""
    stmts = []; d = 0; cur = ''; i = 0; n = len(body)
    while i < n:
        ch = body[i]
        if ch in '({[': d += 1
        elif ch in ')}]': d -= 1
        cur += ch
        if d == 0 and ch == ';':
            stmts.append(cur.strip()); cur = ''
        elif d == 0 and ch == '}':
            rest = body[i + 1:].lstrip()
            # a block-like statement (if/match/loop/while/for/unsafe/plain block) ends here unless it is
            # continued by `else`, a method call, `?`, an operator or is the tail expression's end
            head = cur.lstrip()
            blocklike = re.match(r'(#\[[^\]]*\]\s*)*(if|match|loop|while|for|unsafe|\{)\b|^\{', head) is not None
            if blocklike and not re.match(r'(else\b|\.|\?|;|\)|,|=>|[-+*/&|^<>=]|as\b)', rest) and rest != '':
                stmts.append(cur.strip()); cur = ''
        i += 1
    if cur.strip(): stmts.append(cur.strip())
    return stmts

# ---- tolerant statement classifier (structure, not text): a top-level statement of a method body is
#   * a VALIDATION of parameter x when it calls [self.]validate_path_component(x) (possibly through one private helper of the
#     same file whose body does that to its parameter) and leaves the method on failure (`?`, `return Err`, or an if/else /
#     match whose failing branch yields the error), and calls nothing else on self / libc;
#   * a SLASH check of x when it is an `if` (either polarity, early return or if/else around the rest of the body) whose
#     condition only tests x.to_bytes[_with_nul]().contains(&SLASH_ASCII | &b'/');
#   * INERT when it is a `let` that merely renames a parameter / takes its bytes (aliases are followed);
#   * anything else is the first possible effect.
CALL_VALIDATE = re.compile(r'(self\s*\.\s*)?\bvalidate_path_component\s*\(\s*&?\s*(\w+)\s*\)')
SLASH_TEST = re.compile(r'!?\s*(\w+)\s*\.\s*to_bytes(_with_nul)?\s*\(\s*\)\s*\.\s*(contains\s*\(\s*&\s*(SLASH_ASCII|b\'/\'|47(u8)?)\s*\)|iter\s*\(\s*\)\s*\.\s*any\s*\([^)]*(SLASH_ASCII|b\'/\')[^)]*\))')
ALIAS_LET = re.compile(r'^let\s+(mut\s+)?(\w+)\s*(:\s*[^=]+)?=\s*&?\s*(\w+)\s*(\.\s*to_bytes(_with_nul)?\s*\(\s*\))?\s*;$')
OTHER_CALLS = re.compile(r'\bself\s*\.\s*(?!validate_path_component\b)\w+\s*\(|\blibc\s*::|\bunsafe\b|\bfs\s*\.\s*\w+\s*\(|Self\s*::')

def leaves_on_failure(s):
    return '?' in s or re.search(r'\breturn\b', s) is not None or re.search(r'\bErr\s*\(', s) is not None

def classify(stmt, helpers=None, aliases=None):
    s = norm(stmt); aliases = aliases or {}
    m = ALIAS_LET.match(s)
    if m and (m.group(4) in aliases or m.group(4) in (helpers or {}).get('__params__', ())):
        return ('alias', (m.group(2), aliases.get(m.group(4), m.group(4))))
    m = CALL_VALIDATE.search(s)
    if m and leaves_on_failure(s) and not OTHER_CALLS.search(s):
        return ('validate_self' if m.group(1) else 'validate', aliases.get(m.group(2), m.group(2)))
    # one level of helper extraction: self.helper(x)? where the private helper validates its parameter
    hm = re.match(r'^(let\s+\w+\s*=\s*)?self\s*\.\s*(\w+)\s*\(\s*&?\s*(\w+)\s*\)\s*\?\s*;$', s)
    if hm and helpers and hm.group(2) in helpers and helpers[hm.group(2)] is not None:
        return (helpers[hm.group(2)], aliases.get(hm.group(3), hm.group(3)))
    if s.startswith('if '):
        cond = s[3:s.index('{')] if '{' in s else ''
        m = SLASH_TEST.fullmatch(cond.strip())
        if m and re.search(r'EINVAL|einval', s): return ('slash', aliases.get(m.group(1), m.group(1)))
    return ('other', None)

def helper_table(src):
    """private helpers `fn h(&self, p: &CStr) -> ...` of the file whose body validates p: name -> kind"""
    out = {}
    for m in re.finditer(r'\bfn\s+(\w+)\s*\(\s*&\s*self\s*,\s*(\w+)\s*:\s*&\s*CStr\s*\)', src):
        name, par = m.group(1), m.group(2)
        if name == 'validate_path_component': continue
        b = src.find('{', m.end())
        if b < 0: continue
        body = src[b + 1:match_close(src, b) - 1]
        kinds = [classify(st) for st in split_statements(body)]
        ks = [k for k in kinds if k[0] in ('validate', 'validate_self', 'slash') and k[1] == par]
        out[name] = ks[0][0] if ks and all(k[0] != 'other' or i == len(kinds) - 1 for i, k in enumerate(kinds)) else None
    return out

def parse_impl(src, header_re, what, helpers=None):
    ms = list(re.finditer(header_re, src))
    if len(ms) != 1: raise TranslateError('%s: expected exactly one impl block, found %d' % (what, len(ms)))
    b = ms[0].end() - 1
    e = match_close(src, b)
    body = src[b + 1:e - 1]
    methods = []
    i = 0
    # walk items at depth 0 of the impl body
    d = 0; j = 0; n = len(body)
    while j < n:
        ch = body[j]
        if ch == '{':
            j = match_close(body, j); continue
        m = re.match(r'fn\s+(\w+)\s*(<[^>]*>)?\s*\(', body[j:]) if (ch == 'f' and (j == 0 or not (body[j - 1].isalnum() or body[j - 1] == '_'))) else None
        if m:
            name = m.group(1)
            ps = j + m.end() - 1
            pe = match_close(body, ps, '(', ')')
            params = split_params(body[ps + 1:pe - 1])
            bb = body.find('{', pe)
            semi = body.find(';', pe)
            if bb < 0 or (0 <= semi < bb): raise TranslateError('%s: method %s has no body' % (what, name))
            be = match_close(body, bb)
            fb = body[bb + 1:be - 1]
            # cfg attribute directly in front of the fn (feature-gated methods are still translated)
            names = []
            for p in params:
                pm = re.match(r'(mut\s+)?(\w+)\s*:\s*(.+)$', p, flags=re.S)
                if not pm:
                    if re.match(r'&\s*(mut\s+)?self$', p): continue
                    raise TranslateError('%s::%s: cannot parse parameter %r' % (what, name, p))
                if re.sub(r'\s+', '', pm.group(3)) == '&CStr': names.append(pm.group(2))
            stmts = split_statements(fb)
            hp = dict(helpers or {}); hp['__params__'] = tuple(names)
            cls = []; aliases = {}
            for st in stmts:
                c = classify(st, hp, aliases)
                if c[0] == 'alias': aliases[c[1][0]] = c[1][1]
                cls.append(c)
            first_other = next((k for k, c in enumerate(cls) if c[0] == 'other'), len(cls))
            vals = []
            for k, (kind, arg) in enumerate(cls):
                if kind in ('other', 'alias'): continue
                if arg not in names:
                    raise TranslateError('%s::%s: validation of %r which is not a &CStr parameter' % (what, name, arg))
                vals.append({'arg': arg, 'kind': kind, 'pos': k})
            # a validation call hidden inside a later statement (not at top level) is something we cannot
            # position: refuse rather than guess
            for k, s in enumerate(stmts):
                if cls[k][0] == 'other' and re.search(r'validate_path_component|SLASH_ASCII|is_safe_path_component', s):
                    raise TranslateError('%s::%s: name check nested inside statement %d, cannot position it' % (what, name, k))
            methods.append({'name': name, 'names': names, 'validations': vals, 'first_effect': first_other,
                            'n_stmts': len(stmts)})
            j = be; continue
        j += 1
    if not methods: raise TranslateError('%s: no methods found' % what)
    return methods

def const_bytes(src, name):
    m = re.search(r'\bconst\s+%s\s*:\s*&\s*\[\s*u8\s*\]\s*=\s*b"((?:[^"\\]|\\.)*)"\s*\x03' % name, src) or \
        re.search(r'\bconst\s+%s\s*:\s*&\s*\[\s*u8\s*\]\s*=\s*b"((?:[^"\\]|\\.)*)"\s*;' % name, src)
    if not m: raise TranslateError('cannot find byte-string constant %s' % name)
    lit = restore(m.group(1)); out = []; i = 0
    while i < len(lit):
        if lit[i] == '\\':
            e = lit[i + 1]
            if e == '0': out.append(0); i += 2
            elif e == 'n': out.append(10); i += 2
            elif e == 't': out.append(9); i += 2
            elif e == '\\': out.append(92); i += 2
            elif e == 'x': out.append(int(lit[i + 2:i + 4], 16)); i += 4
            else: raise TranslateError('unsupported escape in %s' % name)
        else: out.append(ord(lit[i])); i += 1
    return out

def const_int(src, name):
    m = re.search(r'\bconst\s+%s\s*:\s*\w+\s*=\s*([^;\x03]+)[;\x03]' % name, src)
    if not m: raise TranslateError('cannot find constant %s' % name)
    v = m.group(1).strip()
    cm = re.fullmatch(r"b'(.)'", v)
    if cm: return ord(cm.group(1))
    try: return int(re.sub(r'_?(u8|u32|i32)$', '', v), 0)
    except ValueError: raise TranslateError('cannot evaluate constant %s = %r' % (name, v))

def translate(repo):
    """constants of the name predicates + the validator tables of the two FileSystem impls.  No body-shape facts: what the
    helper bodies do is tied to the models behaviourally (deterministic blocks of the C05/C06 correspondence, see notes)."""
    t = {}
    vmod = read(repo, 'src/api/vfs/mod.rs')
    t['CURRENT_DIR_CSTR'] = const_bytes(vmod, 'CURRENT_DIR_CSTR')
    t['PARENT_DIR_CSTR'] = const_bytes(vmod, 'PARENT_DIR_CSTR')
    t['SLASH_ASCII'] = const_int(vmod, 'SLASH_ASCII')
    psync = read(repo, 'src/passthrough/sync_io.rs')
    pmod = read(repo, 'src/passthrough/mod.rs')
    vsync = read(repo, 'src/api/vfs/sync_io.rs')
    t['vfs'] = parse_impl(vsync, r'\bimpl\s+FileSystem\s+for\s+Vfs\s*\{', 'impl FileSystem for Vfs', helper_table(vsync + vmod))
    t['pt'] = parse_impl(psync, r'\bimpl\s*<[^>]*>\s*FileSystem\s+for\s+PassthroughFs\s*<\s*S\s*>\s*\{', 'impl FileSystem for PassthroughFs',
                         helper_table(psync + pmod))
    return t

def coq_str(s): return '"%s"' % s
def coq_bool(b): return 'true' if b else 'false'

def emit_coq(t):
    o = ['(* GENERATED by translator/validators.py from src/api/vfs/{mod,sync_io}.rs and src/passthrough/{mod,sync_io}.rs -- do not edit *)',
         'From Coq Require Import List String NArith Bool.', 'Import ListNotations.', 'Local Open Scope string_scope.', '']
    o.append('Definition current_dir_cstr : list N := [%s]%%N.' % '; '.join(map(str, t['CURRENT_DIR_CSTR'])))
    o.append('Definition parent_dir_cstr : list N := [%s]%%N.' % '; '.join(map(str, t['PARENT_DIR_CSTR'])))
    o.append('Definition slash_ascii : N := %d%%N.' % t['SLASH_ASCII'])
    o.append('')
    o.append('Inductive vkind := VFull | VFullIfStandalone | VSlash.')
    o.append('(* one validation: argument name, kind, statement position *)')
    o.append('Record validation := { v_arg : string; v_kind : vkind; v_pos : nat }.')
    o.append('(* one method: name, its &CStr parameters, validations, position of the first other statement *)')
    o.append('Record vmethod := { m_name : string; m_names : list string; m_vals : list validation; m_first_effect : nat }.')
    kindmap = {'validate': 'VFull', 'validate_self': 'VFullIfStandalone', 'slash': 'VSlash'}
    for key in ('vfs', 'pt'):
        o.append('Definition %s_methods : list vmethod := [' % key)
        rows = []
        for m in t[key]:
            vals = '; '.join('{| v_arg := %s; v_kind := %s; v_pos := %d |}' % (coq_str(v['arg']), kindmap[v['kind']], v['pos']) for v in m['validations'])
            rows.append('  {| m_name := %s; m_names := [%s]; m_vals := [%s]; m_first_effect := %d |}'
                        % (coq_str(m['name']), '; '.join(coq_str(x) for x in m['names']), vals, m['first_effect']))
        o.append(';\n'.join(rows))
        o.append('].')
    return '\n'.join(o) + '\n'

if __name__ == '__main__':
    repo = sys.argv[1] if len(sys.argv) > 1 else '/repo'
    t = translate(repo)
    print(json.dumps(t, indent=1))
