#!/usr/bin/env python3
"""Translator for C06: which FileSystem methods validate which name argument, and where.

Reads (line/brace level, fixed Rust subset), from the working tree given as `repo`:
  * src/api/vfs/mod.rs: the constants CURRENT_DIR_CSTR, PARENT_DIR_CSTR, SLASH_ASCII and the bodies of
    `is_dot_or_dotdot`, `is_safe_path_component`, `validate_path_component` (compared, after
    whitespace/comment normalisation, with the shapes the Coq model Model/Names.v transcribes);
  * src/passthrough/mod.rs: the wrapper `PassthroughFs::validate_path_component` (guard on
    `cfg.do_import`) and the root ".." rewrite + open flags of `do_lookup`/`open_file_restricted`/
    `open_file_and_handle`; src/passthrough/util.rs: `is_safe_inode`, `reopen_fd_through_proc`;
    src/passthrough/sync_io.rs: `open_inode`;
  * `impl FileSystem for Vfs` (src/api/vfs/sync_io.rs) and `impl FileSystem for PassthroughFs`
    (src/passthrough/sync_io.rs): for every method, its `&CStr` parameters, and for each top-level
    statement of the body whether it is a name validation (`validate_path_component(x)?;` /
    `self.validate_path_component(x)?;`), the lookup slash check
    (`if x.to_bytes_with_nul().contains(&SLASH_ASCII) { return Err(..EINVAL..); }`) or anything
    else.  Position of the first "anything else" statement = first statement that can touch a backend
    or issue a system call (conservative: every statement that is not a validation counts).
Anything it cannot parse raises TranslateError (reported as a broken tie, never ignored).
Output: python dict and coq/Gen/Validators.v.
"""
import re, os, sys, json

class TranslateError(Exception):
    pass

def strip_comments(s):
    """remove // and /* */ comments, keep string literals intact enough for brace matching
    (string/char literals are blanked so that braces/semicolons inside them do not count)"""
    out = []; i = 0; n = len(s)
    while i < n:
        c = s[i]
        if s.startswith('//', i):
            j = s.find('\n', i); j = n if j < 0 else j
            i = j; continue
        if s.startswith('/*', i):
            j = s.find('*/', i + 2)
            if j < 0: raise TranslateError('unterminated comment')
            i = j + 2; continue
        if c == '"' or (c == 'b' and i + 1 < n and s[i + 1] == '"'):
            k = i + (2 if c == 'b' else 1); lit = s[i:k]
            while k < n and s[k] != '"':
                if s[k] == '\\': lit += s[k:k + 2]; k += 2
                else: lit += s[k]; k += 1
            if k >= n: raise TranslateError('unterminated string literal')
            lit += '"'
            # keep the literal text but neutralise braces / semicolons
            out.append(lit.replace('{', '\x01').replace('}', '\x02').replace(';', '\x03'))
            i = k + 1; continue
        if c == "'" and i + 2 < n and (s[i + 2] == "'" or (s[i + 1] == '\\' and i + 3 < n and s[i + 3] == "'")):
            k = i + (4 if s[i + 1] == '\\' else 3)
            out.append(s[i:k].replace('{', '\x01').replace('}', '\x02').replace(';', '\x03'))
            i = k; continue
        out.append(c); i += 1
    return ''.join(out)

def restore(s):
    return s.replace('\x01', '{').replace('\x02', '}').replace('\x03', ';')

def match_close(s, i, op='{', cl='}'):
    assert s[i] == op
    d = 0
    for j in range(i, len(s)):
        if s[j] == op: d += 1
        elif s[j] == cl:
            d -= 1
            if d == 0: return j + 1
    raise TranslateError('unbalanced %s%s' % (op, cl))

def cut_tests(s):
    m = re.search(r'#\[cfg\(test\)\]\s*(pub\s+)?mod\s+\w+\s*\{', s)
    return s[:m.start()] if m else s

def norm(s):
    return re.sub(r'\s+', ' ', restore(s)).strip()

def read(repo, rel):
    p = os.path.join(repo, rel)
    if not os.path.exists(p): raise TranslateError('missing source file %s' % rel)
    return cut_tests(strip_comments(open(p).read()))

def find_fn(src, name, what):
    """-> (params_text, ret_text, body_text_without_outer_braces) of `fn name`"""
    ms = list(re.finditer(r'\bfn\s+%s\s*(<[^>]*>)?\s*\(' % re.escape(name), src))
    if len(ms) != 1:
        raise TranslateError('%s: expected exactly one `fn %s`, found %d' % (what, name, len(ms)))
    m = ms[0]
    pe = match_close(src, m.end() - 1, '(', ')')
    params = src[m.end():pe - 1]
    b = src.find('{', pe)
    semi = src.find(';', pe)
    if b < 0 or (0 <= semi < b): raise TranslateError('%s: fn %s has no body' % (what, name))
    ret = src[pe:b]
    be = match_close(src, b)
    return params, ret, src[b + 1:be - 1]

def split_params(p):
    out = []; d = 0; cur = ''
    for ch in p:
        if ch in '(<[': d += 1
        elif ch in ')>]': d -= 1
        if ch == ',' and d == 0: out.append(cur); cur = ''
        else: cur += ch
    if cur.strip(): out.append(cur)
    return [x.strip() for x in out if x.strip()]

def split_statements(body):
    """top-level statements of a fn body: split at `;` on depth 0 and after a `}` on depth 0 that is
    followed by something that starts a new statement (block-like expression statements)."""
    stmts = []; d = 0; cur = ''; i = 0; n = len(body)
    while i < n:
        ch = body[i]
        if ch in '({[': d += 1
        elif ch in ')}]': d -= 1
        cur += ch
        if d == 0 and ch == ';':
            stmts.append(cur.strip()); cur = ''
        elif d == 0 and ch == '}':
            rest = body[i + 1:].lstrip()
            # a block-like statement (if/match/loop/while/for/unsafe/plain block) ends here unless it is
            # continued by `else`, a method call, `?`, an operator or is the tail expression's end
            head = cur.lstrip()
            blocklike = re.match(r'(#\[[^\]]*\]\s*)*(if|match|loop|while|for|unsafe|\{)\b|^\{', head) is not None
            if blocklike and not re.match(r'(else\b|\.|\?|;|\)|,|=>|[-+*/&|^<>=]|as\b)', rest) and rest != '':
                stmts.append(cur.strip()); cur = ''
        i += 1
    if cur.strip(): stmts.append(cur.strip())
    return stmts

RE_VALIDATE = re.compile(r'^(self\s*\.\s*)?validate_path_component\s*\(\s*(\w+)\s*\)\s*\?\s*;$')
RE_SLASH = re.compile(r'^if\s+(\w+)\s*\.\s*to_bytes_with_nul\s*\(\s*\)\s*\.\s*contains\s*\(\s*&\s*SLASH_ASCII\s*\)\s*'
                      r'\{\s*return\s+Err\s*\(\s*(einval\s*\(\s*\)|(io\s*::\s*)?Error\s*::\s*from_raw_os_error\s*\(\s*libc\s*::\s*EINVAL\s*\))\s*\)\s*;\s*\}$')

def classify(stmt):
    s = norm(stmt)
    m = RE_VALIDATE.match(s)
    if m: return ('validate_self' if m.group(1) else 'validate', m.group(2))
    m = RE_SLASH.match(s)
    if m: return ('slash', m.group(1))
    return ('other', None)

def parse_impl(src, header_re, what):
    ms = list(re.finditer(header_re, src))
    if len(ms) != 1: raise TranslateError('%s: expected exactly one impl block, found %d' % (what, len(ms)))
    b = ms[0].end() - 1
    e = match_close(src, b)
    body = src[b + 1:e - 1]
    methods = []
    i = 0
    # walk items at depth 0 of the impl body
    d = 0; j = 0; n = len(body)
    while j < n:
        ch = body[j]
        if ch == '{':
            j = match_close(body, j); continue
        m = re.match(r'fn\s+(\w+)\s*(<[^>]*>)?\s*\(', body[j:]) if (ch == 'f' and (j == 0 or not (body[j - 1].isalnum() or body[j - 1] == '_'))) else None
        if m:
            name = m.group(1)
            ps = j + m.end() - 1
            pe = match_close(body, ps, '(', ')')
            params = split_params(body[ps + 1:pe - 1])
            bb = body.find('{', pe)
            semi = body.find(';', pe)
            if bb < 0 or (0 <= semi < bb): raise TranslateError('%s: method %s has no body' % (what, name))
            be = match_close(body, bb)
            fb = body[bb + 1:be - 1]
            # cfg attribute directly in front of the fn (feature-gated methods are still translated)
            names = []
            for p in params:
                pm = re.match(r'(mut\s+)?(\w+)\s*:\s*(.+)$', p, flags=re.S)
                if not pm:
                    if re.match(r'&\s*(mut\s+)?self$', p): continue
                    raise TranslateError('%s::%s: cannot parse parameter %r' % (what, name, p))
                if re.sub(r'\s+', '', pm.group(3)) == '&CStr': names.append(pm.group(2))
            stmts = split_statements(fb)
            cls = [classify(s) for s in stmts]
            first_other = next((k for k, c in enumerate(cls) if c[0] == 'other'), len(cls))
            vals = []
            for k, (kind, arg) in enumerate(cls):
                if kind == 'other': continue
                if arg not in names:
                    raise TranslateError('%s::%s: validation of %r which is not a &CStr parameter' % (what, name, arg))
                vals.append({'arg': arg, 'kind': kind, 'pos': k})
            # a validation call hidden inside a later statement (not at top level) is something we cannot
            # position: refuse rather than guess
            for k, s in enumerate(stmts):
                if cls[k][0] == 'other' and re.search(r'validate_path_component|SLASH_ASCII|is_safe_path_component', s):
                    raise TranslateError('%s::%s: name check nested inside statement %d, cannot position it' % (what, name, k))
            methods.append({'name': name, 'names': names, 'validations': vals, 'first_effect': first_other,
                            'n_stmts': len(stmts)})
            j = be; continue
        j += 1
    if not methods: raise TranslateError('%s: no methods found' % what)
    return methods

def const_bytes(src, name):
    m = re.search(r'\bconst\s+%s\s*:\s*&\s*\[\s*u8\s*\]\s*=\s*b"((?:[^"\\]|\\.)*)"\s*\x03' % name, src) or \
        re.search(r'\bconst\s+%s\s*:\s*&\s*\[\s*u8\s*\]\s*=\s*b"((?:[^"\\]|\\.)*)"\s*;' % name, src)
    if not m: raise TranslateError('cannot find byte-string constant %s' % name)
    lit = restore(m.group(1)); out = []; i = 0
    while i < len(lit):
        if lit[i] == '\\':
            e = lit[i + 1]
            if e == '0': out.append(0); i += 2
            elif e == 'n': out.append(10); i += 2
            elif e == 't': out.append(9); i += 2
            elif e == '\\': out.append(92); i += 2
            elif e == 'x': out.append(int(lit[i + 2:i + 4], 16)); i += 4
            else: raise TranslateError('unsupported escape in %s' % name)
        else: out.append(ord(lit[i])); i += 1
    return out

def const_int(src, name):
    m = re.search(r'\bconst\s+%s\s*:\s*\w+\s*=\s*([^;\x03]+)[;\x03]' % name, src)
    if not m: raise TranslateError('cannot find constant %s' % name)
    v = m.group(1).strip()
    cm = re.fullmatch(r"b'(.)'", v)
    if cm: return ord(cm.group(1))
    try: return int(re.sub(r'_?(u8|u32|i32)$', '', v), 0)
    except ValueError: raise TranslateError('cannot evaluate constant %s = %r' % (name, v))

# expected (normalised) bodies; the Coq models in Model/Names.v and Model/Passthrough.v transcribe exactly these
EXPECT = {
 'is_dot_or_dotdot': 'let bytes = name.to_bytes_with_nul(); bytes.starts_with(CURRENT_DIR_CSTR) || bytes.starts_with(PARENT_DIR_CSTR)',
 'is_safe_path_component': 'let bytes = name.to_bytes_with_nul(); if bytes.contains(&SLASH_ASCII) { return false; } !is_dot_or_dotdot(name)',
 'validate_path_component': 'match is_safe_path_component(name) { true => Ok(()), false => Err(io::Error::from_raw_os_error(libc::EINVAL)), }',
 'pt_validate_path_component': 'if !self.cfg.do_import { return Ok(()); } validate_path_component(name)',
 'is_safe_inode': 'matches!(mode & libc::S_IFMT, libc::S_IFREG | libc::S_IFDIR)',
 'open_file_restricted': 'let flags = libc::O_NOFOLLOW | libc::O_CLOEXEC | flags; openat(dir, pathname, flags, mode)',
 'create_file_excl': 'match openat(dir, pathname, flags | libc::O_CREAT | libc::O_EXCL, mode) { Ok(file) => Ok(Some(file)), Err(err) => { if err.kind() == io::ErrorKind::AlreadyExists { if (flags & libc::O_EXCL) != 0 { return Err(err); } return Ok(None); } Err(err) } }',
 'reopen_fd_through_proc': 'let name = CString::new(format!("{}", fd.as_raw_fd()).as_str())?; openat( proc_self_fd, &name, flags & !libc::O_NOFOLLOW & !libc::O_CREAT, 0, )',
}

def translate(repo):
    t = {}
    vmod = read(repo, 'src/api/vfs/mod.rs')
    t['CURRENT_DIR_CSTR'] = const_bytes(vmod, 'CURRENT_DIR_CSTR')
    t['PARENT_DIR_CSTR'] = const_bytes(vmod, 'PARENT_DIR_CSTR')
    t['SLASH_ASCII'] = const_int(vmod, 'SLASH_ASCII')
    shapes = {}
    def shape(key, src, fn, what):
        p, r, b = find_fn(src, fn, what)
        got = norm(b)
        shapes[key] = (got == EXPECT[key])
        if got != EXPECT[key]:
            t.setdefault('shape_diffs', []).append({'fn': key, 'expected': EXPECT[key], 'found': got})
    for fn in ('is_dot_or_dotdot', 'is_safe_path_component', 'validate_path_component'):
        shape(fn, vmod, fn, 'src/api/vfs/mod.rs')
    pmod = read(repo, 'src/passthrough/mod.rs')
    shape('pt_validate_path_component', pmod, 'validate_path_component', 'src/passthrough/mod.rs')
    shape('open_file_restricted', pmod, 'open_file_restricted', 'src/passthrough/mod.rs')
    shape('create_file_excl', pmod, 'create_file_excl', 'src/passthrough/mod.rs')
    putil = read(repo, 'src/passthrough/util.rs')
    shape('is_safe_inode', putil, 'is_safe_inode', 'src/passthrough/util.rs')
    shape('reopen_fd_through_proc', putil, 'reopen_fd_through_proc', 'src/passthrough/util.rs')
    # do_lookup: the ".." rewrite and that the path fd comes from open_file_and_handle -> open_file_restricted(O_PATH)
    p, r, b = find_fn(pmod, 'do_lookup', 'src/passthrough/mod.rs')
    nb = norm(b)
    t['lookup_dotdot_rewrite'] = bool(re.match(
        r'let name = if parent == fuse::ROOT_ID && name\.to_bytes_with_nul\(\)\.starts_with\(PARENT_DIR_CSTR\) \{ '
        r'CStr::from_bytes_with_nul\(CURRENT_DIR_CSTR\)\.unwrap\(\) \} else \{ name \};', nb))
    t['lookup_uses_open_file_and_handle'] = 'Self::open_file_and_handle(self, &dir_file, name)?' in nb and \
        len(re.findall(r'open_file_and_handle|openat\s*\(|open_file\s*\(|libc::open', nb)) == 1
    p, r, b = find_fn(pmod, 'open_file_and_handle', 'src/passthrough/mod.rs')
    nb = norm(b)
    t['path_fd_flags_o_path'] = nb.startswith('let path_file = self.open_file_restricted(dir, name, libc::O_PATH, 0)?;')
    psync = read(repo, 'src/passthrough/sync_io.rs')
    p, r, b = find_fn(psync, 'open_inode', 'src/passthrough/sync_io.rs')
    nb = norm(b)
    t['open_inode_gate'] = bool(re.match(r'let data = self\.inode_map\.get\(inode\)\?; if !is_safe_inode\(data\.mode\) \{ Err\(ebadf\(\)\) \} else \{', nb))
    # C05: the parent's descriptor is obtained (data.get_file() / dir.get_file()) before set_creds() in the four
    # creating methods (with inode_file_handles it is open_by_handle_at, which the caller's credentials may not do)
    order = {}
    for fn in ('mkdir', 'mknod', 'symlink', 'create'):
        ms = [m for m in re.finditer(r'\bfn\s+%s\s*\(' % fn, psync)]
        if len(ms) != 1: raise TranslateError('src/passthrough/sync_io.rs: expected one fn %s' % fn)
        b0 = psync.find('{', match_close(psync, ms[0].end() - 1, '(', ')'))
        body = norm(psync[b0:match_close(psync, b0)])
        g = body.find('.get_file()'); c = body.find('set_creds(')
        if g < 0 or c < 0: raise TranslateError('fn %s: get_file()/set_creds() not found' % fn)
        order[fn] = g < c
    t['descriptor_before_set_creds'] = order
    # C05: create() reopens an existing file with the request's flags, unmodified (open_inode applies the
    # documented writeback adjustment itself), and creates with get_writeback_open_flags(args.flags)
    ms = [m for m in re.finditer(r'\bfn\s+create\s*\(', psync)]
    b0 = psync.find('{', match_close(psync, ms[0].end() - 1, '(', ')'))
    cbody = norm(psync[b0:match_close(psync, b0)])
    t['create_flag_use'] = (len(re.findall(r'self\.open_inode\(entry\.inode, args\.flags as i32\)', cbody)) == 1
                            and len(re.findall(r'open_inode\(', cbody)) == 1
                            and 'let flags = self.get_writeback_open_flags(args.flags as i32); Self::create_file_excl(&dir_file, name, flags, args.mode & !(args.umask & 0o777))?' in cbody)
    t['shapes'] = shapes
    vsync = read(repo, 'src/api/vfs/sync_io.rs')
    t['vfs'] = parse_impl(vsync, r'\bimpl\s+FileSystem\s+for\s+Vfs\s*\{', 'impl FileSystem for Vfs')
    t['pt'] = parse_impl(psync, r'\bimpl\s*<[^>]*>\s*FileSystem\s+for\s+PassthroughFs\s*<\s*S\s*>\s*\{', 'impl FileSystem for PassthroughFs')
    return t

def coq_str(s): return '"%s"' % s
def coq_bool(b): return 'true' if b else 'false'

def emit_coq(t):
    o = ['(* GENERATED by translator/validators.py from src/api/vfs/{mod,sync_io}.rs and src/passthrough/{mod,sync_io,util}.rs -- do not edit *)',
         'From Coq Require Import List String NArith Bool.', 'Import ListNotations.', 'Local Open Scope string_scope.', '']
    o.append('Definition current_dir_cstr : list N := [%s]%%N.' % '; '.join(map(str, t['CURRENT_DIR_CSTR'])))
    o.append('Definition parent_dir_cstr : list N := [%s]%%N.' % '; '.join(map(str, t['PARENT_DIR_CSTR'])))
    o.append('Definition slash_ascii : N := %d%%N.' % t['SLASH_ASCII'])
    o.append('')
    o.append('(* does the body of each helper have the shape the hand model transcribes? *)')
    for k in sorted(EXPECT):
        o.append('Definition shape_%s : bool := %s.' % (k, coq_bool(t['shapes'].get(k, False))))
    for k in ('lookup_dotdot_rewrite', 'lookup_uses_open_file_and_handle', 'path_fd_flags_o_path', 'open_inode_gate'):
        o.append('Definition shape_%s : bool := %s.' % (k, coq_bool(t[k])))
    o.append('(* is the parent descriptor obtained before set_creds() in mkdir/mknod/symlink/create? *)')
    o.append('Definition shape_descriptor_before_set_creds : bool := %s.' % coq_bool(all(t['descriptor_before_set_creds'].values())))
    o.append('(* does create() pass the request flags unmodified to open_inode / the writeback-adjusted ones to create_file_excl? *)')
    o.append('Definition shape_create_flag_use : bool := %s.' % coq_bool(t['create_flag_use']))
    o.append('')
    o.append('Inductive vkind := VFull | VFullIfStandalone | VSlash.')
    o.append('(* one validation: argument name, kind, statement position *)')
    o.append('Record validation := { v_arg : string; v_kind : vkind; v_pos : nat }.')
    o.append('(* one method: name, its &CStr parameters, validations, position of the first other statement *)')
    o.append('Record vmethod := { m_name : string; m_names : list string; m_vals : list validation; m_first_effect : nat }.')
    kindmap = {'validate': 'VFull', 'validate_self': 'VFullIfStandalone', 'slash': 'VSlash'}
    for key in ('vfs', 'pt'):
        o.append('Definition %s_methods : list vmethod := [' % key)
        rows = []
        for m in t[key]:
            vals = '; '.join('{| v_arg := %s; v_kind := %s; v_pos := %d |}' % (coq_str(v['arg']), kindmap[v['kind']], v['pos']) for v in m['validations'])
            rows.append('  {| m_name := %s; m_names := [%s]; m_vals := [%s]; m_first_effect := %d |}'
                        % (coq_str(m['name']), '; '.join(coq_str(x) for x in m['names']), vals, m['first_effect']))
        o.append(';\n'.join(rows))
        o.append('].')
    return '\n'.join(o) + '\n'

if __name__ == '__main__':
    repo = sys.argv[1] if len(sys.argv) > 1 else '/repo'
    t = translate(repo)
    print(json.dumps(t, indent=1))
