#!/usr/bin/env python3
"""Translator: src/api/server/async_io.rs (+ transport/fusedev/mod.rs) -> coq/Gen/RustAsyncDispatch.v

Reads: the arms of the `match in_header.opcode` in async_handle_message (opcode -> handler fn, and
whether the arm awaits an async handler), the default arm's errno, the shape of the gate in front
of the dispatch (does it test the reply capacity? does it exempt FORGET/BATCH_FORGET? which errno?),
whether async_write refuses large sizes before calling the filesystem, and whether
FuseDevWriter::async_commit has the `if !self.buffered` early return that commit() has."""
import re, os, sys
sys.path.insert(0, os.path.dirname(os.path.abspath(__file__)))
from rust_abi import strip_comments, match_brace, TranslateError, coq_str, coq_list, translate as abi_translate
from server_dispatch import fn_bodies, LIBC_ERRNO

def translate(repo='/repo'):
    src = strip_comments(open(os.path.join(repo, 'src/api/server/async_io.rs')).read())
    t = src.find('mod tests')
    if t > 0: src = src[:t]
    abi = abi_translate(repo, lenient_conv=True)     # only constants and enums are used here
    opnum = dict(abi['enums'][0][1])
    m = re.search(r'fn\s+async_handle_message\b', src)
    if not m: raise TranslateError('async_handle_message not found')
    body = src[src.index('{', src.index('Result<usize>', m.end())):]
    body = body[:match_brace(body, 0)]
    mm = re.search(r'match\s+in_header\.opcode\s*\{', body)
    if not mm: raise TranslateError('async dispatch match not found')
    gate_src = body[:mm.start()]
    arms_src = body[mm.end() - 1:]
    arms_src = arms_src[:match_brace(arms_src, 0)]
    arms = []
    for am in re.finditer(r'x\s+if\s+x\s*==\s*Opcode::(\w+)\s+as\s+u32\s*=>\s*(\{[^{}]*self\s*\.\s*(\w+)\s*\([^;]*;[^{}]*\}|self\s*\.\s*(\w+)\s*\(([^,]*?)\)\s*(\.await)?\s*,)', arms_src):
        op = am.group(1); h = am.group(3) or am.group(4)
        if op not in opnum: raise TranslateError('unknown opcode %s in async dispatch' % op)
        is_async = h.startswith('async_')
        if is_async != bool(am.group(6)) and am.group(4):
            raise TranslateError('arm %s: handler %s and .await do not agree' % (op, h))
        arms.append([opnum[op], op, h, is_async])
    # arms whose call has extra arguments (init closure, vu_req) are not matched by the simple pattern above
    for am in re.finditer(r'x\s+if\s+x\s*==\s*Opcode::(\w+)\s+as\s+u32\s*=>\s*self\s*\.\s*(\w+)\s*\(\s*ctx\s*,', arms_src):
        op, h = am.group(1), am.group(2)
        if opnum[op] not in [a[0] for a in arms]: arms.append([opnum[op], op, h, h.startswith('async_')])
    if len(arms) < 40: raise TranslateError('only %d async dispatch arms parsed' % len(arms))
    dm = re.search(r'_\s*=>\s*\{?\s*ctx\s*\.\s*async_reply_error\(io::Error::from_raw_os_error\(libc::(\w+)\)\)', arms_src)
    if not dm: raise TranslateError('default async dispatch arm not found')
    bodies = fn_bodies(src)
    handler_names = set(a[2] for a in arms)
    def nostr(b): return re.sub(r'"(?:[^"\\]|\\.)*"', '""', b)
    def helpers_of(b, skip=()):
        """private functions of this file called from body b (one level): `self.f(`, `ctx.f(`, `Self::f(`, `ServerUtil::f(`"""
        out = []
        for g in re.findall(r'(?:\.|::)\s*(\w+)\s*\(', b):
            if g in bodies and g not in handler_names and g not in skip and g not in out: out.append(g)
        return out
    def expanded(name):
        """[(function name, body)]: the function and, one level deep, the private helpers it calls"""
        b = nostr(bodies.get(name, ''))
        if not b: raise TranslateError('body of %s not found' % name)
        return [(name, b)] + [(g, nostr(bodies[g])) for g in helpers_of(b, skip=(name,))]
    ERR_REPLY = r'async_(?:do_)?reply_error(?:_explicit)?\s*\(\s*(?:std::)?io::Error::from_raw_os_error\s*\(\s*libc::(\w+)'
    # gate: the `if` in front of the dispatch whose condition mentions MAX_BUFFER_SIZE (locals may be renamed / hoisted)
    gm = re.search(r'\bif\s+([^{};]*MAX_BUFFER_SIZE[^{]*)\{', gate_src)
    if not gm: raise TranslateError('async gate (an `if` on MAX_BUFFER_SIZE before the dispatch) not found')
    cond = ' '.join(gm.group(1).split())
    gb = gate_src[gm.end() - 1:]; gb = gb[:match_brace(gb, 0)]
    ge = re.search(ERR_REPLY, gb)
    if not ge: raise TranslateError('the async gate sends no error reply that can be read')
    gate = {'checks_capacity': 'available_bytes' in gate_src,
            'exempts_forget': ('Opcode::Forget' in gate_src and 'Opcode::BatchForget' in gate_src and bool(re.search(r'\breturn\s+Err\b', gb))),
            'errno': LIBC_ERRNO.get(ge.group(1), 0), 'cond': cond}
    # async_write: an `if` on MAX_BUFFER_SIZE whose block sends an error reply before the filesystem is called
    write_gate = 0
    for fn, b in expanded('async_write'):
        for wm in re.finditer(r'\bif\s+([^{};]*MAX_BUFFER_SIZE[^{]*)\{', b):
            blk = b[wm.end() - 1:]; blk = blk[:match_brace(blk, 0)]
            we = re.search(ERR_REPLY, blk)
            if we: write_gate = LIBC_ERRNO.get(we.group(1), 0)
    # which fs method each async handler awaits
    calls = []
    for n, op, h, a in arms:
        if a:
            ms = []
            for fn, b in expanded(h):
                for x in re.findall(r'\.\s*fs\s*\.\s*(\w+)\s*\(', b):
                    if x not in ms: ms.append(x)
            calls.append([n, h, ms])
    # handlers that decode a name (directly or through a private helper): in the function that calls bytes_to_cstr, is an
    # EINVAL error reply sent after that call (on its failure path), i.e. before the handler goes on to the filesystem?
    badname = {}
    for n, op, h, a in arms:
        if not a: continue
        for fn, b in expanded(h):
            k = b.find('bytes_to_cstr')
            if k < 0: continue
            rest = b[k:]
            fsm = re.search(r'\.\s*fs\s*\.', rest)
            if fsm: rest = rest[:fsm.start()]
            badname[n] = any(e == 'EINVAL' for e in re.findall(ERR_REPLY, rest))
            break
    if sorted(badname) != [1, 35]: raise TranslateError('async handlers that decode a name are %s, expected lookup (1) and create (35)' % sorted(badname))
    # fusedev async_commit
    fsrc = strip_comments(open(os.path.join(repo, 'src/transport/fusedev/mod.rs')).read())
    fb = fn_bodies(fsrc)
    def has_unbuffered_return(b): return bool(re.search(r'if\s*!\s*self\s*\.\s*buffered\s*\{\s*return\s+Ok\s*\(\s*0\s*\)', b))
    if 'commit' not in fb or 'async_commit' not in fb: raise TranslateError('commit/async_commit not found in fusedev/mod.rs')
    return {'dispatch': sorted(arms, key=lambda a: [x[0] for x in arms].index(a[0])), 'default_errno': LIBC_ERRNO[dm.group(1)],
            'gate': gate, 'write_gate_errno': write_gate, 'async_calls': calls, 'badname': badname,
            'commit_skips_unbuffered': has_unbuffered_return(fb['commit']),
            'async_commit_skips_unbuffered': has_unbuffered_return(fb['async_commit'])}

def emit_coq(t):
    b = lambda x: 'true' if x else 'false'
    L = ['(* GENERATED by translator/server_async_dispatch.py from /repo/src/api/server/async_io.rs and src/transport/fusedev/mod.rs -- do not edit. *)',
         'From Coq Require Import List String NArith Bool.', 'Import ListNotations.', 'Local Open Scope string_scope.', 'Local Open Scope N_scope.', '']
    L.append('(* (opcode number, handler function, arm awaits an async handler) *)')
    L.append('Definition rust_async_dispatch : list (N * string * bool) := ' + coq_list(
        ['(%d, %s, %s)' % (n, coq_str(h), b(a)) for n, op, h, a in t['dispatch']]) + '.\n')
    L.append('Definition rust_async_default_errno : N := %d.' % t['default_errno'])
    L.append('(* gate in front of the dispatch: %s *)' % t['gate']['cond'].replace('*)', '* )'))
    L.append('Definition rust_async_gate_checks_capacity : bool := %s.' % b(t['gate']['checks_capacity']))
    L.append('Definition rust_async_gate_exempts_forget : bool := %s.' % b(t['gate']['exempts_forget']))
    L.append('Definition rust_async_gate_errno : N := %d.' % t['gate']['errno'])
    L.append('(* async_write: `if size > MAX_BUFFER_SIZE` early error reply (0 = absent) *)')
    L.append('Definition rust_async_write_gate_errno : N := %d.' % t['write_gate_errno'])
    L.append('(* (opcode, async handler, AsyncFileSystem methods it awaits) *)')
    L.append('Definition rust_async_calls : list (N * string * list string) := ' + coq_list(
        ['(%d, %s, [%s])' % (n, coq_str(h), '; '.join(coq_str(x) for x in ms)) for n, h, ms in t['async_calls']]) + '.\n')
    L.append('(* async_lookup / async_create: is a bytes_to_cstr failure answered with EINVAL before Err is returned (as the sync handlers do)? *)')
    L.append('Definition rust_async_lookup_badname_replies : bool := %s.' % b(t['badname'][1]))
    L.append('Definition rust_async_create_badname_replies : bool := %s.\n' % b(t['badname'][35]))
    L.append('(* FuseDevWriter: does commit / async_commit return early on an unbuffered writer? *)')
    L.append('Definition rust_commit_skips_unbuffered : bool := %s.' % b(t['commit_skips_unbuffered']))
    L.append('Definition rust_async_commit_skips_unbuffered : bool := %s.\n' % b(t['async_commit_skips_unbuffered']))
    return '\n'.join(L)

if __name__ == '__main__':
    import json
    t = translate(sys.argv[1] if len(sys.argv) > 1 else '/repo')
    print(emit_coq(t))
