#!/usr/bin/env python3
"""Translator: the bodies of the request handlers in src/api/server/sync_io.rs -> coq/Gen/RustHandlers.v

For every arm of the dispatch `match` (translator/server_dispatch.py) the handler function's body is PARSED
(tokenizer + expression/statement parser for the Rust subset the handlers use) and symbolically executed
along its straight-line path to the `self.fs.<method>(..)` call:

  reads   the ordered request reads (`ctx.r.read_obj()..?` with the struct type taken from the destructuring
          pattern / the type annotation / the turbofish, `ServerUtil::get_message_body(&mut ctx.r, &ctx.in_header, SUB)?`,
          `bytes_to_cstr(buf)..?`, `ServerUtil::extract_two_cstrs(&buf)?`)
  guards  the pure tests between the reads and the call that leave without calling the filesystem
          (`if c { return .. }`, `ctx.w.split_at(n)` failing, `if let Some(req) = vu_req {..} else {..}`)
  call    method name and every argument as an expression over header fields (`ctx.nodeid()` etc. are resolved
          through the accessor bodies in src/api/server/mod.rs), struct fields BY NAME, names and the payload.

Local `let`s are inlined (so renaming / reordering independent lets / extracting a helper let changes nothing),
`if c {a} else {b}`, `match c {true => a, false => b}`, `match x {0 => a, _ => b}`, `c.then(|| a)` all become the same
conditional, `.into()` / `T::from(x)` / widening `as` are the identity on numbers, helper methods called in tail
position (`self.do_rename(ctx, ..)`, `self.do_readdir(ctx, plus)`) are inlined with their arguments.

Nothing here is compared textually with anything: the output is a Gallina function per handler, and
Proofs/ServerHandlersSrc.v proves, for all inputs, that the hand model Model/Server.v makes exactly that call.
A handler outside the accepted subset is listed in `untranslated_handlers` with the reason; EXPECTED_TRANSLATED
lists what must be readable (a handler dropping out of it is reported as a broken tie)."""
import re, os, sys
sys.path.insert(0, os.path.dirname(os.path.abspath(__file__)))
from rust_abi import TranslateError, translate as abi_translate, INT_TYPES
import server_dispatch

# handlers that are expected to be readable (the tie is broken if one of them no longer is)
EXPECTED_TRANSLATED = [
    'lookup', 'forget', 'getattr', 'setattr', 'readlink', 'symlink', 'mknod', 'mkdir', 'unlink', 'rmdir', 'rename', 'link',
    'open', 'read', 'write', 'statfs', 'release', 'fsync', 'getxattr', 'listxattr', 'removexattr', 'flush', 'opendir',
    'readdir', 'releasedir', 'fsyncdir', 'getlk', 'setlk', 'setlkw', 'access', 'create', 'interrupt', 'bmap', 'destroy',
    'poll', 'notify_reply', 'fallocate', 'readdirplus', 'rename2', 'lseek', 'setupmapping', 'batch_forget', 'removemapping']
# known to be outside the subset (documented in notes/handlers_tie.md)
EXPECTED_UNTRANSLATED = ['init', 'setxattr', 'ioctl']

# libc constants that appear in handler expressions (x86_64-unknown-linux-gnu; trusted, like LIBC_ERRNO in server_dispatch.py)
LIBC_CONSTS = {'RENAME_NOREPLACE': (1, 4), 'RENAME_EXCHANGE': (2, 4), 'RENAME_WHITEOUT': (4, 4)}
IGNORABLE_MACROS = {'trace', 'debug', 'info', 'warn', 'error', 'log'}

class Unsupported(Exception):
    pass

# ============================================================================================ tokenizer
TOKEN_RE = re.compile(r'''
    (?P<ws>\s+)
  | (?P<lcomment>//[^\n]*)
  | (?P<bcomment>/\*.*?\*/)
  | (?P<str>b?"(?:\\.|[^"\\])*")
  | (?P<char>b?'(?:\\.|[^'\\])')
  | (?P<life>'[A-Za-z_]\w*)
  | (?P<num>0x[0-9a-fA-F_]+(?:[ui](?:8|16|32|64|128|size))?|\d[\d_]*(?:[ui](?:8|16|32|64|128|size))?)
  | (?P<id>[A-Za-z_]\w*)
  | (?P<p>\.\.=|\.\.\.|<<=|>>=|::|->|=>|==|!=|<=|>=|&&|\|\||<<|>>|\+=|-=|\*=|/=|%=|\^=|&=|\|=|\.\.|[{}()\[\];,.:<>=+\-*/%!&|^?#@$~])
''', re.S | re.X)

def tokenize(src):
    out = []; i = 0
    while i < len(src):
        m = TOKEN_RE.match(src, i)
        if not m: raise TranslateError('cannot tokenize at %r' % src[i:i + 30])
        k = m.lastgroup; i = m.end()
        if k in ('ws', 'lcomment', 'bcomment'): continue
        out.append((k, m.group(k)))
    return out

# the configuration the harness builds the crate with (Linux, features fusedev + virtiofs, no fuse-t / async-io here)
CFG_TRUE = {('target_os', '"linux"'), ('feature', '"fusedev"'), ('feature', '"virtiofs"'), ('target_arch', '"x86_64"')}
CFG_FALSE = {('target_os', '"macos"'), ('feature', '"fuse-t"')}
CFG_WORDS = {'unix': True, 'windows': False, 'test': False, 'debug_assertions': None}

def eval_cfg_tokens(toks):
    """tokens of a cfg predicate -> True / False / None (unknown)"""
    pos = [0]
    def pred():
        k, v = toks[pos[0]]
        if k != 'id': raise ValueError
        pos[0] += 1
        if v in ('all', 'any', 'not') and pos[0] < len(toks) and toks[pos[0]][1] == '(':
            pos[0] += 1; vals = []
            while toks[pos[0]][1] != ')':
                vals.append(pred())
                if toks[pos[0]][1] == ',': pos[0] += 1
            pos[0] += 1
            if v == 'not': return None if vals[0] is None else (not vals[0])
            if v == 'all': return False if any(x is False for x in vals) else (None if any(x is None for x in vals) else True)
            return True if any(x is True for x in vals) else (None if any(x is None for x in vals) else False)
        if pos[0] < len(toks) and toks[pos[0]][1] == '=':
            val = toks[pos[0] + 1][1]; pos[0] += 2
            if (v, val) in CFG_TRUE: return True
            if (v, val) in CFG_FALSE: return False
            return None
        return CFG_WORDS.get(v)
    try: return pred()
    except (ValueError, IndexError): return None

def attrs_cfg(attrs):
    """list of attribute token lists (the tokens inside #[ ]) -> conjunction of their cfg predicates (True if none)"""
    res = True
    for a in attrs:
        if a and a[0] == ('id', 'cfg') and len(a) > 2 and a[1][1] == '(':
            v = eval_cfg_tokens(a[2:-1])
            if v is False: return False
            if v is None: res = None
    return res

OPEN = {'(': ')', '[': ']', '{': '}'}
CLOSE = {')', ']', '}'}

def skip_balanced(toks, i):
    """toks[i] is an opening bracket -> index just after its match"""
    assert toks[i][1] in OPEN
    d = 0
    while i < len(toks):
        t = toks[i][1] if toks[i][0] == 'p' else None
        if t in OPEN: d += 1
        elif t in CLOSE:
            d -= 1
            if d == 0: return i + 1
        i += 1
    raise TranslateError('unbalanced brackets')

# ============================================================================================ parser
BINOPS = [('||',), ('&&',), ('==', '!=', '<', '>', '<=', '>='), ('|',), ('^',), ('&',), ('<<', '>>'), ('+', '-'), ('*', '/', '%')]
BLOCKLIKE = {'if', 'match', 'block', 'for', 'while', 'loop', 'unsafe'}

class Parser:
    def __init__(self, toks):
        self.t = toks; self.i = 0
    def peek(self, k=0):
        j = self.i + k
        return self.t[j] if j < len(self.t) else ('eof', '')
    def at(self, s, k=0):
        kind, v = self.peek(k)
        return v == s and kind in ('p', 'id')
    def eat(self, s):
        if self.at(s): self.i += 1; return True
        return False
    def expect(self, s):
        if not self.eat(s): raise Unsupported('expected %r, found %r' % (s, self.peek()[1]))
    def ident(self):
        k, v = self.peek()
        if k != 'id': raise Unsupported('expected identifier, found %r' % v)
        self.i += 1; return v
    def skip_attrs(self):
        """-> cfg value of the attributes skipped (True when there is no cfg)"""
        attrs = []
        while self.at('#'):
            self.i += 1; self.eat('!')
            if not self.at('['): raise Unsupported('bad attribute')
            j = skip_balanced(self.t, self.i); attrs.append(self.t[self.i + 1:j - 1]); self.i = j
        return attrs_cfg(attrs)

    # ---- types: kept as a token string
    def type_(self):
        start = self.i; d = 0
        while True:
            k, v = self.peek()
            if k == 'eof': break
            if k == 'p':
                if v in ('(', '['): self.i = skip_balanced(self.t, self.i); continue
                if v == '<': d += 1
                elif v == '>':
                    if d == 0: break
                    d -= 1
                elif v == '>>':
                    if d < 2: break
                    d -= 2
                elif v in ('&', '::', "'"): pass
                elif d == 0: break
            elif k == 'id' and v in ('as',) and d == 0: break
            elif k == 'life': pass
            elif k not in ('id', 'num'): break
            self.i += 1
            if d == 0 and k == 'id' and not (self.at('::') or self.at('<')): break
        if self.i == start: raise Unsupported('expected a type')
        return ' '.join(v for _, v in self.t[start:self.i]).replace(' :: ', '::').replace(' < ', '<').replace(' >', '>').replace('& ', '&')

    def generic_args(self):
        """at '<' : list of type strings"""
        self.expect('<'); out = []
        while not self.at('>'):
            out.append(self.type_())
            if not self.eat(','): break
        self.expect('>')
        return out

    # ---- patterns
    def pattern(self):
        alts = [self.pattern1()]
        while self.at('|') :
            self.i += 1; alts.append(self.pattern1())
        return alts[0] if len(alts) == 1 else ('por', alts)
    def pattern1(self):
        k, v = self.peek()
        if self.eat('&'):
            self.eat('mut'); return ('pref', self.pattern1())
        if self.at('('):
            self.i += 1; ps = []
            while not self.at(')'):
                ps.append(self.pattern())
                if not self.eat(','): break
            self.expect(')'); return ('ptuple', ps)
        if k in ('num', 'char', 'str') or (self.at('-') and self.peek(1)[0] == 'num'):
            e = self.primary(); return ('plit', e)
        if k == 'id':
            if v == '_' : self.i += 1; return ('pwild',)
            if v in ('true', 'false'): self.i += 1; return ('plit', ('bool', v == 'true'))
            if v in ('mut', 'ref'):
                self.i += 1
                if self.at('mut'): self.i += 1
                return ('pid', self.ident(), True)
            segs = [self.ident()]
            while self.at('::'):
                self.i += 1
                if self.at('<'): self.generic_args(); continue
                segs.append(self.ident())
            if self.at('{'):
                self.i += 1; fs = []; rest = False
                while not self.at('}'):
                    if self.eat('..'): rest = True; break
                    self.eat('ref'); self.eat('mut')
                    f = self.ident()
                    if self.eat(':'): fs.append((f, self.pattern()))
                    else: fs.append((f, ('pid', f, False)))
                    if not self.eat(','): break
                self.expect('}'); return ('pstruct', segs, fs, rest)
            if self.at('('):
                self.i += 1; ps = []
                while not self.at(')'):
                    ps.append(self.pattern())
                    if not self.eat(','): break
                self.expect(')'); return ('ptstruct', segs, ps)
            if len(segs) == 1 and segs[0][0].islower(): return ('pid', segs[0], False)
            return ('ppath', segs)
        raise Unsupported('unsupported pattern at %r' % v)

    # ---- expressions
    def expr(self, nostruct=False):
        return self.range_(nostruct)
    def range_(self, ns):
        if self.at('..') or self.at('..='):
            self.i += 1
            if self.peek()[1] in (')', ']', '}', ',', ';'): return ('range', None, None)
            return ('range', None, self.binary(0, ns))
        a = self.binary(0, ns)
        if self.at('..') or self.at('..='):
            self.i += 1
            if self.peek()[1] in (')', ']', '}', ',', ';'): return ('range', a, None)
            return ('range', a, self.binary(0, ns))
        return a
    def binary(self, lvl, ns):
        if lvl == len(BINOPS): return self.cast(ns)
        a = self.binary(lvl + 1, ns)
        while self.peek()[0] == 'p' and self.peek()[1] in BINOPS[lvl]:
            op = self.peek()[1]
            if op == '|' and self.peek(1)[1] == '|': break
            self.i += 1
            a = ('bin', op, a, self.binary(lvl + 1, ns))
        return a
    def cast(self, ns):
        a = self.unary(ns)
        while self.at('as'):
            self.i += 1; a = ('cast', a, self.type_())
        return a
    def unary(self, ns):
        if self.at('!') : self.i += 1; return ('unary', '!', self.unary(ns))
        if self.at('-') : self.i += 1; return ('unary', '-', self.unary(ns))
        if self.at('*') : self.i += 1; return ('unary', '*', self.unary(ns))
        if self.at('&') or self.at('&&'):
            n = 2 if self.at('&&') else 1
            self.i += 1; m = self.eat('mut')
            e = ('unary', '&mut' if m else '&', self.unary(ns))
            return ('unary', '&', e) if n == 2 else e
        return self.postfix(ns)
    def args(self):
        self.expect('('); out = []
        while not self.at(')'):
            out.append(self.expr())
            if not self.eat(','): break
        self.expect(')'); return out
    def postfix(self, ns):
        e = self.primary(ns)
        while True:
            if self.at('?'): self.i += 1; e = ('try', e)
            elif self.at('.'):
                self.i += 1
                k, v = self.peek()
                if k == 'num': self.i += 1; e = ('field', e, v); continue
                if self.at('await'): self.i += 1; e = ('await', e); continue
                name = self.ident(); tf = None
                if self.at('::') and self.at('<', 1): self.i += 1; tf = self.generic_args()
                if self.at('('): e = ('mcall', e, name, tf, self.args())
                else: e = ('field', e, name)
            elif self.at('('): e = ('call', e, self.args())
            elif self.at('['):
                self.i += 1; ix = self.expr(); self.expect(']'); e = ('index', e, ix)
            else: return e
    def block(self):
        self.expect('{'); stmts = []; tail = None
        while not self.at('}'):
            cfg = self.skip_attrs()
            if self.at('}'): break
            if self.eat(';'): continue
            start = self.i
            def add(st):
                # a statement compiled out in the harness configuration is dropped; one whose cfg is not understood is kept as unreadable
                if cfg is True: stmts.append(st)
                elif cfg is None: stmts.append(('opaque', self.t[start:self.i] + [('id', 'return')], 'statement under a cfg the translator does not evaluate'))
            try:
                if self.at('let'):
                    self.i += 1; pat = self.pattern(); ty = None; rhs = None
                    if self.eat(':'): ty = self.type_()
                    if self.eat('='): rhs = self.expr()
                    if self.at('else'): raise Unsupported('let-else')
                    self.expect(';'); add(('let', pat, ty, rhs)); continue
                e = self.expr()
                if self.peek()[0] == 'p' and self.peek()[1] in ('=', '+=', '-=', '|=', '&=', '^=', '<<=', '>>=', '*=', '/=', '%='):
                    op = self.peek()[1]; self.i += 1; r = self.expr(); e = ('assign', op, e, r)
                if self.eat(';'): add(('expr', e)); continue
                if self.at('}'):
                    if cfg is not True: raise Unsupported('cfg on a tail expression')
                    tail = e; break
                if e[0] in BLOCKLIKE: add(('expr', e)); continue
                raise Unsupported('expected ; after expression')
            except Unsupported as ex:
                # tolerant: skip the statement, keep its tokens
                self.i = start; end = self.skip_statement()
                if cfg is not False: stmts.append(('opaque', self.t[start:end], str(ex)))
        self.expect('}')
        return ('block', stmts, tail)
    def skip_statement(self):
        """advance past one statement without parsing it; -> end index"""
        first = self.peek()[1]
        if first in ('if', 'match', 'for', 'while', 'loop', 'unsafe'):
            while True:
                while not self.at('{'):
                    if self.peek()[0] == 'eof': raise TranslateError('runaway statement')
                    if self.peek()[1] in ('(', '['): self.i = skip_balanced(self.t, self.i)
                    else: self.i += 1
                self.i = skip_balanced(self.t, self.i)
                if self.at('else'): self.i += 1; continue
                break
            self.eat(';'); return self.i
        while True:
            k, v = self.peek()
            if k == 'eof' or (k == 'p' and v == '}'): return self.i
            if k == 'p' and v in OPEN: self.i = skip_balanced(self.t, self.i); continue
            self.i += 1
            if k == 'p' and v == ';': return self.i
    def primary(self, ns=False):
        k, v = self.peek()
        if k == 'num':
            self.i += 1
            s = re.sub(r'[ui](?:8|16|32|64|128|size)$', '', v).replace('_', '')
            return ('lit', int(s, 16) if s.startswith('0x') else int(s))
        if k == 'str': self.i += 1; return ('str', v)
        if k == 'char':
            self.i += 1; body = v[v.index("'") + 1:-1]
            esc = {'\\0': 0, '\\n': 10, '\\t': 9, '\\r': 13, "\\'": 39, '\\\\': 92}
            return ('lit', esc[body] if body in esc else (ord(body) if len(body) == 1 else self._bad('char literal')))
        if self.at('('):
            self.i += 1
            if self.eat(')'): return ('tuple', [])
            e = self.expr()
            if self.eat(')'): return e
            es = [e]
            while self.eat(','):
                if self.at(')'): break
                es.append(self.expr())
            self.expect(')'); return ('tuple', es)
        if self.at('['):
            self.i += 1; es = []
            while not self.at(']'):
                es.append(self.expr())
                if self.eat(';'): n = self.expr(); self.expect(']'); return ('arrayrep', es[0], n)
                if not self.eat(','): break
            self.expect(']'); return ('array', es)
        if self.at('{'): return self.block()
        if self.at('|') or self.at('||') or self.at('move'):
            self.eat('move'); ps = []
            if self.eat('||'): pass
            else:
                self.expect('|')
                while not self.at('|'):
                    p = self.pattern1()
                    if self.eat(':'): self.type_()
                    ps.append(p)
                    if not self.eat(','): break
                self.expect('|')
            if self.eat('->'): self.type_()
            return ('closure', ps, self.expr())
        if self.at('<'):      # qualified path <T>::f / <T as Trait>::f : kept opaque
            d = 0
            while True:
                if self.at('<'): d += 1
                elif self.at('>'): d -= 1
                elif self.at('['): self.i = skip_balanced(self.t, self.i); continue
                self.i += 1
                if d == 0: break
            segs = ['<qualified>']
            while self.eat('::'): segs.append(self.ident())
            return ('path', segs, None)
        if k != 'id': raise Unsupported('unexpected token %r' % v)
        if v == 'if': return self.if_()
        if v == 'match':
            self.i += 1; sc = self.expr(nostruct=True); self.expect('{'); arms = []
            while not self.at('}'):
                cfg = self.skip_attrs()
                self.eat('|')
                pat = self.pattern(); g = None
                if self.eat('if'): g = self.expr()
                self.expect('=>'); body = self.expr()
                if cfg is None: raise Unsupported('match arm under a cfg the translator does not evaluate')
                if cfg: arms.append((pat, g, body))
                if not self.eat(','):
                    if not self.at('}') and body[0] not in BLOCKLIKE: raise Unsupported('match arm separator')
            self.expect('}'); return ('match', sc, arms)
        if v == 'unsafe': self.i += 1; return ('unsafe', self.block())
        if v == 'loop': self.i += 1; return ('loop', self.block())
        if v == 'while':
            self.i += 1; c = self.cond(); return ('while', c, self.block())
        if v == 'for':
            self.i += 1; p = self.pattern(); self.expect('in'); it = self.expr(nostruct=True); return ('for', p, it, self.block())
        if v == 'return':
            self.i += 1
            if self.peek()[1] in (';', '}', ',', ')'): return ('return', None)
            return ('return', self.expr())
        if v in ('break', 'continue'):
            self.i += 1; return (v,)
        if v in ('true', 'false'): self.i += 1; return ('bool', v == 'true')
        # path (possibly a macro call / struct literal)
        segs = [self.ident()]; tf = None
        while self.at('::'):
            self.i += 1
            if self.at('<'): tf = self.generic_args(); continue
            segs.append(self.ident())
        if self.at('!') and self.peek(1)[1] in ('(', '[', '{') and not self.at('=', 1):
            self.i += 1; j = skip_balanced(self.t, self.i); body = self.t[self.i:j]; self.i = j
            return ('macro', segs[-1], body)
        if self.at('{') and not ns and (segs[-1][0].isupper()):
            self.i += 1; fs = []; base = None
            while not self.at('}'):
                if self.eat('..'): base = self.expr(); break
                f = self.ident()
                if self.eat(':'): fs.append((f, self.expr()))
                else: fs.append((f, ('path', [f], None)))
                if not self.eat(','): break
            self.expect('}'); return ('struct', segs, fs, base)
        return ('path', segs, tf)
    def _bad(self, what): raise Unsupported(what)
    def cond(self):
        if self.at('let'):
            self.i += 1; p = self.pattern(); self.expect('='); e = self.expr(nostruct=True); return ('let', p, e)
        return self.expr(nostruct=True)
    def if_(self):
        self.expect('if'); c = self.cond(); a = self.block(); b = None
        if self.eat('else'):
            b = self.if_() if self.at('if') else self.block()
        return ('if', c, a, b)

# ============================================================================================ source access
def strip_comments_keep(src):
    return src

def find_fns(src):
    """name -> (params [(name, type)], body tokens incl. braces) for every `fn` with a body in src"""
    toks = tokenize(src); out = {}
    i = 0
    while i < len(toks):
        if toks[i] == ('id', 'fn') and i + 1 < len(toks) and toks[i + 1][0] == 'id':
            name = toks[i + 1][1]; j = i + 2
            # attributes in front of the item (behind its visibility / qualifiers)
            b = i - 1; attrs = []
            while b >= 0 and toks[b][1] in ('pub', '(', ')', 'super', 'crate', 'in', 'self', 'async', 'unsafe', 'const', 'extern'): b -= 1
            while b >= 1 and toks[b][1] == ']':
                d = 0; k = b
                while k >= 0:
                    if toks[k][1] == ']': d += 1
                    elif toks[k][1] == '[':
                        d -= 1
                        if d == 0: break
                    k -= 1
                if k < 1 or toks[k - 1][1] != '#': break
                attrs.append(toks[k + 1:b]); b = k - 2
            fcfg = attrs_cfg(attrs)
            if toks[j][1] == '<':
                d = 0
                while True:
                    if toks[j][1] == '<': d += 1
                    elif toks[j][1] == '>': d -= 1
                    elif toks[j][1] == '>>': d -= 2
                    j += 1
                    if d <= 0: break
            if toks[j][1] != '(': i += 1; continue
            pend = skip_balanced(toks, j); ptoks = toks[j + 1:pend - 1]
            params = []; cur = []; d = 0
            for t in ptoks + [('p', ',')]:
                if t[1] in ('(', '[', '<'): d += 1
                elif t[1] in (')', ']', '>'): d -= 1
                if t[1] == ',' and d == 0:
                    if cur:
                        names = [x[1] for x in cur]
                        if ':' in names:
                            k = names.index(':'); pn = [x for x in names[:k] if x not in ('mut', '&')]
                            params.append((pn[-1] if pn else '_', ' '.join(names[k + 1:])))
                        else: params.append(('self', 'Self'))
                    cur = []
                else: cur.append(t)
            k = pend
            while k < len(toks) and toks[k][1] not in ('{', ';'):
                if toks[k][1] in ('(', '['): k = skip_balanced(toks, k)
                else: k += 1
            if k < len(toks) and toks[k][1] == '{':
                end = skip_balanced(toks, k)
                if fcfg is True: out.setdefault(name, (params, toks[k:end]))
                elif fcfg is None: out.setdefault(name, (params, tokenize('{ return UNREADABLE_CFG; }')))
                i = k + 1; continue
        i += 1
    return out

# ============================================================================================ symbolic values
# Sym forms:
#  ('n', coq, width|None)         a number with its Gallina text       ('b', coq) bool     ('o', coq) option of number
#  ('name', coq)                  a C string (bytes)
#  ('obj', k, S)                  the k-th decoded value, a struct S   ('sub', k, S, prefix, T)  nested struct field
#  ('buf', k)                     message body buffer                  ('two', k)  pair of names
#  ('ctx',) context   ('srv',) the ctx object   ('hdrobj',)  ('reader',) ctx.r ('writerobj',) ctx.w
#  ('drop', why)                  an argument that is an output channel / callback, not part of the call value
#  ('payload',)                   ZcReader over the rest of the request
#  ('conv', k, S, target)         S converted with .into() to `target`
#  ('sizeof', S)  ('tuple', [syms])  ('opaque', why)

def paren(s):
    return s if re.fullmatch(r'[\w."]+', s) else '(' + s + ')'

class Handler:
    def __init__(self, tr, name):
        self.tr = tr; self.name = name
        self.reads = []          # ('obj', S) | ('body', coq_sub) | ('cstr', k) | ('two', k)
        self.guards = []         # coq bool texts (must hold for the call to be made)
        self.notes = []
        self.depth = 0
        self.rest_marks = []     # number of reads done when `rest` (take_reader / ctx.r.available_bytes) was evaluated
        self.wsplit_done = False

    # ------------------------------------------------------------ helpers
    def width_of_type(self, ty):
        ty = ty.strip()
        if ty in INT_TYPES:
            w, s = INT_TYPES[ty]
            if s: raise Unsupported('signed type %s' % ty)
            return w
        raise Unsupported('cast to %s' % ty)

    def field_sym(self, k, S, path):
        ty = self.tr.field_type(S, path)
        if ty is None: raise Unsupported('struct %s has no field %s' % (S, path))
        if 'int' in ty:
            if ty['signed']: raise Unsupported('signed field %s.%s' % (S, path))
            return ('n', 'rfld "%s" "%s" (dobj %d d)' % (S, path, k), ty['int'])
        if 'named' in ty: return ('sub', k, S, path, ty['named'])
        raise Unsupported('array field %s.%s' % (S, path))

    def num(self, s):
        if s[0] == 'n': return s
        if s[0] == 'sizeof': return ('n', 'N.of_nat (rsize "%s")' % s[1], 8)
        if s[0] == 'opaque': raise Unsupported('uses a value that is not translated (%s)' % s[1])
        raise Unsupported('a number was expected, got %s' % (s[0],))
    def boolean(self, s):
        if s[0] == 'b': return s
        if s[0] == 'opaque': raise Unsupported('uses a value that is not translated (%s)' % s[1])
        raise Unsupported('a bool was expected, got %s' % (s[0],))

    # ------------------------------------------------------------ reads
    def add_read(self, r):
        self.reads.append(r); return len(self.reads) - 1

    def is_ctx_field(self, e, env, f):
        return e[0] == 'field' and e[2] == f and self.ev(e[1], env)[0] == 'srv'

    def try_read(self, e, env, hint):
        """recognise the request reads; -> Sym or None"""
        if e[0] != 'try': return None
        x = e[1]
        # ctx.r.read_obj().map_err(..)?   /  ctx.r.read_obj::<T>().map_err(..)?
        if x[0] == 'mcall' and x[2] == 'map_err' and x[1][0] == 'mcall' and x[1][2] == 'read_obj' and self.is_ctx_field(x[1][1], env, 'r'):
            if x[1][4]: raise Unsupported('read_obj with arguments')
            T = (x[1][3] or [None])[0] or hint
            if T is None: raise Unsupported('read_obj: struct type not determined')
            if not self.tr.has_struct(T): raise Unsupported('read_obj of unknown struct %s' % T)
            return ('obj', self.add_read(('obj', T)), T)
        if x[0] == 'mcall' and x[2] == 'read_obj' and self.is_ctx_field(x[1], env, 'r'):
            T = (x[3] or [None])[0] or hint
            if T is None or not self.tr.has_struct(T): raise Unsupported('read_obj: struct type not determined')
            return ('obj', self.add_read(('obj', T)), T)
        # ServerUtil::get_message_body(&mut ctx.r, &ctx.in_header, SUB)?
        if x[0] == 'call' and x[1][0] == 'path' and x[1][1][-1] == 'get_message_body':
            a = x[2]
            if len(a) != 3: raise Unsupported('get_message_body arity')
            if self.ev(a[0], env)[0] != 'reader' or self.ev(a[1], env)[0] != 'hdrobj': raise Unsupported('get_message_body on something else than ctx.r / ctx.in_header')
            sub = self.num(self.ev(a[2], env))
            return ('buf', self.add_read(('body', sub[1])))
        # bytes_to_cstr(buf)...?   (with or without .map_err(closure))
        y = x
        if y[0] == 'mcall' and y[2] == 'map_err': y = y[1]
        if y[0] == 'call' and y[1][0] == 'path' and y[1][1][-1] == 'bytes_to_cstr':
            if len(y[2]) != 1: raise Unsupported('bytes_to_cstr arity')
            b = self.ev(y[2][0], env)
            if b[0] != 'buf': raise Unsupported('bytes_to_cstr of something that is not a message body')
            k = self.add_read(('cstr', b[1]))
            return ('name', 'dname %d d' % k)
        if x[0] == 'call' and x[1][0] == 'path' and x[1][1][-1] == 'extract_two_cstrs':
            b = self.ev(x[2][0], env) if len(x[2]) == 1 else ('opaque', '')
            if b[0] != 'buf': raise Unsupported('extract_two_cstrs of something that is not a message body')
            k = self.add_read(('two', b[1]))
            return ('tuple', [('name', 'dfirst %d d' % k), ('name', 'dsecond %d d' % k)])
        return None

    # ------------------------------------------------------------ expression evaluation
    def ev(self, e, env, hint=None):
        k = e[0]
        r = self.try_read(e, env, hint)
        if r is not None: return r
        if k == 'lit': return ('n', str(e[1]), None)
        if k == 'bool': return ('b', 'true' if e[1] else 'false')
        if k == 'path': return self.ev_path(e, env)
        if k == 'unary':
            if e[1] in ('&', '&mut', '*'): return self.ev(e[2], env, hint)
            a = self.ev(e[2], env)
            if e[1] == '!':
                if a[0] == 'b': return ('b', 'negb %s' % paren(a[1]))
                a = self.num(a)
                if a[2] is None: raise Unsupported('bitwise not of an untyped literal')
                return ('n', 'N.lnot %s %d' % (paren(a[1]), 8 * a[2]), a[2])
            raise Unsupported('unary %s' % e[1])
        if k == 'cast':
            a = self.ev(e[1], env)
            if a[0] == 'b': raise Unsupported('cast of a bool')
            a = self.num(a); w = self.width_of_type(e[2])
            if a[2] is None or a[2] <= w: return ('n', a[1], w)
            return ('n', '%s mod %d' % (paren(a[1]), 1 << (8 * w)), w)
        if k == 'bin': return self.ev_bin(e, env)
        if k == 'field':
            a = self.ev(e[1], env)
            if a[0] == 'srv':
                if e[2] == 'r': return ('reader',)
                if e[2] == 'w': return ('writerobj',)
                if e[2] == 'in_header': return ('hdrobj',)
                if e[2] == 'context': return ('ctx',)
                raise Unsupported('ctx.%s' % e[2])
            if a[0] == 'hdrobj': return self.tr.hdr_field(e[2])
            if a[0] == 'obj': return self.field_sym(a[1], a[2], e[2])
            if a[0] == 'elt':
                ty = self.tr.field_type(a[1], e[2])
                if ty is None or 'int' not in ty or ty['signed']: raise Unsupported('element field %s.%s' % (a[1], e[2]))
                return ('n', 'rfld "%s" "%s" o' % (a[1], e[2]), ty['int'])
            if a[0] == 'sub': return self.field_sym(a[1], a[2], a[3] + '.' + e[2])
            if a[0] == 'tuple' and e[2].isdigit(): return a[1][int(e[2])]
            if a[0] == 'drop': return a
            raise Unsupported('field .%s of %s' % (e[2], a[0]))
        if k == 'mcall': return self.ev_mcall(e, env, hint)
        if k == 'call': return self.ev_call(e, env, hint)
        if k == 'if':
            if e[1][0] == 'let': raise Unsupported('if let in an argument expression')
            c = self.boolean(self.ev(e[1], env))
            if e[3] is None: raise Unsupported('if without else used as a value')
            a = self.ev(e[2], env, hint); b = self.ev(e[3], env, hint)
            return self.ite(c, a, b)
        if k == 'match': return self.ev_match(e, env, hint)
        if k == 'block':
            env2 = dict(env)
            for st in e[1]: self.exec_pure_stmt(st, env2)
            if e[2] is None: raise Unsupported('block without a value')
            return self.ev(e[2], env2, hint)
        if k == 'tuple': return ('tuple', [self.ev(x, env) for x in e[1]])
        if k == 'closure': return ('drop', 'callback closure')
        if k == 'try': raise Unsupported('`?` on an expression that is not a recognised request read')
        raise Unsupported('expression form %s' % k)

    def ite(self, c, a, b):
        if c[1] == 'true': return a
        if c[1] == 'false': return b
        if a[0] == 'none' and b[0] == 'none': return a
        if a[0] in ('o', 'none') and b[0] in ('o', 'none'):
            return ('o', 'if %s then %s else %s' % (c[1], self.opt(a), self.opt(b)))
        if a[0] == 'b' and b[0] == 'b': return ('b', 'if %s then %s else %s' % (c[1], a[1], b[1]))
        if a[0] == 'n' and b[0] == 'n':
            return ('n', 'if %s then %s else %s' % (c[1], a[1], b[1]), a[2] or b[2])
        if a[0] == 'name' and b[0] == 'name': return ('name', 'if %s then %s else %s' % (c[1], a[1], b[1]))
        raise Unsupported('conditional between %s and %s' % (a[0], b[0]))
    def opt(self, s):
        return 'None' if s[0] == 'none' else s[1]

    def ev_path(self, e, env):
        segs = e[1]
        if len(segs) == 1:
            n = segs[0]
            if n in env: return env[n]
            if n == 'None': return ('none',)
            if n == 'self': return ('self',)
            c = self.tr.const(n)
            if c is not None: return c
            raise Unsupported('unknown identifier %s' % n)
        if segs[0] == 'libc' and len(segs) == 2:
            if segs[1] in LIBC_CONSTS:
                v, w = LIBC_CONSTS[segs[1]]
                return ('n', '%d (* libc::%s *)' % (v, segs[1]), w)
            raise Unsupported('libc::%s' % segs[1])
        if len(segs) == 2 and self.tr.bitflag(segs[0], segs[1]) is not None:
            return ('n', 'rbf "%s" "%s"' % (segs[0], segs[1]), self.tr.bitflag_width(segs[0]))
        if len(segs) == 2 and segs[0] in INT_TYPES and segs[1] == 'MAX':
            w, s = INT_TYPES[segs[0]]
            if not s: return ('n', str((1 << (8 * w)) - 1), w)
        raise Unsupported('path %s' % '::'.join(segs))

    def ev_bin(self, e, env):
        op = e[1]
        a = self.ev(e[2], env); b = self.ev(e[3], env)
        if op in ('&&', '||'):
            a = self.boolean(a); b = self.boolean(b)
            return ('b', '%s %s %s' % (paren(a[1]), op, paren(b[1])))
        if a[0] == 'b' and b[0] == 'b' and op in ('==', '!='):
            t = 'Bool.eqb %s %s' % (paren(a[1]), paren(b[1]))
            return ('b', t if op == '==' else 'negb (%s)' % t)
        if a[0] == 'b' and b[0] == 'b' and op in ('&', '|'):
            return ('b', '%s %s %s' % (paren(a[1]), '&&' if op == '&' else '||', paren(b[1])))
        a = self.num(a); b = self.num(b)
        w = a[2] or b[2]
        A, B = paren(a[1]), paren(b[1])
        if op == '==': return ('b', '%s =? %s' % (A, B))
        if op == '!=': return ('b', 'negb (%s =? %s)' % (A, B))
        if op == '<': return ('b', '%s <? %s' % (A, B))
        if op == '<=': return ('b', '%s <=? %s' % (A, B))
        if op == '>': return ('b', '%s <? %s' % (B, A))
        if op == '>=': return ('b', '%s <=? %s' % (B, A))
        if op == '&': return ('n', 'N.land %s %s' % (A, B), w)
        if op == '|': return ('n', 'N.lor %s %s' % (A, B), w)
        if op == '^': return ('n', 'N.lxor %s %s' % (A, B), w)
        if op == '>>': return ('n', 'N.shiftr %s %s' % (A, B), a[2])
        if w is None: raise Unsupported('arithmetic on untyped literals')
        M = 1 << (8 * w)
        # wrapping forms: what release builds do (debug builds panic on overflow; noted in the trusted base)
        if op == '+': return ('n', '(%s + %s) mod %d' % (A, B, M), w)
        if op == '-': return ('n', '(%s + %d - %s) mod %d' % (A, M, B, M), w)
        if op == '*': return ('n', '(%s * %s) mod %d' % (A, B, M), w)
        if op == '<<': return ('n', '(N.shiftl %s %s) mod %d' % (A, B, 1 << (8 * (a[2] or w))), a[2] or w)
        raise Unsupported('operator %s' % op)

    def ev_match(self, e, env, hint):
        sc = self.ev(e[1], env); arms = e[2]
        if any(g is not None for _, g, _ in arms): raise Unsupported('match guard in an argument expression')
        if sc[0] == 'b':
            d = {}
            for p, _, body in arms:
                if p[0] == 'plit' and p[1][0] == 'bool': d[p[1][1]] = body
                elif p[0] == 'pwild':
                    d.setdefault(True, body); d.setdefault(False, body)
                else: raise Unsupported('match on bool with pattern %s' % p[0])
            if set(d) != {True, False}: raise Unsupported('non-exhaustive bool match')
            return self.ite(sc, self.ev(d[True], env, hint), self.ev(d[False], env, hint))
        if sc[0] == 'n':
            # literal arms then a catch-all
            res = None
            for p, _, body in reversed(arms):
                if p[0] in ('pwild', 'pid'):
                    if res is not None: raise Unsupported('catch-all arm not last')
                    env2 = dict(env)
                    if p[0] == 'pid': env2[p[1]] = sc
                    res = self.ev(body, env2, hint)
                elif p[0] == 'plit' and p[1][0] == 'lit':
                    if res is None: raise Unsupported('match on a number without catch-all')
                    res = self.ite(('b', '%s =? %d' % (paren(sc[1]), p[1][1])), self.ev(body, env, hint), res)
                else: raise Unsupported('match on a number with pattern %s' % p[0])
            return res
        raise Unsupported('match on %s' % sc[0])

    def ev_call(self, e, env, hint):
        f = e[1]
        if f[0] != 'path': raise Unsupported('call of a computed function')
        segs = f[1]; args = e[2]
        if segs == ['Some'] and len(args) == 1:
            a = self.ev(args[0], env)
            a = self.num(a)
            return ('o', 'Some %s' % paren(a[1]))
        if segs[-1] == 'size_of' and not args and f[2]:
            T = f[2][0]
            if not self.tr.has_struct(T): raise Unsupported('size_of::<%s>' % T)
            return ('sizeof', T)
        if len(segs) == 2 and segs[1] == 'from' and segs[0] in INT_TYPES and len(args) == 1:
            a = self.num(self.ev(args[0], env)); w = self.width_of_type(segs[0])
            if a[2] is not None and a[2] > w: raise Unsupported('%s::from of a wider value' % segs[0])
            return ('n', a[1], w)
        if len(segs) == 2 and segs[1] in ('from_bits_truncate', 'from_bits_retain') and self.tr.bitflags_all(segs[0]) is not None and len(args) == 1:
            a = self.num(self.ev(args[0], env)); w = self.tr.bitflag_width(segs[0])
            if segs[1] == 'from_bits_retain': return ('n', a[1], w)
            return ('n', 'N.land %s (rbf_all "%s")' % (paren(a[1]), segs[0]), w)
        if segs in (['Vec', 'with_capacity'], ['Vec', 'new']):
            return ('vecnew',)
        if segs == ['ZcWriter'] and len(args) == 1:
            a = self.ev(args[0], env)
            if a[0] == 'drop': return ('drop', 'ZeroCopyWriter over the reply buffer')
            raise Unsupported('ZcWriter over %s' % a[0])
        if segs == ['ZcReader'] and len(args) == 1:
            a = self.ev(args[0], env)
            if a[0] == 'payload': return a
            raise Unsupported('ZcReader over %s' % a[0])
        raise Unsupported('call of %s' % '::'.join(segs))

    def ev_mcall(self, e, env, hint):
        recv, name, tf, args = e[1], e[2], e[3], e[4]
        # ctx accessors
        r = self.ev(recv, env)
        if r[0] == 'srv':
            if name == 'take_reader' and not args:
                self.rest_marks.append(len(self.reads)); return ('payload',)
            acc = self.tr.accessor(name)
            if acc is not None and not args: return acc
            raise Unsupported('ctx.%s()' % name)
        if r[0] == 'writerobj':
            if name == 'available_bytes' and not args:
                if self.wsplit_done: raise Unsupported('ctx.w.available_bytes() after the writer was split')
                return ('n', 'wcap', 8)
            if name == 'split_at' and len(args) == 1:
                if self.wsplit_done: raise Unsupported('ctx.w split twice')
                n = self.num(self.ev(args[0], env))
                self.wsplit_done = True
                return ('wsplit', n[1])
            raise Unsupported('ctx.w.%s' % name)
        if r[0] == 'reader':
            if name == 'available_bytes' and not args:
                self.rest_marks.append(len(self.reads)); return ('n', 'blen rest', 8)
            raise Unsupported('ctx.r.%s' % name)
        if name == 'into' and not args:
            if r[0] in ('n', 'sub'): return r
            if r[0] == 'obj':
                if hint is None: raise Unsupported('.into() of a whole struct without a target type')
                return ('conv', r[1], r[2], hint)
            raise Unsupported('.into() of %s' % r[0])
        if name in ('as_ref', 'as_slice', 'as_bytes', 'clone', 'to_owned', 'as_mut') and not args and r[0] in ('buf', 'n', 'name'): return r
        if name == 'bits' and not args and r[0] == 'n': return r
        if name == 'then' and len(args) == 1 and r[0] == 'b' and args[0][0] == 'closure' and not args[0][1]:
            v = self.num(self.ev(args[0][2], env))
            return ('o', 'if %s then Some %s else None' % (r[1], paren(v[1])))
        if name == 'then_some' and len(args) == 1 and r[0] == 'b':
            v = self.num(self.ev(args[0], env))
            return ('o', 'if %s then Some %s else None' % (r[1], paren(v[1])))
        if name == 'contains' and len(args) == 1 and r[0] == 'n':
            v = self.num(self.ev(args[0], env))
            return ('b', 'N.land %s %s =? %s' % (paren(r[1]), paren(v[1]), paren(v[1])))
        if name == 'saturating_add' and len(args) == 1 and r[0] in ('n', 'sizeof'):
            a = self.num(r); b = self.num(self.ev(args[0], env)); w = a[2] or b[2]
            if w is None: raise Unsupported('saturating_add on untyped literals')
            return ('n', 'N.min (%s + %s) %d' % (paren(a[1]), paren(b[1]), (1 << (8 * w)) - 1), w)
        if name == 'wrapping_add' and len(args) == 1 and r[0] == 'n':
            return self.ev_bin(('bin', '+', recv, args[0]), env)
        if name == 'min' and len(args) == 1 and r[0] == 'n':
            b = self.num(self.ev(args[0], env)); return ('n', 'N.min %s %s' % (paren(r[1]), paren(b[1])), r[2] or b[2])
        if name == 'max' and len(args) == 1 and r[0] == 'n':
            b = self.num(self.ev(args[0], env)); return ('n', 'N.max %s %s' % (paren(r[1]), paren(b[1])), r[2] or b[2])
        if name == 'map_err' and r[0] == 'wsplit': return r
        raise Unsupported('method .%s() on %s' % (name, r[0]))

    # ------------------------------------------------------------ statements
    def bind(self, pat, val, env):
        k = pat[0]
        if k == 'pid': env[pat[1]] = val if not pat[2] or val[0] in ('drop', 'payload', 'vecnew') else ('opaque', 'mutable local %s' % pat[1]); return
        if k == 'pwild': return
        if k == 'pstruct':
            if val[0] not in ('obj', 'sub'): raise Unsupported('struct pattern on %s' % val[0])
            S = val[2] if val[0] == 'obj' else val[4]
            if pat[1][-1] != S: raise Unsupported('pattern %s on a value of type %s' % (pat[1][-1], S))
            for f, sp in pat[2]:
                if val[0] == 'obj': fv = self.field_sym(val[1], S, f)
                else: fv = self.field_sym(val[1], val[2], val[3] + '.' + f)
                self.bind(sp, fv, env)
            return
        if k == 'ptuple':
            if val[0] != 'tuple' or len(val[1]) != len(pat[1]): raise Unsupported('tuple pattern on %s' % val[0])
            for p, v in zip(pat[1], val[1]): self.bind(p, v, env)
            return
        raise Unsupported('pattern form %s' % k)

    def pat_vars(self, pat):
        k = pat[0]
        if k == 'pid': return [pat[1]]
        if k == 'pstruct': return sum([self.pat_vars(p) for _, p in pat[2]], [])
        if k in ('ptuple', 'por'): return sum([self.pat_vars(p) for p in pat[1]], [])
        if k == 'ptstruct': return sum([self.pat_vars(p) for p in pat[2]], [])
        if k == 'pref': return self.pat_vars(pat[1])
        return []

    def exec_pure_stmt(self, st, env):
        """a statement on the way to the call (no fs call inside)"""
        if st[0] == 'let':
            pat, ty, rhs = st[1], st[2], st[3]
            hint = ty if ty and re.fullmatch(r'\w+', ty) else None
            if pat[0] == 'pstruct': hint = pat[1][-1]
            try:
                if rhs is None: raise Unsupported('let without initialiser')
                nreads = len(self.reads)
                val = self.ev_guarded(rhs, env, hint)
                self.bind(pat, val, env)
            except Unsupported as ex:
                if len(self.reads) != nreads if rhs is not None else False:
                    raise Unsupported('request read in a statement that could not be translated: %s' % ex)
                if rhs is not None and self.touches_request(rhs, env):
                    raise Unsupported('statement consumes the request in a way that is not translated: %s' % ex)
                if rhs is not None and self.has_exit(rhs):
                    raise Unsupported('statement may leave the handler (%s) in a way that is not translated: %s' % (', '.join(self.has_exit(rhs)), ex))
                for v in self.pat_vars(pat): env[v] = ('opaque', str(ex))
            return
        if st[0] == 'opaque':
            toks = st[1]
            if any(t == ('id', 'fs') for t in toks) and self.tok_has_fs(toks): raise Unsupported('filesystem call inside a statement that could not be parsed (%s)' % st[2])
            if self.tok_touches_request(toks, env): raise Unsupported('unparsed statement uses the request reader (%s)' % st[2])
            if self.tok_has_exit(toks): raise Unsupported('unparsed statement may leave the handler (%s)' % st[2])
            self.kill_assigned_tokens(toks, env); return
        e = st[1]
        if e[0] == 'macro':
            if e[1] in IGNORABLE_MACROS: return
            raise Unsupported('macro %s!' % e[1])
        if e[0] == 'if' and e[1][0] != 'let' and e[3] is None and self.diverges(e[2]):
            # guard: leaves without calling the filesystem when the condition holds
            c = self.boolean(self.ev(e[1], env))
            self.guards.append('negb %s' % paren(c[1])); return
        if e[0] == 'if' and e[1][0] == 'let' and e[1][2][0] == 'mcall' and e[1][2][2] in ('checked_mul', 'checked_add') and len(e[1][2][4]) == 1:
            # `if let Some(v) = a.checked_mul(b) { <guards> } else { <leave> }`
            pat = e[1][1]
            if not (pat[0] == 'ptstruct' and pat[1] == ['Some'] and len(pat[2]) == 1 and pat[2][0][0] == 'pid'): raise Unsupported('pattern of a checked operation')
            if e[3] is None or not self.diverges(e[3]): raise Unsupported('checked operation whose failure does not leave the handler')
            a = self.num(self.ev(e[1][2][1], env)); b = self.num(self.ev(e[1][2][4][0], env)); w = a[2] or b[2]
            if w is None: raise Unsupported('checked operation on untyped literals')
            exact = '%s %s %s' % (paren(a[1]), '*' if e[1][2][2] == 'checked_mul' else '+', paren(b[1]))
            self.guards.append('%s <=? %d' % (exact, (1 << (8 * w)) - 1))
            env2 = dict(env); env2[pat[2][0][1]] = ('n', exact, w)
            for st2 in list(e[2][1]) + ([('expr', e[2][2])] if e[2][2] is not None else []): self.exec_pure_stmt(st2, env2)
            return
        if e[0] == 'for': return self.exec_read_loop(e, env)
        if self.touches_request(e, env): raise Unsupported('statement uses the request reader in a way that is not translated')
        if self.has_exit(e): raise Unsupported('statement may leave the handler (%s) in a way that is not translated' % ', '.join(self.has_exit(e)))
        if e[0] == 'assign':
            tgt = e[2]
            while tgt[0] in ('field', 'index', 'unary'): tgt = tgt[1] if tgt[0] != 'unary' else tgt[2]
            if tgt[0] == 'path' and len(tgt[1]) == 1: env[tgt[1][0]] = ('opaque', 'assigned after its definition'); return
            raise Unsupported('assignment to a non-local')
        # any other statement: it cannot leave the handler, does not touch the request reader or the reply writer, and cannot
        # change an immutable local (`mut` locals are opaque from their definition on): it does not influence the call

    def exec_read_loop(self, e, env):
        """`for _ in 0..COUNT { v.push(ctx.r.read_obj::<T>()[.map(|f| (a, b))].map_err(..)?); }`"""
        pat, it, body = e[1], e[2], e[3]
        if pat[0] != 'pwild' or it[0] != 'range' or it[1] != ('lit', 0) or it[2] is None: raise Unsupported('loop that is not `for _ in 0..n`')
        cnt = self.num(self.ev(it[2], env))
        sts = [st[1] for st in body[1] if st[0] == 'expr'] + ([body[2]] if body[2] is not None else [])
        if len(sts) != 1 or len(sts) != len(body[1]) + (1 if body[2] is not None else 0): raise Unsupported('loop body is not a single push')
        x = sts[0]
        if not (x[0] == 'mcall' and x[2] == 'push' and len(x[4]) == 1 and x[1][0] == 'path' and len(x[1][1]) == 1): raise Unsupported('loop body is not a push')
        v = x[1][1][0]
        if env.get(v, ('',))[0] != 'vecnew': raise Unsupported('push to something that is not a fresh Vec')
        a = x[4][0]
        if a[0] != 'try': raise Unsupported('loop read without `?`')
        cur = a[1]; chain = []
        while cur[0] == 'mcall' and cur[2] in ('map', 'map_err'):
            chain.append((cur[2], cur[4])); cur = cur[1]
        if not (cur[0] == 'mcall' and cur[2] == 'read_obj' and self.is_ctx_field(cur[1], env, 'r') and cur[3] and not cur[4]): raise Unsupported('loop body does not read an object')
        T = cur[3][0]
        if not self.tr.has_struct(T): raise Unsupported('read_obj of unknown struct %s' % T)
        maps = [c for c in chain if c[0] == 'map']
        if len(maps) > 1 or len([c for c in chain if c[0] == 'map_err']) != 1: raise Unsupported('loop read chain')
        if maps:
            cl = maps[0][1][0] if len(maps[0][1]) == 1 else None
            if cl is None or cl[0] != 'closure' or len(cl[1]) != 1 or cl[1][0][0] != 'pid': raise Unsupported('map with something else than a one-parameter closure')
            env2 = dict(env); env2[cl[1][0][1]] = ('elt', T)
            ev = self.ev(cl[2], env2)
            if ev[0] != 'tuple' or len(ev[1]) != 2: raise Unsupported('loop elements are not pairs')
            ea, eb = self.num(ev[1][0])[1], self.num(ev[1][1])[1]
        else:
            fs = self.tr.structs[T]
            if len(fs) != 2 or any('int' not in t or t['signed'] for _, t in fs): raise Unsupported('element struct %s is not two unsigned integers' % T)
            ea, eb = ['rfld "%s" "%s" o' % (T, f) for f, _ in fs]
        k = self.add_read(('rep', cnt[1], T))
        env[v] = ('vec', k, ea, eb)

    def ev_guarded(self, rhs, env, hint):
        """let RHS that may be a writer split with a diverging failure arm"""
        # `match ctx.w.split_at(n) { Ok(v) => v, Err(_) => return .. }`
        if rhs[0] == 'match':
            try: sc = self.ev(rhs[1], env)
            except Unsupported: sc = ('opaque', '')
            if sc[0] == 'wsplit':
                ok = [a for a in rhs[2] if a[0][0] == 'ptstruct' and a[0][1] == ['Ok']]
                er = [a for a in rhs[2] if a[0][0] == 'ptstruct' and a[0][1] == ['Err']]
                if len(ok) == 1 and len(er) == 1 and len(rhs[2]) == 2 and self.diverges(er[0][2]) \
                        and ok[0][0][2][0][0] == 'pid' and ok[0][2] == ('path', [ok[0][0][2][0][1]], None):
                    self.guards.append('%s <=? wcap' % paren(sc[1])); return ('drop', 'the reply buffer behind the header')
                raise Unsupported('unrecognised use of ctx.w.split_at')
        if rhs[0] == 'try':
            try: sc = self.ev(rhs[1], env)
            except Unsupported: sc = ('opaque', '')
            if sc[0] == 'wsplit':
                self.guards.append('%s <=? wcap' % paren(sc[1])); return ('drop', 'the reply buffer behind the header')
        v = self.ev(rhs, env, hint)
        if v[0] == 'wsplit': raise Unsupported('ctx.w.split_at result used without a failure exit')
        return v

    def has_exit(self, e):
        """the expression may leave the function (return, `?`, panic) somewhere outside a closure"""
        found = []
        def walk(x):
            if isinstance(x, tuple):
                if not x: return
                if x[0] == 'closure': return
                if x[0] in ('return', 'try', 'break', 'continue', 'index', 'await'): found.append(x[0])
                if x[0] == 'macro' and x[1] not in IGNORABLE_MACROS: found.append('macro ' + x[1])
                if x[0] == 'mcall' and x[2] in ('unwrap', 'expect', 'unwrap_unchecked', 'unwrap_err'): found.append(x[2])
                if x[0] == 'opaque' and self.tok_has_exit(x[1]): found.append('unparsed')
                for y in x: walk(y)
            elif isinstance(x, list):
                for y in x: walk(y)
        walk(e); return found
    def tok_has_exit(self, toks):
        for i, t in enumerate(toks):
            if t in (('id', 'return'), ('p', '?'), ('id', 'break'), ('id', 'continue'), ('id', 'unwrap'), ('id', 'expect'), ('id', 'panic'),
                     ('id', 'assert'), ('id', 'unreachable'), ('id', 'assert_eq')): return True
            if t == ('p', '[') and i > 0 and (toks[i - 1][0] == 'id' or toks[i - 1][1] in (')', ']')): return True
        return False

    def diverges(self, e):
        """the expression always leaves the function (return / return through `?`-less Err)"""
        if e[0] == 'return': return True
        if e[0] == 'block':
            for st in e[1]:
                if st[0] == 'expr' and self.diverges(st[1]): return True
            return e[2] is not None and self.diverges(e[2])
        if e[0] == 'if' and e[3] is not None: return self.diverges(e[2]) and self.diverges(e[3])
        return False

    # does an expression / token run mention ctx.r, ctx.w or take_reader?
    def touches_request(self, e, env):
        found = []
        def walk(x):
            if isinstance(x, tuple):
                if x and x[0] == 'field' and x[2] in ('r', 'w') and x[1][0] == 'path' and env.get(x[1][1][0], ('',))[0] == 'srv': found.append(1)
                if x and x[0] == 'mcall' and x[2] == 'take_reader': found.append(1)
                if x and x[0] in ('macro', 'opaque'):
                    if self.tok_touches_request(x[2] if x[0] == 'macro' else x[1], env): found.append(1)
                for y in x: walk(y)
            elif isinstance(x, list):
                for y in x: walk(y)
        walk(e); return bool(found)
    def tok_touches_request(self, toks, env):
        names = [n for n, v in env.items() if v[0] == 'srv']
        for i, t in enumerate(toks):
            if t[0] == 'id' and t[1] in names and i + 2 < len(toks) and toks[i + 1][1] == '.' and toks[i + 2][1] in ('r', 'w', 'take_reader'):
                return True
        return False
    def tok_has_fs(self, toks):
        for i in range(len(toks) - 2):
            if toks[i] == ('id', 'self') and toks[i + 1][1] == '.' and toks[i + 2] == ('id', 'fs'): return True
        return False
    def kill_assigned_tokens(self, toks, env):
        for t in toks:
            if t[0] == 'id' and t[1] in env and env[t[1]][0] not in ('srv', 'self'): env[t[1]] = ('opaque', 'mentioned in a statement that could not be parsed')
    # ------------------------------------------------------------ finding and translating the call
    def has_fs_call(self, e):
        found = []
        def walk(x):
            if isinstance(x, tuple):
                if x and x[0] == 'mcall' and x[1][0] == 'field' and x[1][2] == 'fs' and x[1][1] == ('path', ['self'], None): found.append(x)
                if x and x[0] == 'opaque' and self.tok_has_fs(x[1]): found.append(x)
                if x and x[0] == 'macro' and self.tok_has_fs(x[2]): found.append(x)
                for y in x: walk(y)
            elif isinstance(x, list):
                for y in x: walk(y)
        walk(e); return found
    def has_helper_call(self, e):
        return e[0] == 'mcall' and e[1] == ('path', ['self'], None) and e[2] in self.tr.fns and e[2] != 'fs'

    def run_block(self, blk, env):
        """execute statements until the one that contains the filesystem call; -> calltree"""
        stmts = list(blk[1]) + ([('expr', blk[2])] if blk[2] is not None else [])
        for idx, st in enumerate(stmts):
            body = st[3] if st[0] == 'let' else (st[1] if st[0] == 'expr' else st)
            if body is None: self.exec_pure_stmt(st, env); continue
            is_tail = (idx == len(stmts) - 1)
            if self.has_fs_call(body) or (st[0] != 'opaque' and self.contains_helper(body)) :
                if st[0] == 'opaque': raise Unsupported('filesystem call inside a statement that could not be parsed (%s)' % st[2])
                ct = self.callsite(body, env)
                for later in stmts[idx + 1:]:
                    lb = later[3] if later[0] == 'let' else (later[1] if later[0] == 'expr' else later)
                    if lb is not None and (self.has_fs_call(lb) or (later[0] != 'opaque' and self.contains_helper(lb))):
                        raise Unsupported('more than one statement calls the filesystem')
                return ct
            # a conditional wrapper around the rest of the handler: `if let Some(req) = vu_req { .. } else { .. }` handled in callsite
            self.exec_pure_stmt(st, env)
        return ('nocall',)

    def contains_helper(self, e):
        found = []
        def walk(x):
            if isinstance(x, tuple):
                if x and self.has_helper_call(x) and self.helper_reaches_fs(x[2]): found.append(x)
                for y in x: walk(y)
            elif isinstance(x, list):
                for y in x: walk(y)
        walk(e); return bool(found)
    def helper_reaches_fs(self, name, seen=None):
        seen = seen or set()
        if name in seen or name not in self.tr.fns: return False
        seen.add(name)
        toks = self.tr.fns[name][1]
        if self.tok_has_fs(toks): return True
        for i in range(len(toks) - 2):
            if toks[i] == ('id', 'self') and toks[i + 1][1] == '.' and toks[i + 2][0] == 'id' and toks[i + 2][1] in self.tr.fns:
                if self.helper_reaches_fs(toks[i + 2][1], seen): return True
        return False

    def callsite(self, e, env):
        k = e[0]
        if k == 'mcall' and e[1][0] == 'field' and e[1][2] == 'fs' and e[1][1] == ('path', ['self'], None):
            for a in e[4]:
                if self.has_fs_call(a): raise Unsupported('nested filesystem calls')
            return self.make_call(e[2], e[4], env)
        if self.has_helper_call(e) and self.helper_reaches_fs(e[2]):
            return self.inline(e[2], e[4], env)
        if k == 'match':
            if self.has_fs_call(e[1]) or self.contains_helper(e[1]):
                if any(self.has_fs_call(b) or self.contains_helper(b) for _, _, b in e[2]): raise Unsupported('filesystem calls in the scrutinee and in an arm')
                return self.callsite(e[1], env)
            raise Unsupported('filesystem call inside a match arm')
        if k == 'if':
            c = e[1]
            if c[0] == 'let':
                if self.has_fs_call(c[2]) or self.contains_helper(c[2]):
                    if self.has_fs_call(e[2]) or (e[3] is not None and self.has_fs_call(e[3])): raise Unsupported('filesystem calls in an if-let scrutinee and in a branch')
                    return self.callsite(c[2], env)
                # `if let Some(x) = <optional handler parameter> { A } else { B }`
                sc = self.ev(c[2], env)
                if sc[0] == 'optparam' and c[1][0] == 'ptstruct' and c[1][1] == ['Some'] and len(c[1][2]) == 1 and c[1][2][0][0] == 'pid':
                    if e[3] is not None and (self.has_fs_call(e[3]) or self.contains_helper(e[3])): raise Unsupported('filesystem call in the None branch')
                    self.guards.append(sc[1])
                    env2 = dict(env); env2[c[1][2][0][1]] = ('drop', sc[2])
                    return self.run_block(e[2], env2)
                raise Unsupported('if let around the filesystem call')
            if self.has_fs_call(c): raise Unsupported('filesystem call in a condition')
            cb = self.boolean(self.ev(c, env))
            if e[3] is None: raise Unsupported('conditional filesystem call without else')
            if cb[1] == 'true': return self.run_block(e[2], dict(env))
            if cb[1] == 'false': return self.branch(e[3], env)
            r0 = list(self.reads)
            a = self.run_block(e[2], dict(env)); r1 = self.reads
            self.reads = list(r0); b = self.branch(e[3], env)
            if r1 != self.reads or len(r1) != len(r0): raise Unsupported('request reads inside a conditional')
            return ('ifcall', cb[1], a, b)
        if k == 'block': return self.run_block(e, dict(env))
        if k == 'try': return self.callsite(e[1], env)
        if k == 'mcall' and (self.has_fs_call(e[1]) or self.contains_helper(e[1])):
            if any(self.has_fs_call(a) for a in e[4]): raise Unsupported('filesystem call in a method argument')
            return self.callsite(e[1], env)
        if k == 'unary': return self.callsite(e[2], env)
        raise Unsupported('filesystem call inside expression form %s' % k)
    def branch(self, e, env):
        if e[0] == 'block': return self.run_block(e, dict(env))
        return self.callsite(e, env) if (self.has_fs_call(e) or self.contains_helper(e)) else ('nocall',)

    def inline(self, name, args, env):
        self.depth += 1
        if self.depth > 3: raise Unsupported('helper nesting too deep')
        params, btoks = self.tr.fns[name]
        params = [p for p in params if p[0] != 'self']
        if len(params) != len(args): raise Unsupported('helper %s arity' % name)
        env2 = {}
        for (pn, pty), a in zip(params, args):
            v = self.ev(a, env)
            if v[0] in ('opaque',): raise Unsupported('helper %s called with an argument that is not translated (%s)' % (name, v[1]))
            env2[pn] = v
        blk = Parser(btoks).block()
        self.notes.append('inlined helper %s' % name)
        r = self.run_block(blk, env2)
        self.depth -= 1
        return r

    def make_call(self, method, args, env):
        ctxs = None; out = []; dropped = []
        sig = self.tr.trait_sig.get(method)
        for i, a in enumerate(args):
            hint = None
            v = self.ev(a, env, hint)
            if v[0] == 'ctx':
                if ctxs is not None or i != 0: raise Unsupported('context passed twice / not first')
                ctxs = 'ctx'; continue
            if v[0] == 'n': out.append('[AN %s]' % paren(v[1]))
            elif v[0] == 'sizeof': out.append('[AN (%s)]' % self.num(v)[1])
            elif v[0] == 'b': out.append('[ABool %s]' % paren(v[1]))
            elif v[0] == 'o': out.append('[AO %s]' % paren(v[1]))
            elif v[0] == 'none': out.append('[AO None]')
            elif v[0] == 'name': out.append('[AB %s]' % paren(v[1]))
            elif v[0] == 'obj': out.append('sargs "%s" "" (dobj %d d)' % (v[2], v[1]))
            elif v[0] == 'sub': out.append('sargs "%s" "%s" (dobj %d d)' % (v[2], v[3], v[1]))
            elif v[0] == 'conv':
                tbl = self.tr.conv_table(v[2], v[3])
                if tbl is None: raise Unsupported('conversion %s -> %s is not a translated table' % (v[2], v[3]))
                out.append('conv_args %s "%s" (dobj %d d)' % (tbl, v[2], v[1]))
            elif v[0] == 'payload':
                # the filesystem is handed the rest of the request as a ZeroCopyReader together with the next argument (the size to read)
                if i + 1 >= len(args): raise Unsupported('payload reader without a size argument')
                sz = self.num(self.ev(args[i + 1], env))
                out.append('[AB (zc_payload %s rest)]' % paren(sz[1]))
            elif v[0] == 'vec': out.append('[APairs (map (fun o => (%s, %s)) (dlist %d d))]' % (v[2], v[3], v[1]))
            elif v[0] == 'drop': dropped.append('%s: %s' % (method, v[1]))
            elif v[0] == 'opaque': raise Unsupported('argument %d of fs.%s is not translated: %s' % (i + 1, method, v[1]))
            else: raise Unsupported('argument %d of fs.%s has kind %s' % (i + 1, method, v[0]))
        self.notes += dropped
        merged = []
        for o in out:
            if o.startswith('[') and merged and merged[-1].startswith('['): merged[-1] = merged[-1][:-1] + '; ' + o[1:]
            else: merged.append(o)
        arglist = ' ++ '.join(merged) if merged else '[]'
        return ('call', method, ctxs or '(0, 0, 0)', arglist)

# ============================================================================================ the translation unit
class Translation:
    def __init__(self, repo):
        self.repo = repo
        self.abi = abi_translate(repo, lenient_conv=True)
        self.structs = dict((n, fs) for n, fs in self.abi['structs'])
        self.consts = dict((n, (ty, v)) for n, ty, v, _ in self.abi['consts'])
        self.bitflags = dict((n, (ty, ms)) for n, ty, ms in self.abi['bitflags'])
        src = open(os.path.join(repo, 'src/api/server/sync_io.rs')).read()
        t = re.search(r'#\[cfg\(test\)\]\s*mod\s+tests', src)
        if t: src = src[:t.start()]
        self.fns = find_fns(src)
        msrc = open(os.path.join(repo, 'src/api/server/mod.rs')).read()
        t = re.search(r'#\[cfg\(test\)\]\s*mod\s+tests', msrc)
        if t: msrc = msrc[:t.start()]
        self.mfns = find_fns(msrc)
        # constants of src/api/server/mod.rs: the values are those of rust_server_consts (Gen/RustDispatch.v); here only name -> type
        self.sconst_ty = dict((m.group(1), m.group(2)) for m in re.finditer(r'\bconst\s+(\w+)\s*:\s*(\w+)\s*=', msrc))
        self.sconsts = set(n for n, _v in server_dispatch.translate(repo)['consts'])
        self.accessors = {}
        self.trait_sig = {}

    def has_struct(self, S): return S in self.structs
    def field_type(self, S, path):
        cur = S; ty = None
        for part in path.split('.'):
            fs = self.structs.get(cur)
            if fs is None: return None
            d = dict((f, t) for f, t in fs)
            if part not in d: return None
            ty = d[part]; cur = ty.get('named')
        return ty
    def const(self, n):
        if n in self.consts:
            ty, v = self.consts[n]
            if ty in INT_TYPES and not INT_TYPES[ty][1]: return ('n', 'rconst "%s"' % n, INT_TYPES[ty][0])
        if n in self.sconsts and self.sconst_ty.get(n) in INT_TYPES and not INT_TYPES[self.sconst_ty[n]][1]:
            return ('n', 'rsconst "%s"' % n, INT_TYPES[self.sconst_ty[n]][0])
        return None
    def bitflag(self, B, m):
        if B in self.bitflags and m in dict(self.bitflags[B][1]): return dict(self.bitflags[B][1])[m]
        return None
    def bitflag_width(self, B): return INT_TYPES[self.bitflags[B][0]][0]
    def bitflags_all(self, B): return self.bitflags.get(B)
    def conv_table(self, S, target):
        if S == 'SetattrIn' and target == 'stat64' and 'stat_of_setattr' in self.abi['conv']: return 'rust_conv_stat_of_setattr'
        return None
    def hdr_field(self, f):
        W = {'len': 4, 'opcode': 4, 'unique': 8, 'nodeid': 8, 'uid': 4, 'gid': 4, 'pid': 4}
        if f not in W or self.field_type('InHeader', f) is None: raise Unsupported('in_header.%s' % f)
        return ('n', 'h_%s h' % f, W[f])
    def accessor(self, name):
        """ctx.<name>() resolved through the body of the accessor in src/api/server/mod.rs"""
        if name in self.accessors: return self.accessors[name]
        if name not in self.mfns: return None
        params, btoks = self.mfns[name]
        if [p[0] for p in params] != ['self']: return None
        try:
            blk = Parser(btoks).block()
            if blk[1] or blk[2] is None: raise Unsupported('accessor with statements')
            h = Handler(self, '<accessor %s>' % name)
            v = h.ev(blk[2], {'self': ('srv',)})
            if h.reads or h.guards: raise Unsupported('accessor with effects')
        except Unsupported as ex:
            v = ('opaque', 'ctx.%s(): %s' % (name, ex))
        self.accessors[name] = v
        return v

    def handler(self, name):
        if name not in self.fns: raise Unsupported('handler function %s not found' % name)
        params, btoks = self.fns[name]
        h = Handler(self, name)
        env = {'self': ('self',)}
        for pn, pty in params:
            if pn == 'self': continue
            if 'SrvContext' in pty: env[pn] = ('srv',)
            elif re.match(r'Option\s*<', pty) and 'FsCacheReqHandler' in pty:
                env[pn] = ('optparam', 'cfg_vu_req cfg', 'the DAX cache request handler')
            else: env[pn] = ('opaque', 'handler parameter %s' % pn)
        blk = Parser(btoks).block()
        ct = h.run_block(blk, env)
        if any(m != len(h.reads) for m in h.rest_marks): raise Unsupported('the rest of the request is taken before the last read')
        return h, ct

def coq_calltree(ct):
    if ct[0] == 'nocall': return '[]'
    if ct[0] == 'call': return '[mk "%s" %s (%s)]' % (ct[1], ct[2], ct[3])
    if ct[0] == 'ifcall': return 'if %s then %s else %s' % (ct[1], coq_calltree(ct[2]), coq_calltree(ct[3]))
    raise TranslateError('calltree %r' % (ct,))

def coq_reads(reads):
    out = []
    for r in reads:
        if r[0] == 'obj': out.append('RObj "%s"' % r[1])
        elif r[0] == 'body': out.append('RBody %s' % paren(r[1]))
        elif r[0] == 'cstr': out.append('RCstr %d' % r[1])
        elif r[0] == 'two': out.append('RTwo %d' % r[1])
        elif r[0] == 'rep': out.append('RRep (fun d => %s) "%s"' % (r[1], r[2]))
    return '[' + '; '.join(out) + ']'

def translate(repo='/repo'):
    disp = server_dispatch.translate(repo)
    tr = Translation(repo)
    entries = []; untranslated = []
    for opnum, opname, hname, _ms in sorted(disp['dispatch']):
        try:
            h, ct = tr.handler(hname)
            methods = []
            def ms(c):
                if c[0] == 'call': methods.append(c[1])
                elif c[0] == 'ifcall': ms(c[2]); ms(c[3])
            ms(ct)
            entries.append({'op': opnum, 'opcode': opname, 'fn': hname, 'reads': coq_reads(h.reads), 'guard': ' && '.join(paren(g) for g in h.guards) or 'true',
                            'call': coq_calltree(ct), 'methods': methods, 'notes': h.notes})
        except Unsupported as ex:
            untranslated.append({'op': opnum, 'fn': hname, 'why': str(ex)})
    done = [e['fn'] for e in entries]
    lost = [n for n in EXPECTED_TRANSLATED if n not in done]
    return {'entries': entries, 'untranslated': untranslated, 'lost': lost,
            'lost_why': dict((u['fn'], u['why']) for u in untranslated if u['fn'] in lost)}

def emit_coq(t):
    L = ['(* GENERATED by translator/server_handlers.py from /repo/src/api/server/sync_io.rs (handler bodies) and mod.rs (ctx accessors) -- do not edit.',
         '   For every arm of the dispatch match: the ordered request reads of the handler, the pure tests that must hold for the',
         '   filesystem to be called, and the filesystem call as a function of the decoded request (fields read BY NAME through',
         '   the translated layouts of Gen/RustABI.v, constants through the translated constant tables). *)',
         'From Coq Require Import List String NArith Bool.',
         'From FB Require Import Lib.Bytes Lib.Layout Gen.RustABI Model.Server Model.ServerSrc.',
         'Import ListNotations.', 'Local Open Scope string_scope.', 'Local Open Scope list_scope.', 'Local Open Scope N_scope.', '']
    for e in t['entries']:
        n = '%s_%d' % (e['fn'], e['op'])
        for note in e['notes']: L.append('(* %s: %s *)' % (e['fn'], note))
        L.append('Definition src_%s_reads : list rstep := %s.' % (n, e['reads']))
        L.append('Definition src_%s_guard (cfg : config) (wcap : N) (d : list dval) (rest : bytes) : bool := %s.' % (n, e['guard']))
        L.append('Definition src_%s_call (h : hdr) (ctx : N * N * N) (d : list dval) (rest : bytes) : list call :=\n  %s.' % (n, e['call']))
        L.append('')
    L.append('Definition src_handlers : list src_entry := [')
    L.append(';\n'.join('  {| se_op := %d; se_fn := "%s"; se_reads := src_%s_%d_reads; se_guard := src_%s_%d_guard; se_call := src_%s_%d_call |}'
                        % (e['op'], e['fn'], e['fn'], e['op'], e['fn'], e['op'], e['fn'], e['op']) for e in t['entries']) + '].')
    L.append('')
    L.append('(* dispatch arms whose handler is outside the translated subset (opcode, handler function) *)')
    L.append('Definition untranslated_handlers : list (N * string) := [' + '; '.join('(%d, "%s")' % (u['op'], u['fn']) for u in t['untranslated']) + '].')
    for u in t['untranslated']: L.append('(* %s: %s *)' % (u['fn'], u['why'].replace('*)', '* )')))
    return '\n'.join(L) + '\n'

if __name__ == '__main__':
    import json
    t = translate(sys.argv[1] if len(sys.argv) > 1 else '/repo')
    if '--coq' in sys.argv: print(emit_coq(t))
    else:
        for e in t['entries']: print(e['op'], e['fn'], e['reads'], '|', e['guard'], '|', e['call'], e['notes'])
        for u in t['untranslated']: print('UNTRANSLATED', u)
        print('lost', t['lost'])
