// C04 harness, environment faults: the real FuseDevWriter on a descriptor whose write(2)/writev(2) calls are
// answered by real kernel objects chosen per call, and the real retry loops / default vectored methods of
// file_traits.rs over a scripted FileReadWriteVolatile implementation.
//
//   transport_env dev <casefile>   seed= cap= script=<verdict>,... ops=<op>;...
//        verdict (consumed one per device call, further calls are accepted):
//          K          the SOCK_SEQPACKET socket (takes the packet whole)
//          S<k>       a memfd with RLIMIT_FSIZE = size + k: the kernel writes k bytes and returns k   (k >= 1)
//          Epipe      a SOCK_STREAM socket whose peer is closed            -> EPIPE
//          Efull      /dev/full                                            -> ENOSPC
//          Eagain     a full O_NONBLOCK pipe                               -> EAGAIN
//          Ebadf      a descriptor opened read-only                        -> EBADF
//          I<errno>   injected (EINTR 4, ENODEV 19, ENOENT 2: no kernel object returns them on demand)
//        the call is routed inside the interposed write/writev below; everything else is the kernel's answer
//   transport_env ftl <casefile>   method=<loop> len= foff= script=o<n>|i|e,...
//   transport_env vec <casefile>   method=<default vectored method> lens=..,..
//   transport_env e2e <casefile>   fixed probe: chain [empty, 8 bytes] through read_to_at / write_from_at with an
//                                  implementation that relies on the default vectored methods
#![allow(clippy::all)]
use fuse_backend_rs::file_buf::FileVolatileSlice;
use fuse_backend_rs::file_traits::FileReadWriteVolatile;
use fuse_backend_rs::transport::{Error as TError, FuseDevWriter, Reader, VirtioFsWriter, Writer};
use std::cell::RefCell;
use std::fs::File;
use std::io::{self, IoSlice, Read, Seek, SeekFrom, Write};
use std::os::unix::io::{AsRawFd, FromRawFd, RawFd};
use std::panic::{catch_unwind, AssertUnwindSafe};
use std::sync::atomic::{AtomicI32, Ordering};
use virtio_queue::desc::{split::Descriptor as SplitDescriptor, RawDescriptor};
use virtio_queue::mock::MockSplitQueue;
use vm_memory::bitmap::AtomicBitmap;
use vm_memory::{GuestAddress, GuestMemoryMmap};

fn pat(seed: u64, a: u64) -> u8 {
    ((a.wrapping_mul(37).wrapping_add((a >> 8).wrapping_mul(11)).wrapping_add(seed)) & 0xff) as u8
}
fn hex(b: &[u8]) -> String {
    let mut s = String::with_capacity(b.len() * 2);
    for x in b {
        s.push_str(&format!("{:02x}", x));
    }
    s
}
fn unhex(s: &str) -> Vec<u8> {
    let s = if s == "-" { "" } else { s };
    (0..s.len() / 2).map(|i| u8::from_str_radix(&s[2 * i..2 * i + 2], 16).unwrap()).collect()
}
fn kv<'a>(line: &'a str, key: &str) -> &'a str {
    for tok in line.split_whitespace() {
        if let Some(rest) = tok.strip_prefix(key) {
            if let Some(v) = rest.strip_prefix('=') {
                return v;
            }
        }
    }
    ""
}
fn num(s: &str) -> u64 {
    s.parse::<u64>().unwrap_or_else(|_| panic!("bad number {:?}", s))
}
fn memfd(content: &[u8]) -> File {
    let fd = unsafe { libc::memfd_create(b"verif\0".as_ptr() as *const libc::c_char, 0) };
    assert!(fd >= 0);
    let mut f = unsafe { File::from_raw_fd(fd) };
    f.write_all(content).unwrap();
    f.seek(SeekFrom::Start(0)).unwrap();
    f
}

// ---- the device: interposed write/writev, routed per call ------------------------------------------------
#[derive(Clone, Debug)]
enum Verdict {
    All,
    Short(u64),
    Real(&'static str),
    Inject(i32),
}
struct Call {
    vectored: bool,
    offered: Vec<u8>,
    ret: i64, // >= 0: count, < 0: -errno
    kernel: Vec<u8>, // what the kernel object received (socket packet / memfd tail); empty for refused calls
}
struct Dev {
    script: Vec<Verdict>,
    next: usize,
    calls: Vec<Call>,
    sock_peer: RawFd,
    short_fd: RawFd,
    pipe_fd: RawFd,
    full_fd: RawFd,
    again_fd: RawFd,
    badf_fd: RawFd,
}
static DEV_FD: AtomicI32 = AtomicI32::new(-1);
thread_local! { static DEV: RefCell<Option<Dev>> = RefCell::new(None); }

unsafe fn raw_write(fd: i32, buf: *const libc::c_void, n: usize) -> isize {
    libc::syscall(libc::SYS_write, fd, buf, n) as isize
}
unsafe fn route(vectored: bool, fd: i32, iov: &[libc::iovec]) -> isize {
    let mut offered = Vec::new();
    for v in iov {
        offered.extend_from_slice(std::slice::from_raw_parts(v.iov_base as *const u8, v.iov_len));
    }
    DEV.with(|d| {
        let mut g = d.borrow_mut();
        let dev = g.as_mut().expect("device not set up");
        let v = dev.script.get(dev.next).cloned().unwrap_or(Verdict::All);
        dev.next += 1;
        let call = |target: i32| -> isize {
            if vectored {
                libc::syscall(libc::SYS_writev, target, iov.as_ptr(), iov.len()) as isize
            } else {
                raw_write(target, iov[0].iov_base, iov[0].iov_len)
            }
        };
        let mut kernel = Vec::new();
        let (ret, err) = match v {
            Verdict::All => {
                let r = call(fd);
                let e = *libc::__errno_location();
                if r >= 0 {
                    let mut buf = vec![0u8; 1 << 17];
                    let n = libc::recv(dev.sock_peer, buf.as_mut_ptr() as *mut libc::c_void, buf.len(), libc::MSG_DONTWAIT);
                    if n >= 0 {
                        kernel = buf[..n as usize].to_vec();
                    }
                }
                (r, e)
            }
            Verdict::Short(k) => {
                let size = libc::lseek(dev.short_fd, 0, libc::SEEK_END) as u64;
                let lim = libc::rlimit { rlim_cur: size + k, rlim_max: libc::RLIM_INFINITY };
                libc::setrlimit(libc::RLIMIT_FSIZE, &lim);
                let r = call(dev.short_fd);
                let e = *libc::__errno_location();
                let inf = libc::rlimit { rlim_cur: libc::RLIM_INFINITY, rlim_max: libc::RLIM_INFINITY };
                libc::setrlimit(libc::RLIMIT_FSIZE, &inf);
                if r > 0 {
                    kernel = vec![0u8; r as usize];
                    libc::pread(dev.short_fd, kernel.as_mut_ptr() as *mut libc::c_void, r as usize, size as i64);
                }
                (r, e)
            }
            Verdict::Real(k) => {
                let target = match k {
                    "pipe" => dev.pipe_fd,
                    "full" => dev.full_fd,
                    "again" => dev.again_fd,
                    _ => dev.badf_fd,
                };
                let r = call(target);
                (r, *libc::__errno_location())
            }
            Verdict::Inject(e) => (-1, e),
        };
        dev.calls.push(Call { vectored, offered, ret: if ret >= 0 { ret as i64 } else { -(err as i64) }, kernel });
        if ret < 0 {
            *libc::__errno_location() = err;
        }
        ret
    })
}
#[no_mangle]
pub unsafe extern "C" fn write(fd: libc::c_int, buf: *const libc::c_void, count: libc::size_t) -> libc::ssize_t {
    if fd >= 0 && fd == DEV_FD.load(Ordering::SeqCst) {
        let iov = [libc::iovec { iov_base: buf as *mut libc::c_void, iov_len: count }];
        return route(false, fd, &iov);
    }
    raw_write(fd, buf, count)
}
#[no_mangle]
pub unsafe extern "C" fn writev(fd: libc::c_int, iov: *const libc::iovec, iovcnt: libc::c_int) -> libc::ssize_t {
    if fd >= 0 && fd == DEV_FD.load(Ordering::SeqCst) {
        return route(true, fd, std::slice::from_raw_parts(iov, iovcnt as usize));
    }
    libc::syscall(libc::SYS_writev, fd, iov, iovcnt) as libc::ssize_t
}

fn parse_verdict(s: &str) -> Verdict {
    match s {
        "K" => Verdict::All,
        "Epipe" => Verdict::Real("pipe"),
        "Efull" => Verdict::Real("full"),
        "Eagain" => Verdict::Real("again"),
        "Ebadf" => Verdict::Real("badf"),
        _ if s.starts_with('S') => Verdict::Short(num(&s[1..])),
        _ if s.starts_with('I') => Verdict::Inject(num(&s[1..]) as i32),
        _ => panic!("verdict {}", s),
    }
}

// ---- file sources (as in transport.rs) ---------------------------------------------------------------------
struct LimSrc {
    data: Vec<u8>,
    pos: usize,
    fail: bool,
}
fn ferr() -> io::Error {
    io::Error::new(io::ErrorKind::Other, "verif-file-error")
}
impl FileReadWriteVolatile for LimSrc {
    fn read_volatile(&mut self, s: FileVolatileSlice) -> io::Result<usize> {
        self.read_vectored_volatile(&[s])
    }
    fn read_vectored_volatile(&mut self, bufs: &[FileVolatileSlice]) -> io::Result<usize> {
        if self.fail {
            return Err(ferr());
        }
        let mut n = 0;
        for b in bufs {
            let take = std::cmp::min(self.data.len() - self.pos, b.len());
            unsafe { std::ptr::copy_nonoverlapping(self.data.as_ptr().add(self.pos), b.as_ptr(), take) };
            self.pos += take;
            n += take;
        }
        Ok(n)
    }
    fn write_volatile(&mut self, _s: FileVolatileSlice) -> io::Result<usize> {
        Err(ferr())
    }
    fn read_at_volatile(&mut self, s: FileVolatileSlice, _o: u64) -> io::Result<usize> {
        self.read_vectored_volatile(&[s])
    }
    fn read_vectored_at_volatile(&mut self, bufs: &[FileVolatileSlice], _o: u64) -> io::Result<usize> {
        self.read_vectored_volatile(bufs)
    }
    fn write_at_volatile(&mut self, _s: FileVolatileSlice, _o: u64) -> io::Result<usize> {
        Err(ferr())
    }
}

fn io_err(e: &io::Error) -> String {
    let msg = format!("{}", e);
    if msg.contains("data out of range") {
        "nospace".into()
    } else if e.kind() == io::ErrorKind::UnexpectedEof {
        "eof".into()
    } else if e.kind() == io::ErrorKind::WriteZero {
        "writezero".into()
    } else if msg.contains("verif-file-error") {
        "file".into()
    } else if let Some(n) = e.raw_os_error() {
        format!("raw:{}", n)
    } else if e.kind() == io::ErrorKind::Other {
        // io::Error::other(format!("{errno}")): "EPIPE: Broken pipe"
        format!("other:{}", msg.split(':').next().unwrap_or("?").trim())
    } else {
        format!("kind:{:?}", e.kind())
    }
}
fn t_err(e: &TError) -> String {
    match e {
        TError::SplitOutOfBounds(_) => "split".into(),
        other => format!("other:{}", format!("{}", other).replace('"', "'")),
    }
}
fn ok(n: usize) -> String {
    format!("[\"ok\",{}]", n)
}
fn er(k: &str) -> String {
    format!("[\"err\",\"{}\"]", k)
}
fn split_datas(s: &str) -> Vec<Vec<u8>> {
    if s.is_empty() {
        vec![]
    } else {
        s.split('/').map(unhex).collect()
    }
}

const FBASE: u64 = 0x10000;
const MARGIN: usize = 64;

fn dev_case(line: &str) -> String {
    let seed = num(kv(line, "seed"));
    let cap = num(kv(line, "cap")) as usize;
    let script: Vec<Verdict> = kv(line, "script").split(',').filter(|s| !s.is_empty()).map(parse_verdict).collect();
    let mut arena: Vec<u8> = (0..(cap + 2 * MARGIN) as u64).map(|o| pat(seed, FBASE + o)).collect();
    let aptr = arena.as_mut_ptr();
    let alen = arena.len();
    // kernel objects
    let mut sv = [0i32; 2];
    assert_eq!(unsafe { libc::socketpair(libc::AF_UNIX, libc::SOCK_SEQPACKET, 0, sv.as_mut_ptr()) }, 0);
    let mut st = [0i32; 2];
    assert_eq!(unsafe { libc::socketpair(libc::AF_UNIX, libc::SOCK_STREAM, 0, st.as_mut_ptr()) }, 0);
    unsafe { libc::close(st[1]) }; // peer gone: EPIPE
    let short = memfd(&[]);
    let full = std::fs::OpenOptions::new().write(true).open("/dev/full").unwrap();
    let badf = File::open("/dev/null").unwrap();
    let mut pp = [0i32; 2];
    assert_eq!(unsafe { libc::pipe2(pp.as_mut_ptr(), libc::O_NONBLOCK) }, 0);
    unsafe {
        libc::fcntl(pp[1], libc::F_SETPIPE_SZ, 4096);
        let junk = [0u8; 4096];
        while raw_write(pp[1], junk.as_ptr() as *const libc::c_void, junk.len()) > 0 {}
    }
    DEV.with(|d| {
        *d.borrow_mut() = Some(Dev { script, next: 0, calls: vec![], sock_peer: sv[1], short_fd: short.as_raw_fd(), pipe_fd: st[0], full_fd: full.as_raw_fd(), again_fd: pp[1], badf_fd: badf.as_raw_fd() })
    });
    DEV_FD.store(sv[0], Ordering::SeqCst);
    let mut out: Vec<String> = Vec::new();
    {
        let buf: &mut [u8] = unsafe { std::slice::from_raw_parts_mut(aptr.add(MARGIN), cap) };
        let mut ws: Vec<Writer<'_, ()>> = vec![Writer::FuseDev(FuseDevWriter::<()>::new(sv[0], buf).unwrap())];
        out.push(format!("[{},{},{},0,0,[]]", ok(0), ws[0].available_bytes(), ws[0].bytes_written()));
        for op in kv(line, "ops").split(';').filter(|s| !s.is_empty()) {
            let f: Vec<&str> = op.split(',').collect();
            let i = num(f[1]) as usize;
            if i >= ws.len() || (f[0] == "c" && f[2].parse::<i64>().unwrap() >= ws.len() as i64) {
                out.push(format!("[{},0,0,0,0,[]]", er("noindex")));
                continue;
            }
            let before = DEV.with(|d| d.borrow().as_ref().unwrap().calls.len());
            let mut a2 = 0;
            let mut c2 = 0;
            let r = catch_unwind(AssertUnwindSafe(|| -> String {
                match f[0] {
                    "w" => match ws[i].write(&unhex(f[2])) {
                        Ok(n) => ok(n),
                        Err(e) => er(&io_err(&e)),
                    },
                    "W" => match ws[i].write_all(&unhex(f[2])) {
                        Ok(()) => ok(0),
                        Err(e) => er(&io_err(&e)),
                    },
                    "v" => {
                        let ds = split_datas(f.get(2).copied().unwrap_or(""));
                        let ios: Vec<IoSlice> = ds.iter().map(|d| IoSlice::new(d)).collect();
                        match ws[i].write_vectored(&ios) {
                            Ok(n) => ok(n),
                            Err(e) => er(&io_err(&e)),
                        }
                    }
                    "f" | "A" => {
                        let count = num(f[2]) as usize;
                        let data = unhex(f.get(4).copied().unwrap_or(""));
                        let w = match &mut ws[i] {
                            Writer::FuseDev(w) => w,
                            _ => unreachable!(),
                        };
                        if f[0] == "A" {
                            let r = match f[3] {
                                "f" => w.write_all_from(&mut memfd(&data), count),
                                _ => w.write_all_from(&mut LimSrc { data, pos: 0, fail: f[3] == "e" }, count),
                            };
                            match r {
                                Ok(()) => ok(0),
                                Err(e) => er(&io_err(&e)),
                            }
                        } else {
                            let r = match f[3] {
                                "f" => w.write_from(&mut memfd(&data), count),
                                "a" => {
                                    let mut c = vec![0xa5u8, 0xa5];
                                    c.extend_from_slice(&data);
                                    w.write_from_at(&mut memfd(&c), count, 2)
                                }
                                _ => w.write_from(&mut LimSrc { data, pos: 0, fail: f[3] == "e" }, count),
                            };
                            match r {
                                Ok(n) => ok(n),
                                Err(e) => er(&io_err(&e)),
                            }
                        }
                    }
                    "p" => match ws[i].split_at(num(f[2]) as usize) {
                        Ok(w) => {
                            a2 = w.available_bytes();
                            c2 = w.bytes_written();
                            ws.push(w);
                            ok(0)
                        }
                        Err(e) => er(&t_err(&e)),
                    },
                    "c" => {
                        let j: i64 = f[2].parse().unwrap();
                        let r = if j < 0 || j as usize == i {
                            ws[i].commit(None)
                        } else {
                            let o: *const Writer<'_, ()> = &ws[j as usize];
                            ws[i].commit(Some(unsafe { &*o }))
                        };
                        match r {
                            Ok(n) => ok(n),
                            Err(e) => er(&io_err(&e)),
                        }
                    }
                    k => panic!("dev op {}", k),
                }
            }));
            let res = match r {
                Ok(s) => s,
                Err(_) => "[\"panic\"]".to_string(),
            };
            let calls: Vec<String> = DEV.with(|d| {
                d.borrow().as_ref().unwrap().calls[before..]
                    .iter()
                    .map(|c| format!("[{},\"{}\",{},\"{}\"]", if c.vectored { 1 } else { 0 }, hex(&c.offered), c.ret, hex(&c.kernel)))
                    .collect()
            });
            out.push(format!("[{},{},{},{},{},[{}]]", res, ws[i].available_bytes(), ws[i].bytes_written(), a2, c2, calls.join(",")));
        }
    }
    DEV_FD.store(-1, Ordering::SeqCst);
    DEV.with(|d| *d.borrow_mut() = None);
    unsafe {
        libc::close(sv[0]);
        libc::close(sv[1]);
        libc::close(st[0]);
        libc::close(pp[0]);
        libc::close(pp[1]);
    }
    let v: &[u8] = unsafe { std::slice::from_raw_parts(aptr, alen) };
    let mut diffs: Vec<String> = Vec::new();
    let mut o = 0usize;
    while o < v.len() {
        if v[o] != pat(seed, FBASE + o as u64) {
            let s = o;
            while o < v.len() && v[o] != pat(seed, FBASE + o as u64) {
                o += 1;
            }
            diffs.push(format!("[{},\"{}\"]", FBASE + s as u64, hex(&v[s..o])));
        } else {
            o += 1;
        }
    }
    drop(arena);
    format!("{{\"obs\":[{}],\"mem\":[{}]}}", out.join(","), diffs.join(","))
}

// ---- file_traits.rs loops over a scripted file ----------------------------------------------------------------
#[derive(Clone, Copy)]
enum Ans {
    Ok(usize),
    Intr,
    Err,
}
struct ScriptFile {
    script: Vec<Ans>,
    next: usize,
    content: Vec<u8>, // the file
    cursor: u64,      // position used by the calls without an offset
    base: usize,      // address of the caller's slice (to report slice offsets)
    log: Vec<(usize, u64, usize)>,
    calls: usize,
    picked: Vec<usize>, // address of every slice handed to a single-buffer method
}
impl ScriptFile {
    fn one(&mut self, s: FileVolatileSlice, off: Option<u64>, read: bool) -> io::Result<usize> {
        self.calls += 1;
        self.picked.push(s.as_ptr() as usize);
        let a = self.script.get(self.next).copied().unwrap_or(Ans::Ok(0));
        self.next += 1;
        match a {
            Ans::Intr => Err(io::Error::new(io::ErrorKind::Interrupted, "verif-eintr")),
            Ans::Err => Err(ferr()),
            Ans::Ok(n) => {
                let fo = off.unwrap_or(self.cursor);
                let take = std::cmp::min(n, s.len());
                if self.content.len() < fo as usize + take {
                    self.content.resize(fo as usize + take, 0);
                }
                unsafe {
                    if read {
                        std::ptr::copy_nonoverlapping(self.content.as_ptr().add(fo as usize), s.as_ptr(), take);
                    } else {
                        std::ptr::copy_nonoverlapping(s.as_ptr() as *const u8, self.content.as_mut_ptr().add(fo as usize), take);
                    }
                }
                if off.is_none() {
                    self.cursor += take as u64;
                }
                if n > 0 && n <= s.len() {
                    self.log.push(((s.as_ptr() as usize).wrapping_sub(self.base), fo, n));
                }
                Ok(n)
            }
        }
    }
}
// only the four required methods: everything else is the trait's default code under test
impl FileReadWriteVolatile for ScriptFile {
    fn read_volatile(&mut self, s: FileVolatileSlice) -> io::Result<usize> {
        self.one(s, None, true)
    }
    fn write_volatile(&mut self, s: FileVolatileSlice) -> io::Result<usize> {
        self.one(s, None, false)
    }
    fn read_at_volatile(&mut self, s: FileVolatileSlice, o: u64) -> io::Result<usize> {
        self.one(s, Some(o), true)
    }
    fn write_at_volatile(&mut self, s: FileVolatileSlice, o: u64) -> io::Result<usize> {
        self.one(s, Some(o), false)
    }
}
fn parse_script(s: &str) -> Vec<Ans> {
    s.split(',')
        .filter(|x| !x.is_empty())
        .map(|x| match x {
            "i" => Ans::Intr,
            "e" => Ans::Err,
            _ => Ans::Ok(num(&x[1..]) as usize),
        })
        .collect()
}
const FILEPAT: u64 = 0x5000;
fn loop_err(e: &io::Error) -> &'static str {
    match e.kind() {
        io::ErrorKind::UnexpectedEof | io::ErrorKind::WriteZero => "eof",
        io::ErrorKind::Interrupted => "intr",
        _ => "err",
    }
}
fn ftl_case(line: &str) -> String {
    let seed = num(kv(line, "seed"));
    let method = kv(line, "method");
    let len = num(kv(line, "len")) as usize;
    let foff = num(kv(line, "foff"));
    let read = method.starts_with("read");
    let flen = foff as usize + len + 64;
    let content: Vec<u8> = if read { (0..flen as u64).map(|o| pat(seed, FILEPAT + o)).collect() } else { vec![0xEE; flen] };
    let mut arena: Vec<u8> = (0..(len + 2 * MARGIN) as u64).map(|o| pat(seed, FBASE + o)).collect();
    let sl = unsafe { FileVolatileSlice::from_raw_ptr(arena.as_mut_ptr().add(MARGIN), len) };
    let mut f = ScriptFile { script: parse_script(kv(line, "script")), next: 0, content, cursor: foff, base: sl.as_ptr() as usize, log: vec![], calls: 0, picked: vec![] };
    let r = catch_unwind(AssertUnwindSafe(|| match method {
        "read_exact_volatile" => f.read_exact_volatile(sl),
        "write_all_volatile" => f.write_all_volatile(sl),
        "read_exact_at_volatile" => f.read_exact_at_volatile(sl, foff),
        "write_all_at_volatile" => f.write_all_at_volatile(sl, foff),
        m => panic!("ftl method {}", m),
    }));
    let res = match r {
        Ok(Ok(())) => "ok",
        Ok(Err(e)) => loop_err(&e),
        Err(_) => "panic",
    };
    let log: Vec<String> = f.log.iter().map(|(s, o, n)| format!("[{},{},{}]", s, o, n)).collect();
    format!(
        "{{\"res\":\"{}\",\"calls\":{},\"log\":[{}],\"arena\":\"{}\",\"file\":\"{}\"}}",
        res,
        f.calls,
        log.join(","),
        hex(&arena),
        hex(&f.content[..std::cmp::min(f.content.len(), flen)])
    )
}
fn vec_case(line: &str) -> String {
    let method = kv(line, "method");
    let lens: Vec<usize> = kv(line, "lens").split(',').filter(|x| !x.is_empty()).map(|x| num(x) as usize).collect();
    let total: usize = lens.iter().sum::<usize>() + 8 * (lens.len() + 1);
    let mut arena = vec![0x11u8; total];
    let mut offs = Vec::new();
    let mut o = 8usize;
    for l in &lens {
        offs.push(o);
        o += l + 8;
    }
    let sl: Vec<FileVolatileSlice> = offs.iter().zip(&lens).map(|(o, l)| unsafe { FileVolatileSlice::from_raw_ptr(arena.as_mut_ptr().add(*o), *l) }).collect();
    let mut f = ScriptFile { script: vec![], next: 0, content: vec![0x22; total + 16], cursor: 0, base: arena.as_ptr() as usize, log: vec![], calls: 0, picked: vec![] };
    struct Full<'a>(&'a mut ScriptFile);
    impl FileReadWriteVolatile for Full<'_> {
        fn read_volatile(&mut self, s: FileVolatileSlice) -> io::Result<usize> {
            self.0.script = vec![Ans::Ok(s.len())];
            self.0.next = 0;
            self.0.one(s, None, true)
        }
        fn write_volatile(&mut self, s: FileVolatileSlice) -> io::Result<usize> {
            self.0.script = vec![Ans::Ok(s.len())];
            self.0.next = 0;
            self.0.one(s, None, false)
        }
        fn read_at_volatile(&mut self, s: FileVolatileSlice, o: u64) -> io::Result<usize> {
            self.0.script = vec![Ans::Ok(s.len())];
            self.0.next = 0;
            self.0.one(s, Some(o), true)
        }
        fn write_at_volatile(&mut self, s: FileVolatileSlice, o: u64) -> io::Result<usize> {
            self.0.script = vec![Ans::Ok(s.len())];
            self.0.next = 0;
            self.0.one(s, Some(o), false)
        }
    }
    let r = {
        let mut ff = Full(&mut f);
        match method {
            "read_vectored_volatile" => ff.read_vectored_volatile(&sl),
            "write_vectored_volatile" => ff.write_vectored_volatile(&sl),
            "read_vectored_at_volatile" => ff.read_vectored_at_volatile(&sl, 3),
            "write_vectored_at_volatile" => ff.write_vectored_at_volatile(&sl, 3),
            m => panic!("vec method {}", m),
        }
    };
    let picked: Vec<String> = f
        .picked
        .iter()
        .map(|p| {
            let idx = offs.iter().position(|o| arena.as_ptr() as usize + *o == *p);
            match idx {
                Some(i) => i.to_string(),
                None => "-1".to_string(),
            }
        })
        .collect();
    format!("{{\"res\":{},\"picked\":[{}]}}", match r { Ok(n) => n as i64, Err(_) => -1 }, picked.join(","))
}

// ---- end to end: a chain whose first descriptor is empty, a file object that relies on the default vectored methods
struct DfltFile {
    data: Vec<u8>,
    got: Vec<u8>,
}
impl FileReadWriteVolatile for DfltFile {
    fn read_volatile(&mut self, s: FileVolatileSlice) -> io::Result<usize> {
        self.read_at_volatile(s, 0)
    }
    fn write_volatile(&mut self, s: FileVolatileSlice) -> io::Result<usize> {
        self.write_at_volatile(s, 0)
    }
    fn read_at_volatile(&mut self, s: FileVolatileSlice, o: u64) -> io::Result<usize> {
        let o = std::cmp::min(o as usize, self.data.len());
        let n = std::cmp::min(self.data.len() - o, s.len());
        unsafe { std::ptr::copy_nonoverlapping(self.data.as_ptr().add(o), s.as_ptr(), n) };
        Ok(n)
    }
    fn write_at_volatile(&mut self, s: FileVolatileSlice, _o: u64) -> io::Result<usize> {
        let sl = unsafe { std::slice::from_raw_parts(s.as_ptr() as *const u8, s.len()) };
        self.got.extend_from_slice(sl);
        Ok(s.len())
    }
}
fn e2e_case(line: &str) -> String {
    type GM = GuestMemoryMmap<AtomicBitmap>;
    let first = num(kv(line, "first")) as u32; // length of the first descriptor of each direction (0 = the case of interest)
    let mem: GM = GuestMemoryMmap::from_ranges(&[(GuestAddress(0), 0x4000), (GuestAddress(0x100000), 0x4000)]).unwrap();
    let descs: Vec<RawDescriptor> = vec![
        RawDescriptor::from(SplitDescriptor::new(0x100000, first, 0, 0)),
        RawDescriptor::from(SplitDescriptor::new(0x100100, 8, 0, 0)),
        RawDescriptor::from(SplitDescriptor::new(0x101000, first, 2, 0)),
        RawDescriptor::from(SplitDescriptor::new(0x101100, 8, 2, 0)),
    ];
    let vq = MockSplitQueue::create(&mem, GuestAddress(0), 16);
    let chain = vq.build_desc_chain(&descs).expect("build_desc_chain");
    let mut rd = <Reader>::from_descriptor_chain(&mem, chain.clone()).unwrap();
    let mut wr = <VirtioFsWriter>::new(&mem, chain.clone()).unwrap();
    let ra = rd.available_bytes();
    let wa = wr.available_bytes();
    let mut sink = DfltFile { data: vec![], got: vec![] };
    let r1 = rd.read_to_at(&mut sink, 8, 0).map(|n| n as i64).unwrap_or(-1);
    let r1b = rd.read_to(&mut sink, 8).map(|n| n as i64).unwrap_or(-1);
    let mut src = DfltFile { data: vec![7u8; 8], got: vec![] };
    let w1 = wr.write_from_at(&mut src, 8, 0).map(|n| n as i64).unwrap_or(-1);
    let w1b = wr.write_from(&mut src, 8).map(|n| n as i64).unwrap_or(-1);
    format!("{{\"reader_avail\":{},\"read_to_at\":{},\"then_read_to\":{},\"writer_avail\":{},\"write_from_at\":{},\"then_write_from\":{}}}", ra, r1, r1b, wa, w1, w1b)
}

fn main() {
    let args: Vec<String> = std::env::args().collect();
    if args.len() < 3 {
        eprintln!("usage: transport_env dev|ftl|vec|e2e <casefile>");
        std::process::exit(2);
    }
    unsafe {
        libc::signal(libc::SIGXFSZ, libc::SIG_IGN);
        libc::signal(libc::SIGPIPE, libc::SIG_IGN);
    }
    std::panic::set_hook(Box::new(|_| {}));
    let mut text = String::new();
    File::open(&args[2]).expect("case file").read_to_string(&mut text).unwrap();
    let stdout = io::stdout();
    let mut lock = stdout.lock();
    for line in text.lines() {
        if line.trim().is_empty() {
            continue;
        }
        let r = catch_unwind(AssertUnwindSafe(|| match args[1].as_str() {
            "dev" => dev_case(line),
            "ftl" => ftl_case(line),
            "vec" => vec_case(line),
            "e2e" => e2e_case(line),
            k => panic!("subcommand {}", k),
        }));
        match r {
            Ok(s) => writeln!(lock, "{}", s).unwrap(),
            Err(_) => writeln!(lock, "{{\"harness_panic\":true}}").unwrap(),
        }
    }
}
