// Scripted backends mounted in a real `Vfs`; histories of mount / umount / init / requests /
// save+restore are read from a case file, one observation line is printed per step.
//
// Input (whitespace separated tokens, one step per line):
//   CASE <id> <gmap i e r | -> <rm_root 0|1> <no_open 0|1> <no_opendir 0|1> [<no_writeback> <killpriv_v2> <no_readdir> <seal_size>]
//   M <bid> <path> <i e r | -> <err> <root_ino> <uid> <gid> <tag> <max_ino> <init_err>
//   U <path>
//   I <opts>                      (FileSystem::init on the Vfs)   each backend answers init with <ierr>: I <opts> <ierr>
//   D                             (FileSystem::destroy)
//   R [W:]<op> (W: = through Arc<Vfs>; a<op>/y<op> = AsyncFileSystem method, y = backend futures pending once)
//   R <op> <hdr> <uid> <gid> <ino> <ino2> <name> <name2> <auid> <agid> <size> <offset> <limit>
//       A <err> <e.ino> <e.stino> <e.uid> <e.gid> <e.tag> <a.ino> <a.uid> <a.gid> <a.tag> <tag> <n> {<d.ino> <d.name> <e.ino> <e.stino> <e.uid> <e.gid> <e.tag>}*
//   S <ver 1|2> <fresh same|default>      (feature persist) save, restore into a fresh Vfs, re-attach, continue on it
//   Q                             (dump bookkeeping: options / initialized)
//   END
// Output: `CASE <id>` then one line per step:
//   <result tokens> { # <bid> <method> <ino> <ino2> <cuid> <cgid> <suid> <sgid> }*
// result: `ok <ints..>` | `err <variant> <errno>` | `panic`.  errno -1 = io::Error without OS code.
#![allow(clippy::all, unused_variables)]
use fuse_backend_rs::abi::fuse_abi::{stat64, statvfs64, CreateIn, FsOptions, OpenOptions, SetattrValid};
use fuse_backend_rs::api::filesystem::{
    Context, DirEntry, Entry, FileLock, FileSystem, GetxattrReply, IoctlData, ListxattrReply, ZeroCopyReader,
    ZeroCopyWriter,
};
use fuse_backend_rs::api::{BackendFileSystem, Vfs, VfsOptions};
use fuse_backend_rs::file_traits::FileReadWriteVolatile;
use fuse_backend_rs::transport::FsCacheReqHandler;
use std::any::Any;
use std::ffi::{CStr, CString};
use std::io::{self, BufRead, Read, Write};
use std::panic::{catch_unwind, AssertUnwindSafe};
use std::sync::{Arc, Mutex};
use std::time::Duration;

#[derive(Clone, Default, Debug)]
struct EntA {
    ino: u64,
    stino: u64,
    uid: u32,
    gid: u32,
    tag: u64,
}
#[derive(Clone, Default, Debug)]
struct Ans {
    err: i32,
    ent: EntA,
    attr: EntA, // stino unused; ino = st_ino
    tag: u64,
    dir: Vec<(u64, String, EntA)>,
}
#[derive(Clone, Default, Debug)]
struct MountAns {
    err: i32,
    ino: u64,
    uid: u32,
    gid: u32,
    tag: u64,
    max: u64,
    init_err: i32,
}
#[derive(Clone, Debug)]
struct Ev {
    bid: u64,
    method: &'static str,
    ino: u64,
    ino2: u64,
    cuid: u32,
    cgid: u32,
    suid: u32,
    sgid: u32,
}
#[derive(Default)]
struct Shared {
    cur: Mutex<Ans>,
    log: Mutex<Vec<Ev>>,
    init_err: Mutex<Option<i32>>, // Some(e) while a Vfs::init step runs: every backend answers e
    yield_once: std::sync::atomic::AtomicBool, // async backend methods return Pending once before answering
}

struct Backend {
    bid: u64,
    sh: Arc<Shared>,
    mnt: MountAns,
}

fn mk_stat(ino: u64, uid: u32, gid: u32, tag: u64) -> stat64 {
    let mut st: stat64 = unsafe { std::mem::zeroed() };
    st.st_ino = ino;
    st.st_uid = uid;
    st.st_gid = gid;
    st.st_size = tag as i64;
    st.st_mode = libc::S_IFDIR | 0o755;
    st
}
fn mk_entry(e: &EntA) -> Entry {
    Entry {
        inode: e.ino,
        generation: e.tag ^ 0x5a5a,
        attr: mk_stat(e.stino, e.uid, e.gid, e.tag),
        attr_flags: 0,
        attr_timeout: Duration::from_secs(7),
        entry_timeout: Duration::from_secs(9),
    }
}
fn oserr(e: i32) -> io::Error {
    if e < 0 {
        io::Error::other("scripted non-os error")
    } else {
        io::Error::from_raw_os_error(e)
    }
}

impl Backend {
    fn ev(&self, method: &'static str, ctx: Option<&Context>, ino: u64, ino2: u64, suid: u32, sgid: u32) {
        let (cuid, cgid) = ctx.map(|c| (c.uid, c.gid)).unwrap_or((0, 0));
        self.sh.log.lock().unwrap().push(Ev { bid: self.bid, method, ino, ino2, cuid, cgid, suid, sgid });
    }
    fn ans(&self) -> Ans {
        self.sh.cur.lock().unwrap().clone()
    }
    fn unit(&self, method: &'static str, ctx: &Context, ino: u64) -> io::Result<u64> {
        self.ev(method, Some(ctx), ino, 0, 0, 0);
        let a = self.ans();
        if a.err != 0 {
            Err(oserr(a.err))
        } else {
            Ok(a.tag)
        }
    }
    fn entry(&self, method: &'static str, ctx: &Context, ino: u64, ino2: u64) -> io::Result<Entry> {
        self.ev(method, Some(ctx), ino, ino2, 0, 0);
        let a = self.ans();
        if a.err != 0 {
            Err(oserr(a.err))
        } else {
            Ok(mk_entry(&a.ent))
        }
    }
}

impl FileSystem for Backend {
    type Inode = u64;
    type Handle = u64;
    fn init(&self, capable: FsOptions) -> io::Result<FsOptions> {
        self.ev("init", None, capable.bits(), 0, 0, 0);
        let e = self.sh.init_err.lock().unwrap().unwrap_or(self.mnt.init_err);
        if e != 0 {
            Err(oserr(e))
        } else {
            Ok(capable)
        }
    }
    fn destroy(&self) {
        self.ev("destroy", None, 0, 0, 0, 0);
    }
    fn lookup(&self, ctx: &Context, parent: u64, name: &CStr) -> io::Result<Entry> {
        self.entry("lookup", ctx, parent, 0)
    }
    fn forget(&self, ctx: &Context, inode: u64, count: u64) {
        self.ev("forget", Some(ctx), inode, 0, 0, 0);
    }
    fn getattr(&self, ctx: &Context, inode: u64, handle: Option<u64>) -> io::Result<(stat64, Duration)> {
        self.ev("getattr", Some(ctx), inode, 0, 0, 0);
        let a = self.ans();
        if a.err != 0 {
            return Err(oserr(a.err));
        }
        Ok((mk_stat(a.attr.ino, a.attr.uid, a.attr.gid, a.attr.tag), Duration::from_secs(5)))
    }
    fn setattr(&self, ctx: &Context, inode: u64, attr: stat64, handle: Option<u64>, valid: SetattrValid) -> io::Result<(stat64, Duration)> {
        self.ev("setattr", Some(ctx), inode, 0, attr.st_uid, attr.st_gid);
        let a = self.ans();
        if a.err != 0 {
            return Err(oserr(a.err));
        }
        Ok((mk_stat(a.attr.ino, a.attr.uid, a.attr.gid, a.attr.tag), Duration::from_secs(5)))
    }
    fn readlink(&self, ctx: &Context, inode: u64) -> io::Result<Vec<u8>> {
        self.unit("readlink", ctx, inode).map(|t| t.to_le_bytes().to_vec())
    }
    fn symlink(&self, ctx: &Context, linkname: &CStr, parent: u64, name: &CStr) -> io::Result<Entry> {
        self.entry("symlink", ctx, parent, 0)
    }
    fn mknod(&self, ctx: &Context, inode: u64, name: &CStr, mode: u32, rdev: u32, umask: u32) -> io::Result<Entry> {
        self.entry("mknod", ctx, inode, 0)
    }
    fn mkdir(&self, ctx: &Context, parent: u64, name: &CStr, mode: u32, umask: u32) -> io::Result<Entry> {
        self.entry("mkdir", ctx, parent, 0)
    }
    fn unlink(&self, ctx: &Context, parent: u64, name: &CStr) -> io::Result<()> {
        self.unit("unlink", ctx, parent).map(|_| ())
    }
    fn rmdir(&self, ctx: &Context, parent: u64, name: &CStr) -> io::Result<()> {
        self.unit("rmdir", ctx, parent).map(|_| ())
    }
    fn rename(&self, ctx: &Context, olddir: u64, oldname: &CStr, newdir: u64, newname: &CStr, flags: u32) -> io::Result<()> {
        self.ev("rename", Some(ctx), olddir, newdir, 0, 0);
        let a = self.ans();
        if a.err != 0 {
            Err(oserr(a.err))
        } else {
            Ok(())
        }
    }
    fn link(&self, ctx: &Context, inode: u64, newparent: u64, newname: &CStr) -> io::Result<Entry> {
        self.entry("link", ctx, inode, newparent)
    }
    fn open(&self, ctx: &Context, inode: u64, flags: u32, fuse_flags: u32) -> io::Result<(Option<u64>, OpenOptions, Option<u32>)> {
        self.unit("open", ctx, inode).map(|t| (Some(t), OpenOptions::empty(), None))
    }
    fn create(&self, ctx: &Context, parent: u64, name: &CStr, args: CreateIn) -> io::Result<(Entry, Option<u64>, OpenOptions, Option<u32>)> {
        let a = self.ans();
        self.entry("create", ctx, parent, 0).map(|e| (e, Some(a.tag), OpenOptions::empty(), None))
    }
    fn read(&self, ctx: &Context, inode: u64, handle: u64, w: &mut dyn ZeroCopyWriter, size: u32, offset: u64, lock_owner: Option<u64>, flags: u32) -> io::Result<usize> {
        self.unit("read", ctx, inode).map(|t| t as usize)
    }
    fn write(&self, ctx: &Context, inode: u64, handle: u64, r: &mut dyn ZeroCopyReader, size: u32, offset: u64, lock_owner: Option<u64>, delayed_write: bool, flags: u32, fuse_flags: u32) -> io::Result<usize> {
        self.unit("write", ctx, inode).map(|t| t as usize)
    }
    fn flush(&self, ctx: &Context, inode: u64, handle: u64, lock_owner: u64) -> io::Result<()> {
        self.unit("flush", ctx, inode).map(|_| ())
    }
    fn fsync(&self, ctx: &Context, inode: u64, datasync: bool, handle: u64) -> io::Result<()> {
        self.unit("fsync", ctx, inode).map(|_| ())
    }
    fn fallocate(&self, ctx: &Context, inode: u64, handle: u64, mode: u32, offset: u64, length: u64) -> io::Result<()> {
        self.unit("fallocate", ctx, inode).map(|_| ())
    }
    fn release(&self, ctx: &Context, inode: u64, flags: u32, handle: u64, flush: bool, flock_release: bool, lock_owner: Option<u64>) -> io::Result<()> {
        self.unit("release", ctx, inode).map(|_| ())
    }
    fn statfs(&self, ctx: &Context, inode: u64) -> io::Result<statvfs64> {
        self.unit("statfs", ctx, inode).map(|t| {
            let mut st: statvfs64 = unsafe { std::mem::zeroed() };
            st.f_blocks = t;
            st
        })
    }
    fn setxattr(&self, ctx: &Context, inode: u64, name: &CStr, value: &[u8], flags: u32) -> io::Result<()> {
        self.unit("setxattr", ctx, inode).map(|_| ())
    }
    fn getxattr(&self, ctx: &Context, inode: u64, name: &CStr, size: u32) -> io::Result<GetxattrReply> {
        self.unit("getxattr", ctx, inode).map(|t| GetxattrReply::Count(t as u32))
    }
    fn listxattr(&self, ctx: &Context, inode: u64, size: u32) -> io::Result<ListxattrReply> {
        self.unit("listxattr", ctx, inode).map(|t| ListxattrReply::Count(t as u32))
    }
    fn removexattr(&self, ctx: &Context, inode: u64, name: &CStr) -> io::Result<()> {
        self.unit("removexattr", ctx, inode).map(|_| ())
    }
    fn opendir(&self, ctx: &Context, inode: u64, flags: u32) -> io::Result<(Option<u64>, OpenOptions)> {
        self.unit("opendir", ctx, inode).map(|t| (Some(t), OpenOptions::empty()))
    }
    fn readdir(&self, ctx: &Context, inode: u64, handle: u64, size: u32, offset: u64, add_entry: &mut dyn FnMut(DirEntry) -> io::Result<usize>) -> io::Result<()> {
        self.ev("readdir", Some(ctx), inode, 0, 0, 0);
        let a = self.ans();
        if a.err != 0 {
            return Err(oserr(a.err));
        }
        let mut off = offset;
        for (dino, name, _e) in a.dir.iter() {
            off += 1;
            match add_entry(DirEntry { ino: *dino, offset: off, type_: 0, name: name.as_bytes() }) {
                Ok(0) => break,
                Ok(_) => {}
                Err(e) => return Err(e),
            }
        }
        Ok(())
    }
    fn readdirplus(&self, ctx: &Context, inode: u64, handle: u64, size: u32, offset: u64, add_entry: &mut dyn FnMut(DirEntry, Entry) -> io::Result<usize>) -> io::Result<()> {
        self.ev("readdirplus", Some(ctx), inode, 0, 0, 0);
        let a = self.ans();
        if a.err != 0 {
            return Err(oserr(a.err));
        }
        let mut off = offset;
        for (dino, name, e) in a.dir.iter() {
            off += 1;
            match add_entry(DirEntry { ino: *dino, offset: off, type_: 0, name: name.as_bytes() }, mk_entry(e)) {
                Ok(0) => break,
                Ok(_) => {}
                Err(e) => return Err(e),
            }
        }
        Ok(())
    }
    fn fsyncdir(&self, ctx: &Context, inode: u64, datasync: bool, handle: u64) -> io::Result<()> {
        self.unit("fsyncdir", ctx, inode).map(|_| ())
    }
    fn releasedir(&self, ctx: &Context, inode: u64, flags: u32, handle: u64) -> io::Result<()> {
        self.unit("releasedir", ctx, inode).map(|_| ())
    }
    fn setupmapping(&self, ctx: &Context, inode: u64, handle: u64, foffset: u64, len: u64, flags: u64, moffset: u64, vu_req: &mut dyn FsCacheReqHandler) -> io::Result<()> {
        self.unit("setupmapping", ctx, inode).map(|_| ())
    }
    fn removemapping(&self, ctx: &Context, inode: u64, requests: Vec<fuse_backend_rs::abi::virtio_fs::RemovemappingOne>, vu_req: &mut dyn FsCacheReqHandler) -> io::Result<()> {
        self.unit("removemapping", ctx, inode).map(|_| ())
    }
    fn access(&self, ctx: &Context, inode: u64, mask: u32) -> io::Result<()> {
        self.unit("access", ctx, inode).map(|_| ())
    }
    fn lseek(&self, ctx: &Context, inode: u64, handle: u64, offset: u64, whence: u32) -> io::Result<u64> {
        self.unit("lseek", ctx, inode)
    }
    fn getlk(&self, ctx: &Context, inode: u64, handle: u64, owner: u64, lock: FileLock, flags: u32) -> io::Result<FileLock> {
        self.unit("getlk", ctx, inode).map(|_| lock)
    }
    fn setlk(&self, ctx: &Context, inode: u64, handle: u64, owner: u64, lock: FileLock, flags: u32) -> io::Result<()> {
        self.unit("setlk", ctx, inode).map(|_| ())
    }
    fn setlkw(&self, ctx: &Context, inode: u64, handle: u64, owner: u64, lock: FileLock, flags: u32) -> io::Result<()> {
        self.unit("setlkw", ctx, inode).map(|_| ())
    }
    fn ioctl(&self, ctx: &Context, inode: u64, handle: u64, flags: u32, cmd: u32, data: IoctlData, out_size: u32) -> io::Result<IoctlData<'_>> {
        self.unit("ioctl", ctx, inode).map(|_| IoctlData::default())
    }
    fn bmap(&self, ctx: &Context, inode: u64, block: u64, blocksize: u32) -> io::Result<u64> {
        self.unit("bmap", ctx, inode)
    }
    fn poll(&self, ctx: &Context, inode: u64, handle: u64, khandle: u64, flags: u32, events: u32) -> io::Result<u32> {
        self.unit("poll", ctx, inode).map(|t| t as u32)
    }
    fn notify_reply(&self) -> io::Result<()> {
        self.ev("notify_reply", None, 0, 0, 0, 0);
        Ok(())
    }
}

impl BackendFileSystem for Backend {
    fn mount(&self) -> io::Result<(Entry, u64)> {
        self.ev("mount", None, 0, 0, 0, 0);
        if self.mnt.err != 0 {
            return Err(oserr(self.mnt.err));
        }
        let e = EntA { ino: self.mnt.ino, stino: self.mnt.ino, uid: self.mnt.uid, gid: self.mnt.gid, tag: self.mnt.tag };
        Ok((mk_entry(&e), self.mnt.max))
    }
    fn as_any(&self) -> &dyn Any {
        self
    }
}

struct NullIo;
impl Read for NullIo {
    fn read(&mut self, _b: &mut [u8]) -> io::Result<usize> {
        Ok(0)
    }
}
impl Write for NullIo {
    fn write(&mut self, b: &[u8]) -> io::Result<usize> {
        Ok(b.len())
    }
    fn flush(&mut self) -> io::Result<()> {
        Ok(())
    }
}
impl ZeroCopyReader for NullIo {
    fn read_to(&mut self, _f: &mut dyn FileReadWriteVolatile, _c: usize, _o: u64) -> io::Result<usize> {
        Ok(0)
    }
}
impl ZeroCopyWriter for NullIo {
    fn write_from(&mut self, _f: &mut dyn FileReadWriteVolatile, _c: usize, _o: u64) -> io::Result<usize> {
        Ok(0)
    }
    fn available_bytes(&self) -> usize {
        0
    }
}
struct NullCache;
impl FsCacheReqHandler for NullCache {
    fn map(&mut self, _f: u64, _m: u64, _l: u64, _fl: u64, _fd: std::os::unix::io::RawFd) -> io::Result<()> {
        Ok(())
    }
    fn unmap(&mut self, _r: Vec<fuse_backend_rs::abi::virtio_fs::RemovemappingOne>) -> io::Result<()> {
        Ok(())
    }
}


// ------------------------------------------------------------------ the async twin (feature async-io)
// The scripted backends answer the async trait methods exactly like the sync ones, but log them with an "a:" tag, so the
// call log shows WHICH trait method the Vfs called.
#[cfg(feature = "async-io")]
mod asyncfs {
    use super::*;
    use async_trait::async_trait;
    use fuse_backend_rs::api::filesystem::{AsyncFileSystem, AsyncZeroCopyReader, AsyncZeroCopyWriter};
    use fuse_backend_rs::file_traits::AsyncFileReadWriteVolatile;
    use std::sync::atomic::Ordering;

    // a future that is Pending exactly once (wakes itself): a real suspension at the await point inside the Vfs method
    pub struct YieldOnce(pub bool);
    impl std::future::Future for YieldOnce {
        type Output = ();
        fn poll(mut self: std::pin::Pin<&mut Self>, cx: &mut std::task::Context<'_>) -> std::task::Poll<()> {
            if self.0 {
                std::task::Poll::Ready(())
            } else {
                self.0 = true;
                cx.waker().wake_by_ref();
                std::task::Poll::Pending
            }
        }
    }
    pub fn block_on<F: std::future::Future>(f: F) -> F::Output {
        use std::task::{Context as TCx, Poll, RawWaker, RawWakerVTable, Waker};
        fn noop(_: *const ()) {}
        fn clone(_: *const ()) -> RawWaker {
            RawWaker::new(std::ptr::null(), &VT)
        }
        static VT: RawWakerVTable = RawWakerVTable::new(clone, noop, noop, noop);
        let waker = unsafe { Waker::from_raw(RawWaker::new(std::ptr::null(), &VT)) };
        let mut cx = TCx::from_waker(&waker);
        let mut f = Box::pin(f);
        let mut spins = 0u32;
        loop {
            match f.as_mut().poll(&mut cx) {
                Poll::Ready(v) => return v,
                Poll::Pending => {
                    spins += 1;
                    if spins > 1000 {
                        panic!("future never became ready");
                    }
                }
            }
        }
    }

    #[async_trait(?Send)]
    impl AsyncZeroCopyReader for NullIo {
        async fn async_read_to(&mut self, _f: Arc<dyn AsyncFileReadWriteVolatile>, _c: usize, _o: u64) -> io::Result<usize> {
            Ok(0)
        }
    }
    #[async_trait(?Send)]
    impl AsyncZeroCopyWriter for NullIo {
        async fn async_write_from(&mut self, _f: Arc<dyn AsyncFileReadWriteVolatile>, _c: usize, _o: u64) -> io::Result<usize> {
            Ok(0)
        }
    }

    impl Backend {
        async fn pause(&self) {
            if self.sh.yield_once.load(Ordering::SeqCst) {
                YieldOnce(false).await;
            }
        }
    }

    #[async_trait]
    impl AsyncFileSystem for Backend {
        async fn async_lookup(&self, ctx: &Context, parent: u64, _name: &CStr) -> io::Result<Entry> {
            self.pause().await;
            self.entry("a:lookup", ctx, parent, 0)
        }
        async fn async_getattr(&self, ctx: &Context, inode: u64, _handle: Option<u64>) -> io::Result<(stat64, Duration)> {
            self.pause().await;
            self.ev("a:getattr", Some(ctx), inode, 0, 0, 0);
            let a = self.ans();
            if a.err != 0 {
                return Err(oserr(a.err));
            }
            Ok((mk_stat(a.attr.ino, a.attr.uid, a.attr.gid, a.attr.tag), Duration::from_secs(5)))
        }
        async fn async_setattr(&self, ctx: &Context, inode: u64, attr: stat64, _handle: Option<u64>, _valid: SetattrValid) -> io::Result<(stat64, Duration)> {
            self.pause().await;
            self.ev("a:setattr", Some(ctx), inode, 0, attr.st_uid, attr.st_gid);
            let a = self.ans();
            if a.err != 0 {
                return Err(oserr(a.err));
            }
            Ok((mk_stat(a.attr.ino, a.attr.uid, a.attr.gid, a.attr.tag), Duration::from_secs(5)))
        }
        async fn async_open(&self, ctx: &Context, inode: u64, _flags: u32, _fuse_flags: u32) -> io::Result<(Option<u64>, OpenOptions)> {
            self.pause().await;
            self.unit("a:open", ctx, inode).map(|t| (Some(t), OpenOptions::empty()))
        }
        async fn async_create(&self, ctx: &Context, parent: u64, _name: &CStr, _args: CreateIn) -> io::Result<(Entry, Option<u64>, OpenOptions)> {
            self.pause().await;
            let a = self.ans();
            self.entry("a:create", ctx, parent, 0).map(|e| (e, Some(a.tag), OpenOptions::empty()))
        }
        async fn async_read(&self, ctx: &Context, inode: u64, _handle: u64, _w: &mut (dyn AsyncZeroCopyWriter + Send), _size: u32, _offset: u64, _lock_owner: Option<u64>, _flags: u32) -> io::Result<usize> {
            self.pause().await;
            self.unit("a:read", ctx, inode).map(|t| t as usize)
        }
        async fn async_write(&self, ctx: &Context, inode: u64, _handle: u64, _r: &mut (dyn AsyncZeroCopyReader + Send), _size: u32, _offset: u64, _lock_owner: Option<u64>, _delayed_write: bool, _flags: u32, _fuse_flags: u32) -> io::Result<usize> {
            self.pause().await;
            self.unit("a:write", ctx, inode).map(|t| t as usize)
        }
        async fn async_fsync(&self, ctx: &Context, inode: u64, _datasync: bool, _handle: u64) -> io::Result<()> {
            self.pause().await;
            self.unit("a:fsync", ctx, inode).map(|_| ())
        }
        async fn async_fallocate(&self, ctx: &Context, inode: u64, _handle: u64, _mode: u32, _offset: u64, _length: u64) -> io::Result<()> {
            self.pause().await;
            self.unit("a:fallocate", ctx, inode).map(|_| ())
        }
        async fn async_fsyncdir(&self, ctx: &Context, inode: u64, _datasync: bool, _handle: u64) -> io::Result<()> {
            self.pause().await;
            self.unit("a:fsyncdir", ctx, inode).map(|_| ())
        }
    }

    // request kinds a<op> (backend futures always ready) and y<op> (every backend future Pending once)
    pub fn do_async<F>(vfs: &F, sh: &Arc<Shared>, op: &str, ctx: &Context, ino: u64, name: &CStr, auid: u32, agid: u32, size: u32, offset: u64) -> Option<String>
    where
        F: AsyncFileSystem<Handle = u64> + Sync,
        F::Inode: From<u64>,
    {
        use fuse_backend_rs::api::filesystem::AsyncFileSystem as A;
        let (yield_once, base) = match op.split_at(1) {
            ("a", b) => (false, b),
            ("y", b) => (true, b),
            _ => return None,
        };
        sh.yield_once.store(yield_once, Ordering::SeqCst);
        let unit = |r: io::Result<()>| fmt_io(r, |_| String::from("0"));
        let out = match base {
            "lookup" => fmt_io(block_on(A::async_lookup(vfs, ctx, ino.into(), name)), |e| fmt_entry(&e)),
            "getattr" => fmt_io(block_on(A::async_getattr(vfs, ctx, ino.into(), None)), |(a, _)| fmt_attr(&a)),
            "setattr" => {
                let st = mk_stat(0, auid, agid, 0);
                fmt_io(block_on(A::async_setattr(vfs, ctx, ino.into(), st, None, SetattrValid::from_bits_truncate(size))), |(a, _)| fmt_attr(&a))
            }
            "open" => fmt_io(block_on(A::async_open(vfs, ctx, ino.into(), 0, 0)), |(h, _)| format!("{}", h.unwrap_or(0))),
            "create" => fmt_io(block_on(A::async_create(vfs, ctx, ino.into(), name, CreateIn::default())), |(e, _, _)| fmt_entry(&e)),
            "read" => fmt_io(block_on(A::async_read(vfs, ctx, ino.into(), 1, &mut NullIo, size, offset, None, 0)), |n| format!("{}", n)),
            "write" => fmt_io(block_on(A::async_write(vfs, ctx, ino.into(), 1, &mut NullIo, size, offset, None, false, 0, 0)), |n| format!("{}", n)),
            "fsync" => unit(block_on(A::async_fsync(vfs, ctx, ino.into(), false, 1))),
            "fallocate" => unit(block_on(A::async_fallocate(vfs, ctx, ino.into(), 1, 0, offset, 1))),
            "fsyncdir" => unit(block_on(A::async_fsyncdir(vfs, ctx, ino.into(), false, 1))),
            _ => return None,
        };
        sh.yield_once.store(false, Ordering::SeqCst);
        Some(out)
    }
}

// ------------------------------------------------------------------ driver
fn name_bytes(tok: &str) -> CString {
    // "BADk" = a non-UTF-8 name; "EMPTY" = empty name; everything else literal
    if let Some(k) = tok.strip_prefix("BAD") {
        let mut v = vec![0xffu8, 0xfe];
        v.extend_from_slice(k.as_bytes());
        CString::new(v).unwrap()
    } else if tok == "EMPTY" {
        CString::new("").unwrap()
    } else {
        CString::new(tok).unwrap()
    }
}
fn errno_of(e: &io::Error) -> i64 {
    e.raw_os_error().map(|x| x as i64).unwrap_or(-1)
}
fn fmt_io<T>(r: io::Result<T>, f: impl FnOnce(T) -> String) -> String {
    match r {
        Ok(v) => format!("ok {}", f(v)),
        Err(e) => format!("err 0 {}", errno_of(&e)),
    }
}
fn fmt_entry(e: &Entry) -> String {
    format!("{} {} {} {} {}", e.inode, e.attr.st_ino, e.attr.st_uid, e.attr.st_gid, e.attr.st_size as u64)
}
fn fmt_attr(a: &stat64) -> String {
    format!("{} {} {} {}", a.st_ino, a.st_uid, a.st_gid, a.st_size as u64)
}

struct Cfg {
    gmap: Option<(u32, u32, u32)>,
    rm_root: bool,
    no_open: bool,
    no_opendir: bool,
    no_writeback: bool,
    killpriv_v2: bool,
    no_readdir: bool,
    seal_size: bool,
}
fn new_vfs(cfg: &Cfg, default_opts: bool) -> Vfs {
    let mut o = VfsOptions::default();
    if !default_opts {
        if let Some(m) = cfg.gmap {
            o.id_mapping = m;
        }
        o.no_open = cfg.no_open;
        o.no_opendir = cfg.no_opendir;
        o.no_writeback = cfg.no_writeback;
        o.killpriv_v2 = cfg.killpriv_v2;
        o.no_readdir = cfg.no_readdir;
        o.seal_size = cfg.seal_size;
    }
    let mut v = Vfs::new(o);
    if cfg.rm_root {
        v.set_remove_pseudo_root();
    }
    v
}
struct Live {
    pino: u64,
    path: String,
    bid: u64,
    idx: u8,
    mnt: MountAns,
}

fn p<T: std::str::FromStr>(t: &[&str], i: usize) -> T
where
    T::Err: std::fmt::Debug,
{
    t[i].parse::<T>().unwrap_or_else(|_| {
        eprintln!("vfs harness: bad token {} at {} in {:?}", t[i], i, t);
        std::process::exit(3)
    })
}
fn pmap(t: &[&str], i: usize) -> (Option<(u32, u32, u32)>, usize) {
    if t[i] == "-" {
        (None, i + 1)
    } else {
        (Some((p(t, i), p(t, i + 1), p(t, i + 2))), i + 3)
    }
}

#[cfg(feature = "async-io")]
trait FsUnderTest: asyncfs_bound::Bound {}
#[cfg(feature = "async-io")]
impl<T: asyncfs_bound::Bound> FsUnderTest for T {}
#[cfg(not(feature = "async-io"))]
trait FsUnderTest: FileSystem<Handle = u64> {}
#[cfg(not(feature = "async-io"))]
impl<T: FileSystem<Handle = u64>> FsUnderTest for T {}
#[cfg(feature = "async-io")]
mod asyncfs_bound {
    pub trait Bound: fuse_backend_rs::api::filesystem::AsyncFileSystem<Handle = u64> + Sync {}
    impl<T: fuse_backend_rs::api::filesystem::AsyncFileSystem<Handle = u64> + Sync> Bound for T {}
}

// the file system under test is the Vfs itself or Arc<Vfs> (the way a Server holds it: every method then goes through the
// blanket `impl FileSystem for Arc<FS>` / `impl AsyncFileSystem for Arc<FS>` forwarders)
fn do_req<F>(vfs: &F, sh: &Arc<Shared>, t: &[&str]) -> String
where
    F: FsUnderTest,
    F::Inode: From<u64>,
{
    let op = t[1].trim_start_matches("W:");
    let hdr: u64 = p(t, 2);
    let mut ctx = Context { uid: p(t, 3), gid: p(t, 4), pid: 77 };
    let ino: u64 = p(t, 5);
    let ino2: u64 = p(t, 6);
    let name = name_bytes(t[7]);
    let name2 = name_bytes(t[8]);
    let auid: u32 = p(t, 9);
    let agid: u32 = p(t, 10);
    let size: u32 = p(t, 11);
    let offset: u64 = p(t, 12);
    let limit: usize = p(t, 13);
    assert_eq!(t[14], "A");
    let mut a = Ans::default();
    a.err = p(t, 15);
    a.ent = EntA { ino: p(t, 16), stino: p(t, 17), uid: p(t, 18), gid: p(t, 19), tag: p(t, 20) };
    a.attr = EntA { ino: p(t, 21), stino: 0, uid: p(t, 22), gid: p(t, 23), tag: p(t, 24) };
    a.tag = p(t, 25);
    let n: usize = p(t, 26);
    let mut j = 27;
    for _ in 0..n {
        a.dir.push((p(t, j), t[j + 1].to_string(), EntA { ino: p(t, j + 2), stino: p(t, j + 3), uid: p(t, j + 4), gid: p(t, j + 5), tag: p(t, j + 6) }));
        j += 7;
    }
    *sh.cur.lock().unwrap() = a;
    // what Server::handle_message does before dispatch (src/api/server/sync_io.rs: remap_ctx_ids)
    if op != "raw" {
        if let Err(e) = vfs.id_remap_with_nodeid(&mut ctx, hdr.into()) {
            return format!("err 9 {}", errno_of(&e));
        }
    }
    let ctx = &ctx;
    #[cfg(feature = "async-io")]
    if let Some(out) = asyncfs::do_async(vfs, sh, op, ctx, ino, &name, auid, agid, size, offset) {
        return out;
    }
    let unit = |r: io::Result<()>| fmt_io(r, |_| String::from("0"));
    match op {
        "lookup" => fmt_io(vfs.lookup(ctx, ino.into(), &name), |e| fmt_entry(&e)),
        "forget" => {
            vfs.forget(ctx, ino.into(), 1);
            String::from("ok 0")
        }
        "batch_forget" => {
            vfs.batch_forget(ctx, vec![(ino.into(), 1), (ino2.into(), 2)]);
            String::from("ok 0")
        }
        "getattr" => fmt_io(vfs.getattr(ctx, ino.into(), None), |(a, _)| fmt_attr(&a)),
        "setattr" => {
            let st = mk_stat(0, auid, agid, 0);
            // the <size> token carries the FATTR_* valid bits of a SETATTR (MODE 1, UID 2, GID 4, SIZE 8, ...)
            fmt_io(vfs.setattr(ctx, ino.into(), st, None, SetattrValid::from_bits_truncate(size)), |(a, _)| fmt_attr(&a))
        }
        "readlink" => fmt_io(vfs.readlink(ctx, ino.into()), |v| format!("{}", u64::from_le_bytes(v[..8].try_into().unwrap()))),
        "symlink" => fmt_io(vfs.symlink(ctx, &name2, ino.into(), &name), |e| fmt_entry(&e)),
        "mknod" => fmt_io(vfs.mknod(ctx, ino.into(), &name, 0o644, 0, 0), |e| fmt_entry(&e)),
        "mkdir" => fmt_io(vfs.mkdir(ctx, ino.into(), &name, 0o755, 0), |e| fmt_entry(&e)),
        "create" => fmt_io(vfs.create(ctx, ino.into(), &name, CreateIn::default()), |(e, _, _, _)| fmt_entry(&e)),
        "unlink" => unit(vfs.unlink(ctx, ino.into(), &name)),
        "rmdir" => unit(vfs.rmdir(ctx, ino.into(), &name)),
        "rename" => unit(vfs.rename(ctx, ino.into(), &name, ino2.into(), &name2, 0)),
        "link" => fmt_io(vfs.link(ctx, ino.into(), ino2.into(), &name), |e| fmt_entry(&e)),
        "open" => fmt_io(vfs.open(ctx, ino.into(), 0, 0), |(h, _, _)| format!("{}", h.unwrap_or(0))),
        "read" => fmt_io(vfs.read(ctx, ino.into(), 1, &mut NullIo, size, offset, None, 0), |n| format!("{}", n)),
        "write" => fmt_io(vfs.write(ctx, ino.into(), 1, &mut NullIo, size, offset, None, false, 0, 0), |n| format!("{}", n)),
        "flush" => unit(vfs.flush(ctx, ino.into(), 1, 2)),
        "fsync" => unit(vfs.fsync(ctx, ino.into(), false, 1)),
        "fallocate" => unit(vfs.fallocate(ctx, ino.into(), 1, 0, offset, 1)),
        "release" => unit(vfs.release(ctx, ino.into(), 0, 1, false, false, None)),
        "statfs" => fmt_io(vfs.statfs(ctx, ino.into()), |s| format!("{}", s.f_blocks)),
        "setxattr" => unit(vfs.setxattr(ctx, ino.into(), &name, b"v", 0)),
        "getxattr" => fmt_io(vfs.getxattr(ctx, ino.into(), &name, size), |r| match r {
            GetxattrReply::Count(c) => format!("{}", c),
            GetxattrReply::Value(_) => String::from("0"),
        }),
        "listxattr" => fmt_io(vfs.listxattr(ctx, ino.into(), size), |r| match r {
            ListxattrReply::Count(c) => format!("{}", c),
            ListxattrReply::Names(_) => String::from("0"),
        }),
        "removexattr" => unit(vfs.removexattr(ctx, ino.into(), &name)),
        "opendir" => fmt_io(vfs.opendir(ctx, ino.into(), 0), |(h, _)| format!("{}", h.unwrap_or(0))),
        "fsyncdir" => unit(vfs.fsyncdir(ctx, ino.into(), false, 1)),
        "releasedir" => unit(vfs.releasedir(ctx, ino.into(), 0, 1)),
        "access" => unit(vfs.access(ctx, ino.into(), 0)),
        "setupmapping" => unit(vfs.setupmapping(ctx, ino.into(), 1, 0, 1, 0, 0, &mut NullCache)),
        "removemapping" => unit(vfs.removemapping(ctx, ino.into(), Vec::new(), &mut NullCache)),
        "lseek" => fmt_io(vfs.lseek(ctx, ino.into(), 1, offset, 0), |v| format!("{}", v)),
        "getlk" => unit(vfs.getlk(ctx, ino.into(), 1, 2, FileLock { start: 0, end: 1, lock_type: 0, pid: 0 }, 0).map(|_| ())),
        "setlk" => unit(vfs.setlk(ctx, ino.into(), 1, 2, FileLock { start: 0, end: 1, lock_type: 0, pid: 0 }, 0)),
        "setlkw" => unit(vfs.setlkw(ctx, ino.into(), 1, 2, FileLock { start: 0, end: 1, lock_type: 0, pid: 0 }, 0)),
        "ioctl" => unit(vfs.ioctl(ctx, ino.into(), 1, 0, 0, IoctlData::default(), 0).map(|_| ())),
        "bmap" => fmt_io(vfs.bmap(ctx, ino.into(), 0, 512), |v| format!("{}", v)),
        "poll" => fmt_io(vfs.poll(ctx, ino.into(), 1, 2, 0, 0), |v| format!("{}", v)),
        "notify_reply" => unit(vfs.notify_reply()),
        "readdir" => {
            let mut out: Vec<String> = Vec::new();
            let mut cnt = 0usize;
            let r = vfs.readdir(ctx, ino.into(), 1, size, offset, &mut |d: DirEntry| {
                if cnt >= limit {
                    return Ok(0);
                }
                cnt += 1;
                out.push(format!("{} {} {}", d.ino, String::from_utf8_lossy(d.name), d.offset));
                Ok(1)
            });
            fmt_io(r, |_| format!("{} {}", out.len(), out.join(" ")))
        }
        "readdirplus" => {
            let mut out: Vec<String> = Vec::new();
            let mut cnt = 0usize;
            let r = vfs.readdirplus(ctx, ino.into(), 1, size, offset, &mut |d: DirEntry, e: Entry| {
                if cnt >= limit {
                    return Ok(0);
                }
                cnt += 1;
                out.push(format!("{} {} {} {}", d.ino, String::from_utf8_lossy(d.name), d.offset, fmt_entry(&e)));
                Ok(1)
            });
            fmt_io(r, |_| format!("{} {}", out.len(), out.join(" ")))
        }
        _ => panic!("unknown op {}", op),
    }
}

fn vfs_err(e: fuse_backend_rs::api::vfs::VfsError) -> String {
    use fuse_backend_rs::api::vfs::VfsError::*;
    match e {
        Unsupported => String::from("err 1 0"),
        Mount(e) => format!("err 2 {}", errno_of(&e)),
        RestoreMount(e) => format!("err 3 {}", errno_of(&e)),
        InodeIndex(_) => String::from("err 4 0"),
        FsIndex(e) => format!("err 5 {}", errno_of(&e)),
        PathWalk(e) => format!("err 6 {}", errno_of(&e)),
        NotFound(_) => String::from("err 7 0"),
        Initialize(_) => String::from("err 8 0"),
        Persist(_) => String::from("err 10 0"),
    }
}

fn dump_state(vfs: &Vfs) -> String {
    let o = vfs.options();
    format!(
        "ok {} {} {} {} {} {} {} {} {} {} {} {}",
        vfs.initialized() as u8,
        o.in_opts.bits(),
        o.out_opts.bits(),
        o.no_open as u8,
        o.no_opendir as u8,
        o.no_readdir as u8,
        o.no_writeback as u8,
        o.killpriv_v2 as u8,
        o.seal_size as u8,
        o.id_mapping.0,
        o.id_mapping.1,
        o.id_mapping.2
    )
}

#[cfg(feature = "persist")]
fn save_restore(vfs: &Vfs, cfg: &Cfg, ver: u32, default_opts: bool, live: &[&Live], sh: &Arc<Shared>) -> Result<(Vfs, String), String> {
    let mut buf = if ver == 2 {
        vfs.save_to_bytes().map_err(vfs_err)?
    } else {
        #[cfg(fuse_backend_rs_verif)]
        {
            vfs.verif_save_to_bytes_at(ver as u16).map_err(vfs_err)?
        }
        #[cfg(not(fuse_backend_rs_verif))]
        {
            return Err(String::from("err 1 0"));
        }
    };
    let nv = new_vfs(cfg, default_opts);
    nv.restore_from_bytes(&mut buf).map_err(vfs_err)?;
    let mut out = vec![format!("{}", live.len())];
    for l in live {
        let b = Backend { bid: l.bid, sh: sh.clone(), mnt: l.mnt.clone() };
        match nv.restore_mount(Box::new(b), l.idx, &l.path) {
            Ok(()) => out.push(format!("{} {} {} 0", l.bid, l.idx, l.path)),
            Err(e) => out.push(format!("{} {} {} {}", l.bid, l.idx, l.path, errno_of(&e))),
        }
    }
    Ok((nv, format!("ok {}", out.join(" "))))
}

fn main() {
    if std::env::var("VFS_PANIC_MSG").is_err() { std::panic::set_hook(Box::new(|_| {})); }
    let args: Vec<String> = std::env::args().collect();
    let f: Box<dyn BufRead> = if args.len() > 1 { Box::new(io::BufReader::new(std::fs::File::open(&args[1]).unwrap())) } else { Box::new(io::BufReader::new(io::stdin())) };
    let stdout = io::stdout();
    let mut w = io::BufWriter::new(stdout.lock());
    let mut vfs: Option<Arc<Vfs>> = None; // held the way a Server holds it
    let mut cfg = Cfg { gmap: None, rm_root: false, no_open: true, no_opendir: true, no_writeback: false, killpriv_v2: false, no_readdir: false, seal_size: false };
    let sh = Arc::new(Shared::default());
    let mut live: Vec<Live> = Vec::new();
    let mut dead = false; // after a panic the rest of the history is skipped
    for line in f.lines() {
        let line = line.unwrap();
        let t: Vec<&str> = line.split_whitespace().collect();
        if t.is_empty() {
            continue;
        }
        if t[0] == "CASE" {
            let (gmap, i) = pmap(&t, 2);
            let fl = |k: usize| t.len() > i + k && t[i + k] == "1";
            cfg = Cfg { gmap, rm_root: fl(0), no_open: fl(1), no_opendir: fl(2), no_writeback: fl(3), killpriv_v2: fl(4), no_readdir: fl(5), seal_size: fl(6) };
            vfs = Some(Arc::new(new_vfs(&cfg, false)));
            live.clear();
            dead = false;
            writeln!(w, "CASE {}", t[1]).unwrap();
            w.flush().unwrap();
            continue;
        }
        if t[0] == "END" {
            vfs = None;
            continue;
        }
        if dead {
            writeln!(w, "skipped").unwrap();
            w.flush().unwrap();
            continue;
        }
        sh.log.lock().unwrap().clear();
        *sh.init_err.lock().unwrap() = None;
        let va: &Arc<Vfs> = vfs.as_ref().unwrap();
        let v: &Vfs = va;
        #[allow(unused_mut)]
        let mut replace: Option<Vfs> = None;
        let res = catch_unwind(AssertUnwindSafe(|| -> String {
            match t[0] {
                "M" => {
                    let bid: u64 = p(&t, 1);
                    let path = t[2];
                    let (map, i) = pmap(&t, 3);
                    let mnt = MountAns { err: p(&t, i), ino: p(&t, i + 1), uid: p(&t, i + 2), gid: p(&t, i + 3), tag: p(&t, i + 4), max: p(&t, i + 5), init_err: p(&t, i + 6) };
                    let b = Backend { bid, sh: sh.clone(), mnt: mnt.clone() };
                    let r = if t.len() > i + 7 && t[i + 7] == "plain" { v.mount(Box::new(b), path) } else { v.mount_with_id_mapping(Box::new(b), path, map) };
                    match r {
                        Ok(idx) => {
                            let pino = v.get_root_pseudofs().path_walk(path).ok().flatten().unwrap_or(0);
                            live.retain(|l| l.pino != pino);
                            live.push(Live { pino, path: path.to_string(), bid, idx, mnt });
                            live.sort_by_key(|l| l.idx);
                            format!("ok {} {}", idx, pino)
                        }
                        Err(e) => vfs_err(e),
                    }
                }
                "U" => match v.umount(t[1]) {
                    Ok((i, pa)) => {
                        live.retain(|l| l.pino != i);
                        format!("ok {} {}", i, pa)
                    }
                    Err(e) => vfs_err(e),
                },
                "I" => {
                    *sh.init_err.lock().unwrap() = Some(p(&t, 2));
                    let o: u64 = p(&t, 1);
                    fmt_io(v.init(FsOptions::from_bits_truncate(o)), |o| format!("{}", o.bits()))
                }
                "D" => {
                    v.destroy();
                    String::from("ok 0")
                }
                "Q" => dump_state(v),
                // W:<op>: through Arc<Vfs> (blanket impl FileSystem / AsyncFileSystem for Arc<FS>), else on the Vfs itself
                "R" if t[1].starts_with("W:") => do_req(va, &sh, &t),
                "R" => do_req(v, &sh, &t),
                "S" => {
                    #[cfg(feature = "persist")]
                    {
                        // live mounts = last successful mount per index that is still attached, in index order;
                        // an optional fourth token selects which of them are re-attached and in which order
                        // ("2,0,1": positions in that list; "none": no backend is re-attached)
                        let sel: Vec<&Live> = if t.len() > 3 {
                            if t[3] == "none" { Vec::new() } else { t[3].split(',').map(|x| &live[x.parse::<usize>().unwrap()]).collect() }
                        } else {
                            live.iter().collect()
                        };
                        match save_restore(v, &cfg, p(&t, 1), t[2] == "default", &sel, &sh) {
                            Ok((nv, s)) => {
                                replace = Some(nv);
                                s
                            }
                            Err(s) => s,
                        }
                    }
                    #[cfg(not(feature = "persist"))]
                    {
                        String::from("err 1 0")
                    }
                }
                _ => panic!("unknown step {}", t[0]),
            }
        }));
        if let Some(nv) = replace {
            vfs = Some(Arc::new(nv));
        }
        let mut line = match res {
            Ok(s) => s,
            Err(_) => {
                dead = true;
                String::from("panic")
            }
        };
        for e in sh.log.lock().unwrap().iter() {
            line.push_str(&format!(" # {} {} {} {} {} {} {} {}", e.bid, e.method, e.ino, e.ino2, e.cuid, e.cgid, e.suid, e.sgid));
        }
        writeln!(w, "{}", line).unwrap();
        w.flush().unwrap();
    }
}
