// C10/C11 harness: materialise layer trees in scratch directories, build a real OverlayFs over
// PassthroughFs layers, apply a history of path-addressed operations and print what a client sees.
//
// usage: overlay <cases-file> <scratch-dir>
// input (one item per line):
//   case <id> upper=<0|1> nlow=<n> names=a,b,.. restart=<0|1>
//   ent <layer> D <path|.> <permhex> [xname=hexval ...]
//   ent <layer> F <path> <permhex> <hexbytes|-> [xname=hexval ...]
//   ent <layer> L <path> <hextarget>
//   ent <layer> W <path>
//   op <dump 0|1> <kind> args...
//   end
// output: lines `case`, `raw <layer> <ser>`, `view <ser>`, `op <i> <errno> [payload]`, `view`, `restart`, `upper`,
//   `lowerchg <i> <layer> <ser>`, `end`.
#![allow(clippy::all)]
use fuse_backend_rs::abi::fuse_abi::CreateIn;
use fuse_backend_rs::abi::fuse_abi::FsOptions;
use fuse_backend_rs::api::filesystem::{
    Context, FileSystem, GetxattrReply, Layer, ListxattrReply, SetattrValid,
};
use fuse_backend_rs::overlayfs::config::Config;
use fuse_backend_rs::overlayfs::OverlayFs;
use fuse_backend_rs::passthrough::{self, PassthroughFs};
use std::ffi::{CStr, CString};
use std::fs::File;
use std::io::{BufRead, Read, Seek, SeekFrom, Write};
use std::os::unix::ffi::OsStrExt;
use std::os::unix::fs::{MetadataExt, PermissionsExt};
use std::os::unix::io::FromRawFd;
use std::panic::{catch_unwind, AssertUnwindSafe};
use std::path::{Path, PathBuf};
use std::sync::Arc;

type BoxedLayer = Box<dyn Layer<Inode = u64, Handle = u64> + Send + Sync>;
const ROOT: u64 = 1;
const OPAQUE_NAMES: [&str; 3] = [
    "user.fuseoverlayfs.opaque",
    "trusted.overlay.opaque",
    "user.overlay.opaque",
];

fn hex(b: &[u8]) -> String {
    let mut s = String::with_capacity(b.len() * 2);
    for x in b {
        s.push_str(&format!("{:02x}", x));
    }
    s
}
fn unhex(s: &str) -> Vec<u8> {
    if s == "-" {
        return vec![];
    }
    (0..s.len() / 2)
        .map(|i| u8::from_str_radix(&s[2 * i..2 * i + 2], 16).unwrap())
        .collect()
}
fn cstr(s: &str) -> CString {
    CString::new(s).unwrap()
}
fn errno(e: &std::io::Error) -> i32 {
    e.raw_os_error().unwrap_or(9999)
}
fn memfd() -> File {
    let fd = unsafe { libc::memfd_create(b"ovl\0".as_ptr() as *const libc::c_char, 0) };
    assert!(fd >= 0);
    unsafe { File::from_raw_fd(fd) }
}

// ---------------------------------------------------------------- host side
fn host_xattrs(p: &Path) -> Vec<(String, Vec<u8>)> {
    let cp = CString::new(p.as_os_str().as_bytes()).unwrap();
    let mut buf = vec![0u8; 4096];
    let n = unsafe { libc::llistxattr(cp.as_ptr(), buf.as_mut_ptr() as *mut libc::c_char, buf.len()) };
    let mut out = vec![];
    if n <= 0 {
        return out;
    }
    for name in buf[..n as usize].split(|c| *c == 0) {
        if name.is_empty() {
            continue;
        }
        let cn = CString::new(name).unwrap();
        let mut v = vec![0u8; 4096];
        let m = unsafe {
            libc::lgetxattr(cp.as_ptr(), cn.as_ptr(), v.as_mut_ptr() as *mut libc::c_void, v.len())
        };
        if m >= 0 {
            v.truncate(m as usize);
            out.push((String::from_utf8_lossy(name).into_owned(), v));
        }
    }
    out.sort();
    out
}
fn ser_xattrs(xs: &[(String, Vec<u8>)]) -> String {
    if xs.is_empty() {
        return String::new();
    }
    let mut s = String::from("[");
    for (k, v) in xs {
        s.push_str(&format!("{}={},", k, hex(v)));
    }
    s.push(']');
    s
}
fn raw_dump(p: &Path) -> String {
    let md = match std::fs::symlink_metadata(p) {
        Ok(m) => m,
        Err(e) => return format!("!err{}", errno(&e)),
    };
    let mode = md.mode();
    let perm = mode & 0o7777;
    match mode & libc::S_IFMT {
        libc::S_IFDIR => {
            let mut names: Vec<_> = std::fs::read_dir(p)
                .map(|it| it.filter_map(|e| e.ok()).map(|e| e.file_name()).collect())
                .unwrap_or_default();
            names.sort();
            let mut s = format!("d{:x}{}(", perm, ser_xattrs(&host_xattrs(p)));
            for n in names {
                s.push_str(&format!("{}={},", n.to_string_lossy(), raw_dump(&p.join(&n))));
            }
            s.push(')');
            s
        }
        libc::S_IFREG => {
            let data = std::fs::read(p).unwrap_or_default();
            format!("f{:x}{}:{}", perm, ser_xattrs(&host_xattrs(p)), hexd(&data))
        }
        libc::S_IFLNK => {
            let t = std::fs::read_link(p).map(|t| t.as_os_str().as_bytes().to_vec()).unwrap_or_default();
            format!("l:{}", hex(&t))
        }
        libc::S_IFCHR if md.rdev() == 0 => "w".to_string(),
        _ => format!("?{:x}", mode),
    }
}
// owner, group and modification time of every entry below p (what raw_dump does not print): a lower layer must keep them too
fn meta_dump(p: &Path) -> String {
    let md = match std::fs::symlink_metadata(p) {
        Ok(m) => m,
        Err(e) => return format!("!err{}", errno(&e)),
    };
    let mut s = format!("{}:{}:{}.{}:{:o}", md.uid(), md.gid(), md.mtime(), md.mtime_nsec(), md.mode());
    if md.mode() & libc::S_IFMT == libc::S_IFDIR {
        let mut names: Vec<_> = std::fs::read_dir(p)
            .map(|it| it.filter_map(|e| e.ok()).map(|e| e.file_name()).collect())
            .unwrap_or_default();
        names.sort();
        s.push('(');
        for n in names {
            s.push_str(&format!("{}={},", n.to_string_lossy(), meta_dump(&p.join(&n))));
        }
        s.push(')');
    }
    s
}
fn set_xattr(p: &Path, k: &str, v: &[u8]) {
    let cp = CString::new(p.as_os_str().as_bytes()).unwrap();
    let ck = cstr(k);
    let r = unsafe { libc::lsetxattr(cp.as_ptr(), ck.as_ptr(), v.as_ptr() as *const libc::c_void, v.len(), 0) };
    assert!(r == 0, "setxattr {:?} {} failed: {}", p, k, std::io::Error::last_os_error());
}
fn materialise(root: &Path, w: &[&str]) {
    // w = [kind, path, ...]
    let p = if w[1] == "." { root.to_path_buf() } else { root.join(w[1]) };
    match w[0] {
        "D" => {
            if w[1] != "." {
                std::fs::create_dir(&p).unwrap();
            }
            let perm = u32::from_str_radix(w[2], 16).unwrap();
            std::fs::set_permissions(&p, std::fs::Permissions::from_mode(perm)).unwrap();
            for kv in &w[3..] {
                let (k, v) = kv.split_once('=').unwrap();
                set_xattr(&p, k, &unhex(v));
            }
        }
        "F" => {
            std::fs::write(&p, unhex(w[3])).unwrap();
            let perm = u32::from_str_radix(w[2], 16).unwrap();
            std::fs::set_permissions(&p, std::fs::Permissions::from_mode(perm)).unwrap();
            for kv in &w[4..] {
                let (k, v) = kv.split_once('=').unwrap();
                set_xattr(&p, k, &unhex(v));
            }
        }
        "B" => {
            // big file: ent <layer> B <path> <permhex> <size>  (byte i = (i * 31 + 7) % 251)
            let n: usize = w[3].parse().unwrap();
            let data: Vec<u8> = (0..n).map(|i| ((i * 31 + 7) % 251) as u8).collect();
            std::fs::write(&p, data).unwrap();
            let perm = u32::from_str_radix(w[2], 16).unwrap();
            std::fs::set_permissions(&p, std::fs::Permissions::from_mode(perm)).unwrap();
        }
        "L" => {
            let t = unhex(w[2]);
            std::os::unix::fs::symlink(std::ffi::OsStr::from_bytes(&t), &p).unwrap();
        }
        "W" => {
            let cp = CString::new(p.as_os_str().as_bytes()).unwrap();
            let r = unsafe { libc::mknod(cp.as_ptr(), libc::S_IFCHR | 0o600, libc::makedev(0, 0)) };
            assert!(r == 0, "mknod whiteout failed: {}", std::io::Error::last_os_error());
        }
        _ => panic!("bad ent kind"),
    }
}

// ---------------------------------------------------------------- overlay side
// cfg letters (case header `cfg=...`): configuration cells switched on and negotiated through init():
//   o no_open  d no_opendir  w writeback  k killpriv_v2  r no_readdir  a cache_policy=Always  n cache_policy=Never
//   x perfile_dax  m do_import=false (everything the client offers is taken)  L the layers negotiate no_open/no_opendir too
//   i init() is called at all (implied by every other letter except r, a, n)
// file contents longer than 64 KiB are printed as #<length>:<FNV-1a 64>
fn hexd(b: &[u8]) -> String {
    if b.len() <= 65536 {
        return hex(b);
    }
    let mut h: u64 = 0xcbf29ce484222325;
    for x in b {
        h ^= *x as u64;
        h = h.wrapping_mul(0x100000001b3);
    }
    format!("#{}:{:x}", b.len(), h)
}
fn new_layer(dir: &Path, cfg: &str) -> std::io::Result<Arc<BoxedLayer>> {
    let mut config = passthrough::Config::default();
    config.root_dir = dir.to_string_lossy().into_owned();
    config.xattr = true;
    config.do_import = true;
    if cfg.contains('L') {
        config.no_open = true;
        config.no_opendir = true;
    }
    let fs = Box::new(PassthroughFs::<()>::new(config)?);
    fs.import()?;
    if cfg.contains('L') {
        fs.init(FsOptions::ZERO_MESSAGE_OPEN | FsOptions::ZERO_MESSAGE_OPENDIR)?;
    }
    Ok(Arc::new(fs as BoxedLayer))
}
fn new_overlay(dirs: &[PathBuf], has_upper: bool, cfg: &str) -> std::io::Result<OverlayFs> {
    let mut lowers = vec![];
    let mut upper = None;
    for (i, d) in dirs.iter().enumerate() {
        let l = new_layer(d, cfg)?;
        if i == 0 && has_upper {
            upper = Some(l);
        } else {
            lowers.push(l);
        }
    }
    let mut config = Config::default();
    config.do_import = !cfg.contains('m');
    config.no_open = cfg.contains('o');
    config.no_opendir = cfg.contains('d');
    config.writeback = cfg.contains('w');
    config.killpriv_v2 = cfg.contains('k');
    config.no_readdir = cfg.contains('r');
    config.perfile_dax = cfg.contains('x');
    if cfg.contains('a') {
        config.cache_policy = fuse_backend_rs::overlayfs::CachePolicy::Always;
    }
    if cfg.contains('n') {
        config.cache_policy = fuse_backend_rs::overlayfs::CachePolicy::Never;
    }
    let fs = OverlayFs::new(upper, lowers, config)?;
    if cfg.chars().any(|c| "iodwkxm".contains(c)) {
        let mut cap = FsOptions::empty();
        if cfg.contains('m') {
            // under a Vfs the capabilities are those already negotiated: offer exactly the requested cells
            if cfg.contains('o') { cap |= FsOptions::ZERO_MESSAGE_OPEN; }
            if cfg.contains('d') { cap |= FsOptions::ZERO_MESSAGE_OPENDIR; }
            if cfg.contains('w') { cap |= FsOptions::WRITEBACK_CACHE; }
            if cfg.contains('k') { cap |= FsOptions::HANDLE_KILLPRIV_V2; }
        } else {
            cap = FsOptions::ZERO_MESSAGE_OPEN | FsOptions::ZERO_MESSAGE_OPENDIR | FsOptions::WRITEBACK_CACHE
                | FsOptions::HANDLE_KILLPRIV_V2 | FsOptions::PERFILE_DAX;
        }
        if cfg.contains('m') {
            fs.import()?;
        }
        fs.init(cap)?;
    } else {
        fs.import()?;
    }
    Ok(fs)
}

struct Ovl<'a> {
    fs: &'a OverlayFs,
    ctx: Context,
    // ZERO_MESSAGE_OPEN / ZERO_MESSAGE_OPENDIR negotiated: the client sends no OPEN / OPENDIR, handle 0, and the
    // file's open flags travel in every READ / WRITE
    noopen: bool,
    noopendir: bool,
    // lookup counts the client holds per inode (every entry reply counts, as in the kernel), for exact FORGETs
    cnt: std::cell::RefCell<std::collections::HashMap<u64, u64>>,
}
fn parse_flags(spec: &str) -> i32 {
    match spec {
        "wt" => return libc::O_WRONLY | libc::O_TRUNC,
        "a" => return libc::O_WRONLY | libc::O_APPEND,
        _ => {}
    }
    let (acc, bits) = match spec.split_once('+') {
        Some((a, b)) => (a, b),
        None => (spec, ""),
    };
    let mut f = match acc {
        "r" => libc::O_RDONLY,
        "w" => libc::O_WRONLY,
        "rw" => libc::O_RDWR,
        _ => panic!("bad open flags"),
    };
    for ch in bits.chars() {
        f |= match ch {
            't' => libc::O_TRUNC,
            'a' => libc::O_APPEND,
            'c' => libc::O_CREAT,
            'x' => libc::O_EXCL,
            _ => panic!("bad open flag bit"),
        };
    }
    f
}
type R<T> = std::io::Result<T>;
impl<'a> Ovl<'a> {
    fn got(&self, ino: u64) {
        *self.cnt.borrow_mut().entry(ino).or_insert(0) += 1;
    }
    fn lk(&self, parent: u64, name: &CStr) -> R<fuse_backend_rs::api::filesystem::Entry> {
        let e = self.fs.lookup(&self.ctx, parent, name)?;
        self.got(e.inode);
        Ok(e)
    }
    fn walk(&self, path: &str) -> R<u64> {
        let mut ino = ROOT;
        if path == "." || path.is_empty() {
            return Ok(ino);
        }
        for c in path.split('/') {
            let e = self.lk(ino, &cstr(c))?;
            ino = e.inode;
        }
        Ok(ino)
    }
    fn split(path: &str) -> (&str, &str) {
        match path.rsplit_once('/') {
            Some((p, n)) => (p, n),
            None => (".", path),
        }
    }
    // one full listing; `plus` = through READDIRPLUS, `size` = the size field of each request
    fn list_once(&self, ino: u64, h: u64, plus: bool, size: u32) -> R<Vec<(String, u32)>> {
        let mut out: Vec<(String, u32)> = vec![];
        let mut off = 0u64;
        loop {
            let mut got = 0;
            let mut last = off;
            let r = if plus {
                self.fs.readdirplus(&self.ctx, ino, h, size, off, &mut |d, e| {
                    self.got(e.inode);
                    got += 1;
                    last = d.offset;
                    let n = String::from_utf8_lossy(d.name).into_owned();
                    if n != "." && n != ".." {
                        out.push((n, d.type_));
                    }
                    Ok(1)
                })
            } else {
                self.fs.readdir(&self.ctx, ino, h, size, off, &mut |d| {
                    got += 1;
                    last = d.offset;
                    let n = String::from_utf8_lossy(d.name).into_owned();
                    if n != "." && n != ".." {
                        out.push((n, d.type_));
                    }
                    Ok(1)
                })
            };
            r?;
            if got == 0 {
                break;
            }
            off = last;
        }
        out.sort();
        Ok(out)
    }
    fn readdir_names(&self, ino: u64) -> R<Vec<(String, u32)>> {
        let h = if self.noopendir {
            0
        } else {
            let (h, _) = self.fs.opendir(&self.ctx, ino, libc::O_RDONLY as u32)?;
            h.unwrap_or(0)
        };
        let res = self.list_once(ino, h, false, 4096);
        let mut out = match res {
            Ok(o) => o,
            Err(e) => {
                if !self.noopendir {
                    let _ = self.fs.releasedir(&self.ctx, ino, 0, h);
                }
                return Err(e);
            }
        };
        // twin entry point and request-size variation: READDIRPLUS and one-entry-per-request READDIR list the same
        match self.list_once(ino, h, true, 4096) {
            Ok(p) => {
                if p != out {
                    out.push(("!rdplus-differs".to_string(), 0));
                }
            }
            Err(e) => out.push((format!("!rdplus-err{}", errno(&e)), 0)),
        }
        match self.list_once(ino, h, false, 1) {
            Ok(p) => {
                if p != out.iter().filter(|x| !x.0.starts_with('!')).cloned().collect::<Vec<_>>() {
                    out.push(("!rdsmall-differs".to_string(), 0));
                }
            }
            Err(e) => out.push((format!("!rdsmall-err{}", errno(&e)), 0)),
        }
        if !self.noopendir {
            self.fs.releasedir(&self.ctx, ino, 0, h)?;
        }
        Ok(out)
    }
    fn read_all(&self, ino: u64, off: u64, len: Option<u32>) -> R<Vec<u8>> {
        let h = if self.noopen {
            0
        } else {
            let (h, _, _) = self.fs.open(&self.ctx, ino, libc::O_RDONLY as u32, 0)?;
            h.unwrap_or(0)
        };
        let mut out = vec![];
        let mut o = off;
        let res = loop {
            let want = match len {
                Some(l) => (l as usize).saturating_sub(out.len()) as u32,
                None => 65536,
            };
            if want == 0 {
                break Ok(());
            }
            let mut f = memfd();
            match self.fs.read(&self.ctx, ino, h, &mut f, want, o, None, 0) {
                Ok(0) => break Ok(()),
                Ok(n) => {
                    let mut b = vec![];
                    f.seek(SeekFrom::Start(0)).unwrap();
                    f.read_to_end(&mut b).unwrap();
                    b.truncate(n);
                    o += n as u64;
                    out.extend(b);
                }
                Err(e) => break Err(e),
            }
        };
        if !self.noopen {
            let _ = self.fs.release(&self.ctx, ino, 0, h, false, false, None);
        }
        res.map(|_| out)
    }
    fn xattrs(&self, ino: u64) -> R<Vec<(String, Vec<u8>)>> {
        let names = match self.fs.listxattr(&self.ctx, ino, 4096)? {
            ListxattrReply::Names(b) => b,
            ListxattrReply::Count(_) => vec![],
        };
        let mut out = vec![];
        for n in names.split(|c| *c == 0) {
            if n.is_empty() {
                continue;
            }
            let name = String::from_utf8_lossy(n).into_owned();
            if OPAQUE_NAMES.contains(&name.as_str()) {
                continue;
            }
            match self.fs.getxattr(&self.ctx, ino, &CString::new(n).unwrap(), 4096)? {
                GetxattrReply::Value(v) => out.push((name, v)),
                GetxattrReply::Count(_) => {}
            }
        }
        out.sort();
        Ok(out)
    }
    fn dump_node(&self, ino: u64, st: &libc::stat64, names: &[String], depth: u32) -> String {
        let perm = st.st_mode & 0o7777;
        let chk = match self.fs.getattr(&self.ctx, ino, None) {
            Ok((g, _)) => {
                if g.st_mode != st.st_mode || g.st_size != st.st_size {
                    "!attr".to_string()
                } else {
                    String::new()
                }
            }
            Err(e) => format!("!gerr{}", errno(&e)),
        };
        match st.st_mode & libc::S_IFMT {
            libc::S_IFDIR => {
                let xs = self.xattrs(ino).map(|x| ser_xattrs(&x)).unwrap_or_else(|e| format!("!xerr{}", errno(&e)));
                let mut s = format!("d{:x}{}{}(", perm, xs, chk);
                if depth > 8 {
                    return s + "!deep)";
                }
                let listed = match self.readdir_names(ino) {
                    Ok(l) => l,
                    Err(e) => return s + &format!("!rderr{})", errno(&e)),
                };
                let mut all: Vec<String> = listed.iter().map(|x| x.0.clone()).collect();
                for n in names {
                    if !all.contains(n) {
                        all.push(n.clone());
                    }
                }
                all.sort();
                for n in all {
                    let in_list = listed.iter().find(|x| x.0 == n);
                    match self.lk(ino, &cstr(&n)) {
                        Ok(e) => {
                            if in_list.is_none() {
                                s.push_str(&format!("!unlisted-{},", n));
                            } else {
                                let dt = in_list.unwrap().1;
                                let want = match e.attr.st_mode & libc::S_IFMT {
                                    libc::S_IFDIR => libc::DT_DIR,
                                    libc::S_IFREG => libc::DT_REG,
                                    libc::S_IFLNK => libc::DT_LNK,
                                    libc::S_IFCHR => libc::DT_CHR,
                                    _ => 0,
                                } as u32;
                                let t = if dt != want { "!dtype" } else { "" };
                                s.push_str(&format!("{}={}{},", n, t, self.dump_node(e.inode, &e.attr, names, depth + 1)));
                            }
                        }
                        Err(e) => {
                            if in_list.is_some() {
                                s.push_str(&format!("!listed-{}-err{},", n, errno(&e)));
                            }
                        }
                    }
                }
                s.push(')');
                s
            }
            libc::S_IFREG => {
                let xs = self.xattrs(ino).map(|x| ser_xattrs(&x)).unwrap_or_else(|e| format!("!xerr{}", errno(&e)));
                match self.read_all(ino, 0, None) {
                    Ok(b) => {
                        let c2 = if b.len() as i64 != st.st_size { "!size" } else { "" };
                        format!("f{:x}{}{}{}:{}", perm, xs, chk, c2, hexd(&b))
                    }
                    Err(e) => format!("f{:x}{}{}!rerr{}", perm, xs, chk, errno(&e)),
                }
            }
            libc::S_IFLNK => match self.fs.readlink(&self.ctx, ino) {
                Ok(t) => format!("l{}:{}", chk, hex(&t)),
                Err(e) => format!("l!err{}", errno(&e)),
            },
            _ => format!("?{:x}", st.st_mode),
        }
    }
    fn dump(&self, names: &[String]) -> String {
        match self.fs.getattr(&self.ctx, ROOT, None) {
            Ok((st, _)) => self.dump_node(ROOT, &st, names, 0),
            Err(e) => format!("!rooterr{}", errno(&e)),
        }
    }
    fn kind_of(st: &libc::stat64) -> String {
        let k = match st.st_mode & libc::S_IFMT {
            libc::S_IFDIR => "d",
            libc::S_IFREG => "f",
            libc::S_IFLNK => "l",
            _ => "?",
        };
        format!("{}{:x}", k, st.st_mode & 0o7777)
    }

    // returns (errno, payload)
    fn op(&self, w: &[&str]) -> R<String> {
        let c = &self.ctx;
        match w[0] {
            "lookup" => {
                let (p, n) = Self::split(w[1]);
                let pi = self.walk(p)?;
                let e = self.lk(pi, &cstr(n))?;
                Ok(Self::kind_of(&e.attr))
            }
            "getattr" => {
                let i = self.walk(w[1])?;
                let (st, _) = self.fs.getattr(c, i, None)?;
                let sz = if st.st_mode & libc::S_IFMT == libc::S_IFREG { st.st_size } else { 0 };
                Ok(format!("{}:{:x}", Self::kind_of(&st), sz))
            }
            "readdir" => {
                let i = self.walk(w[1])?;
                let l = self.readdir_names(i)?;
                Ok(l.iter().map(|x| x.0.clone()).collect::<Vec<_>>().join(","))
            }
            "read" => {
                let i = self.walk(w[1])?;
                let off = w[2].parse::<u64>().unwrap();
                let len = w[3].parse::<u32>().unwrap();
                let b = self.read_all(i, off, Some(len))?;
                Ok(hex(&b))
            }
            "readlink" => {
                let i = self.walk(w[1])?;
                Ok(hex(&self.fs.readlink(c, i)?))
            }
            "create" => {
                let (p, n) = Self::split(w[1]);
                let pi = self.walk(p)?;
                let mode = u32::from_str_radix(w[2], 16).unwrap();
                let args = CreateIn { flags: (libc::O_RDWR | libc::O_CREAT | libc::O_EXCL) as u32, mode: libc::S_IFREG | mode, umask: 0, fuse_flags: 0 };
                let (e, h, _, _) = self.fs.create(c, pi, &cstr(n), args)?;
                self.got(e.inode);
                if let Some(h) = h {
                    let _ = self.fs.release(c, e.inode, 0, h, false, false, None);
                }
                Ok(Self::kind_of(&e.attr))
            }
            "mkdir" => {
                let (p, n) = Self::split(w[1]);
                let pi = self.walk(p)?;
                let mode = u32::from_str_radix(w[2], 16).unwrap();
                let e = self.fs.mkdir(c, pi, &cstr(n), mode, 0)?;
                self.got(e.inode);
                Ok(Self::kind_of(&e.attr))
            }
            "mknod" => {
                let (p, n) = Self::split(w[1]);
                let pi = self.walk(p)?;
                let mode = u32::from_str_radix(w[2], 16).unwrap();
                let e = self.fs.mknod(c, pi, &cstr(n), libc::S_IFREG | mode, 0, 0)?;
                self.got(e.inode);
                Ok(Self::kind_of(&e.attr))
            }
            "symlink" => {
                let (p, n) = Self::split(w[1]);
                let pi = self.walk(p)?;
                let t = unhex(w[2]);
                let e = self.fs.symlink(c, &CString::new(t).unwrap(), pi, &cstr(n))?;
                self.got(e.inode);
                Ok(Self::kind_of(&e.attr))
            }
            "link" => {
                let si = self.walk(w[1])?;
                let (p, n) = Self::split(w[2]);
                let pi = self.walk(p)?;
                let e = self.fs.link(c, si, pi, &cstr(n))?;
                self.got(e.inode);
                Ok(Self::kind_of(&e.attr))
            }
            "unlink" | "rmdir" => {
                let (p, n) = Self::split(w[1]);
                let pi = self.walk(p)?;
                if w[0] == "unlink" {
                    self.fs.unlink(c, pi, &cstr(n))?;
                } else {
                    self.fs.rmdir(c, pi, &cstr(n))?;
                }
                Ok(String::new())
            }
            "rename" => {
                let (p, n) = Self::split(w[1]);
                let pi = self.walk(p)?;
                let (q, m) = Self::split(w[2]);
                let qi = self.walk(q)?;
                self.fs.rename(c, pi, &cstr(n), qi, &cstr(m), 0)?;
                Ok(String::new())
            }
            "open" => {
                let i = self.walk(w[1])?;
                let flags = parse_flags(w[2]);
                let (h, _, _) = self.fs.open(c, i, flags as u32, 0)?;
                if let Some(h) = h {
                    self.fs.release(c, i, 0, h, false, false, None)?;
                }
                Ok(String::new())
            }
            "write" => {
                let i = self.walk(w[1])?;
                let off = w[2].parse::<u64>().unwrap();
                let data = unhex(w[3]);
                // optional 5th word: the flag word carried by the WRITE request itself (default: that of the open)
                let wflags = if w.len() > 4 { parse_flags(w[4]) } else { libc::O_WRONLY } as u32;
                let h = if self.noopen {
                    0
                } else {
                    let (h, _, _) = self.fs.open(c, i, libc::O_WRONLY as u32, 0)?;
                    h.unwrap_or(0)
                };
                let mut f = memfd();
                f.write_all(&data).unwrap();
                f.seek(SeekFrom::Start(0)).unwrap();
                let r = self.fs.write(c, i, h, &mut f, data.len() as u32, off, None, false, wflags, 0);
                if !self.noopen {
                    let _ = self.fs.release(c, i, 0, h, false, false, None);
                }
                Ok(format!("{:x}", r?))
            }
            "chmod" => {
                let i = self.walk(w[1])?;
                let mut st: libc::stat64 = unsafe { std::mem::zeroed() };
                st.st_mode = u32::from_str_radix(w[2], 16).unwrap();
                let (a, _) = self.fs.setattr(c, i, st, None, SetattrValid::MODE)?;
                Ok(Self::kind_of(&a))
            }
            "truncate" => {
                let i = self.walk(w[1])?;
                let mut st: libc::stat64 = unsafe { std::mem::zeroed() };
                st.st_size = w[2].parse::<i64>().unwrap();
                let (a, _) = self.fs.setattr(c, i, st, None, SetattrValid::SIZE)?;
                Ok(format!("{:x}", a.st_size))
            }
            "setxattr" => {
                let i = self.walk(w[1])?;
                self.fs.setxattr(c, i, &cstr(w[2]), &unhex(w[3]), 0)?;
                Ok(String::new())
            }
            "getxattr" => {
                let i = self.walk(w[1])?;
                match self.fs.getxattr(c, i, &cstr(w[2]), 4096)? {
                    GetxattrReply::Value(v) => Ok(hex(&v)),
                    GetxattrReply::Count(n) => Ok(format!("count{}", n)),
                }
            }
            "listxattr" => {
                let i = self.walk(w[1])?;
                let x = self.xattrs(i)?;
                Ok(x.iter().map(|x| x.0.clone()).collect::<Vec<_>>().join(","))
            }
            "removexattr" => {
                let i = self.walk(w[1])?;
                self.fs.removexattr(c, i, &cstr(w[2]))?;
                Ok(String::new())
            }
            // ---- entry points without a model operation of their own (predicate-only blocks)
            "forget" | "bforget" => {
                // "all": the count the client holds (as the kernel sends it); a number: that count
                let i = self.walk(w[1])?;
                let n: u64 = if w[2] == "all" { self.cnt.borrow_mut().remove(&i).unwrap_or(0) } else { w[2].parse().unwrap() };
                if w[0] == "forget" {
                    self.fs.forget(c, i, n);
                } else {
                    self.fs.batch_forget(c, vec![(i, n)]);
                }
                Ok(String::new())
            }
            "flush" | "fsync" | "fdatasync" | "lseek" | "fallocate" | "getattrh" | "truncateh" => {
                // through a handle opened with the given flag word (w[2])
                let i = self.walk(w[1])?;
                let (h, _, _) = self.fs.open(c, i, parse_flags(w[2]) as u32, 0)?;
                let h = h.unwrap_or(0);
                let r = match w[0] {
                    "flush" => self.fs.flush(c, i, h, 0).map(|_| String::new()),
                    "fsync" => self.fs.fsync(c, i, false, h).map(|_| String::new()),
                    "fdatasync" => self.fs.fsync(c, i, true, h).map(|_| String::new()),
                    "lseek" => self.fs.lseek(c, i, h, w[3].parse().unwrap(), w[4].parse().unwrap()).map(|o| format!("{:x}", o)),
                    "fallocate" => self.fs.fallocate(c, i, h, w[3].parse().unwrap(), w[4].parse().unwrap(), w[5].parse().unwrap()).map(|_| String::new()),
                    "getattrh" => self.fs.getattr(c, i, Some(h)).map(|(a, _)| format!("{}:{:x}", Self::kind_of(&a), a.st_size)),
                    _ => {
                        let mut st: libc::stat64 = unsafe { std::mem::zeroed() };
                        st.st_size = w[3].parse::<i64>().unwrap();
                        self.fs.setattr(c, i, st, Some(h), SetattrValid::SIZE).map(|(a, _)| Self::kind_of(&a))
                    }
                };
                let _ = self.fs.release(c, i, 0, h, false, false, None);
                r
            }
            "setattrh" => {
                // setattrh <path> <open flag word> <valid letters m s u g a t n k> <modehex> <size> <uid> <gid>: SETATTR carrying the handle
                let i = self.walk(w[1])?;
                let (h, _, _) = self.fs.open(c, i, parse_flags(w[2]) as u32, 0)?;
                let h = h.unwrap_or(0);
                let mut st: libc::stat64 = unsafe { std::mem::zeroed() };
                let mut valid = SetattrValid::empty();
                for ch in w[3].chars() {
                    valid |= match ch {
                        'm' => SetattrValid::MODE,
                        's' => SetattrValid::SIZE,
                        'u' => SetattrValid::UID,
                        'g' => SetattrValid::GID,
                        'a' => SetattrValid::ATIME,
                        't' => SetattrValid::MTIME,
                        'k' => SetattrValid::KILL_SUIDGID,
                        'n' => SetattrValid::ATIME_NOW | SetattrValid::MTIME_NOW,
                        _ => panic!("bad valid letter"),
                    };
                }
                st.st_mode = u32::from_str_radix(w[4], 16).unwrap();
                st.st_size = w[5].parse::<i64>().unwrap();
                st.st_uid = w[6].parse().unwrap();
                st.st_gid = w[7].parse().unwrap();
                st.st_atime = 1_000_000;
                st.st_mtime = 2_000_000;
                let r = self.fs.setattr(c, i, st, Some(h), valid).map(|(a, _)| Self::kind_of(&a));
                let _ = self.fs.release(c, i, 0, h, false, false, None);
                r
            }
            "fsyncdir" => {
                let i = self.walk(w[1])?;
                let (h, _) = self.fs.opendir(c, i, libc::O_RDONLY as u32)?;
                let h = h.unwrap_or(0);
                let r = self.fs.fsyncdir(c, i, false, h).map(|_| String::new());
                let _ = self.fs.releasedir(c, i, 0, h);
                r
            }
            "access" => {
                let i = self.walk(w[1])?;
                self.fs.access(c, i, w[2].parse().unwrap())?;
                Ok(String::new())
            }
            "statfs" => {
                let i = self.walk(w[1])?;
                let st = self.fs.statfs(c, i)?;
                Ok(format!("{}", (st.f_namemax > 0) as u32))
            }
            "setattrx" => {
                // setattrx <path> <valid letters m s u g a t k> <modehex> <size> <uid> <gid>
                let i = self.walk(w[1])?;
                let mut st: libc::stat64 = unsafe { std::mem::zeroed() };
                let mut valid = SetattrValid::empty();
                for ch in w[2].chars() {
                    valid |= match ch {
                        'm' => SetattrValid::MODE,
                        's' => SetattrValid::SIZE,
                        'u' => SetattrValid::UID,
                        'g' => SetattrValid::GID,
                        'a' => SetattrValid::ATIME,
                        't' => SetattrValid::MTIME,
                        'k' => SetattrValid::KILL_SUIDGID,
                        'n' => SetattrValid::ATIME_NOW | SetattrValid::MTIME_NOW,
                        _ => panic!("bad valid letter"),
                    };
                }
                st.st_mode = u32::from_str_radix(w[3], 16).unwrap();
                st.st_size = w[4].parse::<i64>().unwrap();
                st.st_uid = w[5].parse().unwrap();
                st.st_gid = w[6].parse().unwrap();
                st.st_atime = 1_000_000;
                st.st_mtime = 2_000_000;
                let (a, _) = self.fs.setattr(c, i, st, None, valid)?;
                Ok(Self::kind_of(&a))
            }
            "createx" => {
                // createx <path> <flag word> <modehex>
                let (p, n) = Self::split(w[1]);
                let pi = self.walk(p)?;
                let mode = u32::from_str_radix(w[3], 16).unwrap();
                let args = CreateIn { flags: parse_flags(w[2]) as u32, mode: libc::S_IFREG | mode, umask: 0, fuse_flags: 0 };
                let (e, h, _, _) = self.fs.create(c, pi, &cstr(n), args)?;
                self.got(e.inode);
                if let Some(h) = h {
                    let _ = self.fs.release(c, e.inode, 0, h, false, false, None);
                }
                Ok(Self::kind_of(&e.attr))
            }
            "mkdiru" => {
                // mkdiru <path> <modehex> <umaskhex>
                let (p, n) = Self::split(w[1]);
                let pi = self.walk(p)?;
                let e = self.fs.mkdir(c, pi, &cstr(n), u32::from_str_radix(w[2], 16).unwrap(), u32::from_str_radix(w[3], 16).unwrap())?;
                self.got(e.inode);
                Ok(Self::kind_of(&e.attr))
            }
            "mknodx" => {
                // mknodx <path> <type-and-mode hex> <rdev> <umaskhex>
                let (p, n) = Self::split(w[1]);
                let pi = self.walk(p)?;
                let e = self.fs.mknod(c, pi, &cstr(n), u32::from_str_radix(w[2], 16).unwrap(), w[3].parse().unwrap(), u32::from_str_radix(w[4], 16).unwrap())?;
                self.got(e.inode);
                Ok(Self::kind_of(&e.attr))
            }
            "setxattrf" => {
                let i = self.walk(w[1])?;
                self.fs.setxattr(c, i, &cstr(w[2]), &unhex(w[3]), w[4].parse().unwrap())?;
                Ok(String::new())
            }
            "getxattr0" => {
                let i = self.walk(w[1])?;
                match self.fs.getxattr(c, i, &cstr(w[2]), 0)? {
                    GetxattrReply::Value(v) => Ok(hex(&v)),
                    GetxattrReply::Count(n) => Ok(format!("count{}", n)),
                }
            }
            "listxattr0" => {
                let i = self.walk(w[1])?;
                match self.fs.listxattr(c, i, 0)? {
                    ListxattrReply::Names(b) => Ok(hex(&b)),
                    ListxattrReply::Count(n) => Ok(format!("count{}", n)),
                }
            }
            "lookupname" => {
                // lookup of a raw name (".", "..", "", "a/b") under a directory
                let i = self.walk(w[1])?;
                let name = if w.len() > 2 { w[2] } else { "" };
                let e = self.lk(i, &cstr(name))?;
                Ok(Self::kind_of(&e.attr))
            }
            "mkdirname" | "createname" | "unlinkname" | "rmdirname" => {
                let i = self.walk(w[1])?;
                let name = if w.len() > 2 { w[2] } else { "" };
                match w[0] {
                    "mkdirname" => self.fs.mkdir(c, i, &cstr(name), 0o755, 0).map(|e| {
                        self.got(e.inode);
                        Self::kind_of(&e.attr)
                    }),
                    "createname" => {
                        let args = CreateIn { flags: (libc::O_RDWR | libc::O_CREAT | libc::O_EXCL) as u32, mode: libc::S_IFREG | 0o644, umask: 0, fuse_flags: 0 };
                        self.fs.create(c, i, &cstr(name), args).map(|(e, h, _, _)| {
                            self.got(e.inode);
                            if let Some(h) = h {
                                let _ = self.fs.release(c, e.inode, 0, h, false, false, None);
                            }
                            Self::kind_of(&e.attr)
                        })
                    }
                    "unlinkname" => self.fs.unlink(c, i, &cstr(name)).map(|_| String::new()),
                    _ => self.fs.rmdir(c, i, &cstr(name)).map(|_| String::new()),
                }
            }
            _ => panic!("unknown op {}", w[0]),
        }
    }
}

fn run_case(lines: &[String], scratch: &Path, out: &mut impl Write) {
    let hdr: Vec<&str> = lines[0].split_whitespace().collect();
    let id = hdr[1];
    let mut has_upper = true;
    let mut nlow = 1usize;
    let mut names: Vec<String> = vec![];
    let mut restart = false;
    let mut cfg = String::new();
    for kv in &hdr[2..] {
        let (k, v) = kv.split_once('=').unwrap();
        match k {
            "upper" => has_upper = v == "1",
            "nlow" => nlow = v.parse().unwrap(),
            "names" => names = v.split(',').map(|s| s.to_string()).collect(),
            "restart" => restart = v == "1",
            "cfg" => cfg = v.to_string(),
            _ => {}
        }
    }
    let base = scratch.join(format!("c{}_{}", std::process::id(), id));
    let _ = std::fs::remove_dir_all(&base);
    std::fs::create_dir_all(&base).unwrap();
    // dirs[k] for layer index k (0 = upper if present, lowers 1..); without upper, layer 0 is absent.
    let first = if has_upper { 0 } else { 1 };
    let mut layer_dir = std::collections::BTreeMap::new();
    for k in first..=nlow {
        let d = base.join(format!("l{}", k));
        std::fs::create_dir(&d).unwrap();
        layer_dir.insert(k, d);
    }
    writeln!(out, "case {}", id).unwrap();
    let mut ops: Vec<&String> = vec![];
    for l in &lines[1..] {
        let w: Vec<&str> = l.split_whitespace().collect();
        match w[0] {
            "ent" => {
                let k: usize = w[1].parse().unwrap();
                materialise(&layer_dir[&k], &w[2..]);
            }
            "op" => ops.push(l),
            _ => {}
        }
    }
    let dirs: Vec<PathBuf> = layer_dir.values().cloned().collect();
    let mut raws: Vec<String> = vec![];
    let mut metas: Vec<String> = vec![];
    for (k, d) in &layer_dir {
        let r = raw_dump(d);
        writeln!(out, "raw {} {}", k, r).unwrap();
        raws.push(r);
        metas.push(meta_dump(d));
    }
    let fs = match new_overlay(&dirs, has_upper, &cfg) {
        Ok(f) => f,
        Err(e) => {
            writeln!(out, "mountfail {}", errno(&e)).unwrap();
            writeln!(out, "end").unwrap();
            let _ = std::fs::remove_dir_all(&base);
            return;
        }
    };
    let o = Ovl { fs: &fs, ctx: Context::default(), noopen: cfg.contains('o'), noopendir: cfg.contains('d'), cnt: Default::default() };
    // the restarted view before any operation is computed first, on untouched directories
    if restart {
        match new_overlay(&dirs, has_upper, &cfg) {
            Ok(f2) => writeln!(out, "restart {}", Ovl { fs: &f2, ctx: Context::default(), noopen: cfg.contains('o'), noopendir: cfg.contains('d'), cnt: Default::default() }.dump(&names)).unwrap(),
            Err(e) => writeln!(out, "restart !mountfail{}", errno(&e)).unwrap(),
        }
    }
    writeln!(out, "view {}", o.dump(&names)).unwrap();
    for (i, l) in ops.iter().enumerate() {
        let w: Vec<&str> = l.split_whitespace().collect();
        let dump = w[1] == "1";
        let r = catch_unwind(AssertUnwindSafe(|| o.op(&w[2..])));
        match r {
            Ok(Ok(p)) => writeln!(out, "op {} 0 {}", i, p).unwrap(),
            Ok(Err(e)) => writeln!(out, "op {} {}", i, errno(&e)).unwrap(),
            Err(_) => writeln!(out, "op {} panic", i).unwrap(),
        }
        if dump {
            let v = catch_unwind(AssertUnwindSafe(|| o.dump(&names))).unwrap_or_else(|_| "!panic".to_string());
            writeln!(out, "view {}", v).unwrap();
            if restart {
                match new_overlay(&dirs, has_upper, &cfg) {
                    Ok(f2) => writeln!(out, "restart {}", Ovl { fs: &f2, ctx: Context::default(), noopen: cfg.contains('o'), noopendir: cfg.contains('d'), cnt: Default::default() }.dump(&names)).unwrap(),
                    Err(e) => writeln!(out, "restart !mountfail{}", errno(&e)).unwrap(),
                }
            }
            if has_upper {
                writeln!(out, "upper {}", raw_dump(&dirs[0])).unwrap();
            }
        }
        for (j, (k, d)) in layer_dir.iter().enumerate() {
            if has_upper && *k == 0 {
                continue;
            }
            let r = raw_dump(d);
            let m = meta_dump(d);
            if r != raws[j] {
                writeln!(out, "lowerchg {} {} {}", i, k, r).unwrap();
                raws[j] = r;
                metas[j] = m;
            } else if m != metas[j] {
                // same names, modes, contents and xattrs, but an owner / group / modification time changed
                writeln!(out, "lowerchg {} {} meta:{}", i, k, m.replace(' ', "_")).unwrap();
                metas[j] = m;
            }
        }
    }
    writeln!(out, "end").unwrap();
    drop(fs);
    // directories may have been made unreadable; we are root, removal still works
    let _ = std::fs::remove_dir_all(&base);
}

fn main() {
    let args: Vec<String> = std::env::args().collect();
    let f = std::fs::File::open(&args[1]).unwrap();
    let scratch = PathBuf::from(&args[2]);
    unsafe { libc::umask(0) };
    std::panic::set_hook(Box::new(|_| {}));
    let stdout = std::io::stdout();
    let mut out = std::io::BufWriter::new(stdout.lock());
    let mut cur: Vec<String> = vec![];
    for l in std::io::BufReader::new(f).lines() {
        let l = l.unwrap();
        if l.starts_with("case ") {
            cur = vec![l];
        } else if l == "end" {
            let c = std::mem::take(&mut cur);
            if catch_unwind(AssertUnwindSafe(|| run_case(&c, &scratch, &mut out))).is_err() {
                writeln!(out, "harness-panic").unwrap();
                writeln!(out, "end").unwrap();
            }
            out.flush().unwrap();
        } else if !l.trim().is_empty() {
            cur.push(l);
        }
    }
    let _ = CStr::from_bytes_with_nul(b"\0");
}
