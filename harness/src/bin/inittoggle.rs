// inittoggle: C12, second half.  Builds a real Vfs / PassthroughFs / OverlayFs with the given
// configuration switches, calls FileSystem::init with the given capability words and reports
// the returned options plus behaviour probes that reveal the internal toggles.
//
// Input (argv[1]: case file), one case per line:
//   <id> <layer> <sw> <out_opts|-> <cap1> <cap2> [<ord>]
//   vfsm = like vfs, but the backend is mounted AFTER the first INIT (Vfs::mount initialises it with the stored out_opts)
//   vfsf = like vfs, plus a second backend at "/x" whose init() fails (EIO) during the first INIT:
//          init(cap1) [fails]; probes; init(cap1) [second backend healthy again, =R]; destroy; init(cap2); probes
//   pt bits 7-8: dax_file_size  0 = Some(0), 1 = None, 2 = Some(2^40)
//   ord 0:  init(cap1); probes; init(cap1) [=R]; destroy; init(cap2); probes
//   ord 1:  destroy; init(cap1); probes; destroy; destroy; init(cap2); init(cap2) [=R]; probes
//   extra probes (twins of the first ones): RL/RD = release/releasedir (ok | enosys | err:N), C = create of a new file
//   (h | nh | err:N), CWB = writeback rewrite seen on the descriptor create produced, KC = kill-priv through
//   create(O_TRUNC, FOPEN_IN_KILL_SUIDGID) on an existing setuid file, KS = kill-priv through setattr(SIZE|KILL_SUIDGID)
//   handle-path probes (other entry points that consult the same switches; BOGUS = a handle no OPEN ever returned):
//   FL = FLUSH with the handle OPEN returned (0 if none): ok | enosys | err:N      (no-open: ENOSYS)
//   GH = GETATTR(Some(BOGUS)), FH = FSYNC(BOGUS), DH = READDIR(root, BOGUS): ok | err:N
//        (a layer in handle mode refuses the unknown handle; in no-open / no-opendir mode it ignores the handle and
//         works from the inode)
//   WK = WRITE(1 byte, WRITE_KILL_PRIV) on a setuid file cleared the setuid bit: 1 | 0 | na
//   WA = WRITE(1 byte at offset 0) whose request flags word carries O_APPEND, on a handle opened without it:
//        0 = the byte was appended (the descriptor got O_APPEND), 1 = it overwrote offset 0 (O_APPEND stripped: the
//        writeback rewrite, where the client positions appends itself), na = the write failed
// layer / switch bits:
//   vfs : b0 no_open  b1 no_opendir  b2 no_writeback  b3 killpriv_v2     (VfsOptions; out_opts = "-" keeps the default)
//         backend: PassthroughFs (do_import = false, cache=always, dax_file_size = 0) mounted at "/"
//   pt  : b0 do_import b1 writeback b2 no_open b3 no_opendir b4 killpriv_v2, bits 5-6 cache policy
//         (0 auto, 1 always, 2 never, 3 metadata); dax_file_size = 0
//   ovl : b0 do_import b1 writeback b2 no_open b3 no_opendir b4 killpriv_v2 b5 perfile_dax
//         (one upper + one lower PassthroughFs layer)
// Steps of a case:  init(cap1); probes; init(cap1) again (no destroy); destroy(); init(cap2); probes.
// Output, one line per case:
//   <id> I=<r> O=<p> D=<p> WB=<w> KP=<w> DAX=<w> R=<r> | I=<r> O=<p> D=<p> WB=<w> KP=<w> DAX=<w>
//   r: ok:<bits> | err:<errno>      p: enosys | h (handle) | nh (ok, no handle) | err:<errno>
//   w: 1 | 0 | na
//   WB  = open(O_WRONLY|O_APPEND) produced a descriptor opened O_RDWR without O_APPEND (the writeback rewrite)
//   KP  = open(O_WRONLY|O_TRUNC, FOPEN_IN_KILL_SUIDGID) on a setuid file cleared the setuid bit
//   DAX = lookup answered with FUSE_ATTR_DAX
#![allow(clippy::all)]
use fuse_backend_rs::abi::fuse_abi::{stat64, CreateIn, FsOptions, SetattrValid};
use fuse_backend_rs::api::filesystem::{Context, Entry, FileSystem};
use fuse_backend_rs::api::{BackendFileSystem, Vfs, VfsOptions};
use fuse_backend_rs::overlayfs::config::Config as OvlConfig;
use fuse_backend_rs::overlayfs::{BoxedLayer, OverlayFs};
use fuse_backend_rs::passthrough::{CachePolicy, Config, PassthroughFs};
use std::collections::BTreeSet;
use std::ffi::CString;
use std::io::{self, BufRead, Write};
use std::os::unix::fs::PermissionsExt;
use std::panic::{catch_unwind, AssertUnwindSafe};
use std::path::{Path, PathBuf};
use std::sync::atomic::{AtomicBool, Ordering};
use std::sync::Arc;

const FOPEN_IN_KILL_SUIDGID: u32 = 1;
const FUSE_ATTR_DAX: u32 = 2;

fn errno_of(e: &io::Error) -> i32 {
    e.raw_os_error().unwrap_or(-1)
}
fn fds() -> BTreeSet<i32> {
    let mut s = BTreeSet::new();
    if let Ok(rd) = std::fs::read_dir("/proc/self/fd") {
        for e in rd.flatten() {
            if let Ok(n) = e.file_name().to_string_lossy().parse::<i32>() {
                s.insert(n);
            }
        }
    }
    // the directory stream's own descriptor is closed by now: keep only descriptors that are still open
    s.into_iter().filter(|fd| unsafe { libc::fcntl(*fd, libc::F_GETFD) } != -1).collect()
}
fn fd_flags(fd: i32) -> Option<(i32, String)> {
    let s = std::fs::read_to_string(format!("/proc/self/fdinfo/{}", fd)).ok()?;
    let target = std::fs::read_link(format!("/proc/self/fd/{}", fd)).ok()?.to_string_lossy().into_owned();
    for l in s.lines() {
        if let Some(v) = l.strip_prefix("flags:") {
            return i32::from_str_radix(v.trim(), 8).ok().map(|f| (f, target));
        }
    }
    None
}

fn prep_dir(d: &Path) {
    let _ = std::fs::remove_dir_all(d);
    std::fs::create_dir_all(d).unwrap();
    std::fs::write(d.join("f"), b"abc").unwrap();
    std::fs::write(d.join("s"), b"abcdef").unwrap();
    std::fs::set_permissions(d.join("s"), std::fs::Permissions::from_mode(0o4755)).unwrap();
    std::fs::write(d.join("a"), b"abcdef").unwrap();
    for n in ["s2", "s3", "s4"] {
        std::fs::write(d.join(n), b"abcdef").unwrap();
        std::fs::set_permissions(d.join(n), std::fs::Permissions::from_mode(0o4755)).unwrap();
    }
}

fn pt_config(dir: &Path, sw: u64) -> Config {
    Config {
        root_dir: dir.to_string_lossy().into_owned(),
        do_import: sw & 1 != 0,
        writeback: sw & 2 != 0,
        no_open: sw & 4 != 0,
        no_opendir: sw & 8 != 0,
        killpriv_v2: sw & 16 != 0,
        cache_policy: match (sw >> 5) & 3 {
            1 => CachePolicy::Always,
            2 => CachePolicy::Never,
            3 => CachePolicy::Metadata,
            _ => CachePolicy::Auto,
        },
        dax_file_size: match (sw >> 7) & 3 {
            1 => None,
            2 => Some(1 << 40),
            _ => Some(0),
        },
        ..Default::default()
    }
}

fn fmt_init(r: io::Result<FsOptions>) -> String {
    match r {
        Ok(o) => format!("ok:{}", o.bits()),
        Err(e) => format!("err:{}", errno_of(&e)),
    }
}

// the probes only need lookup / open / opendir / release / releasedir / forget with u64 inodes and handles
fn suid_after_truncate(scratch: &Path, name: &str) -> String {
    for sub in ["", "upper", "lower"] {
        let p = scratch.join(sub).join(name);
        if let Ok(m) = std::fs::metadata(&p) {
            if m.len() == 0 {
                return if m.permissions().mode() & 0o4000 == 0 { "1" } else { "0" }.to_string();
            }
        }
    }
    "na".to_string()
}
const BOGUS: u64 = 0x7fff_fff0;
const WRITE_KILL_PRIV: u32 = 4;
fn fmt_plain(r: &io::Result<()>) -> String {
    match r {
        Ok(()) => "ok".to_string(),
        Err(e) => format!("err:{}", errno_of(e)),
    }
}
// setuid bit of `name` after a 1-byte write at offset 0 that put an 'X' there
fn suid_after_write(scratch: &Path, name: &str) -> String {
    for sub in ["", "upper", "lower"] {
        let p = scratch.join(sub).join(name);
        if let (Ok(m), Ok(b)) = (std::fs::metadata(&p), std::fs::read(&p)) {
            if b.first() == Some(&b'X') {
                return if m.permissions().mode() & 0o4000 == 0 { "1" } else { "0" }.to_string();
            }
        }
    }
    "na".to_string()
}
// other entry points that consult the no-open / no-opendir / kill-priv switches
fn handle_probes<F>(fs: &F, scratch: &Path) -> String
where
    F: FileSystem<Inode = u64, Handle = u64>,
{
    let ctx = Context::default();
    let root = 1u64;
    let name_f = CString::new("f").unwrap();
    let (fl, gh, fh) = match fs.lookup(&ctx, root, &name_f) {
        Ok(e) => {
            let o = fs.open(&ctx, e.inode, libc::O_RDONLY as u32, 0);
            let h = if let Ok((Some(h), _, _)) = &o { *h } else { 0 };
            let fl = fmt_unit(&fs.flush(&ctx, e.inode, h, 0));
            if let Ok((Some(h), _, _)) = o {
                let _ = fs.release(&ctx, e.inode, 0, h, false, false, None);
            }
            let gh = fmt_plain(&fs.getattr(&ctx, e.inode, Some(BOGUS)).map(|_| ()));
            let fh = fmt_plain(&fs.fsync(&ctx, e.inode, false, BOGUS));
            fs.forget(&ctx, e.inode, 1);
            (fl, gh, fh)
        }
        Err(e) => (format!("err:{}", errno_of(&e)), "na".to_string(), "na".to_string()),
    };
    let dh = fmt_plain(&fs.readdir(&ctx, root, BOGUS, 4096, 0, &mut |_e| Ok(0)));
    let name_s4 = CString::new("s4").unwrap();
    let wk = match fs.lookup(&ctx, root, &name_s4) {
        Ok(e) => {
            let o = fs.open(&ctx, e.inode, libc::O_WRONLY as u32, 0);
            let h = if let Ok((Some(h), _, _)) = &o { *h } else { 0 };
            let src = scratch.join("wsrc");
            std::fs::write(&src, b"X").unwrap();
            let mut rd = std::fs::File::open(&src).unwrap();
            let w = fs.write(&ctx, e.inode, h, &mut rd, 1, 0, None, false, libc::O_WRONLY as u32, WRITE_KILL_PRIV);
            let v = match w {
                Ok(1) => suid_after_write(scratch, "s4"),
                _ => "na".to_string(),
            };
            if let Ok((Some(h), _, _)) = o {
                let _ = fs.release(&ctx, e.inode, 0, h, false, false, None);
            }
            fs.forget(&ctx, e.inode, 1);
            let _ = std::fs::remove_file(&src);
            v
        }
        Err(_) => "na".to_string(),
    };
    // WRITE whose flags word carries O_APPEND (check_fd_flags re-applies the request's flags to the descriptor)
    let name_a = CString::new("a").unwrap();
    let wa = match fs.lookup(&ctx, root, &name_a) {
        Ok(e) => {
            let o = fs.open(&ctx, e.inode, libc::O_WRONLY as u32, 0);
            let h = if let Ok((Some(h), _, _)) = &o { *h } else { 0 };
            let src = scratch.join("wsrc");
            std::fs::write(&src, b"Y").unwrap();
            let mut rd = std::fs::File::open(&src).unwrap();
            let w = fs.write(&ctx, e.inode, h, &mut rd, 1, 0, None, false, (libc::O_WRONLY | libc::O_APPEND) as u32, 0);
            let mut v = "na".to_string();
            if let Ok(1) = w {
                for sub in ["", "upper", "lower"] {
                    if let Ok(b) = std::fs::read(scratch.join(sub).join("a")) {
                        v = if b == b"abcdefY" { "0".to_string() } else if b == b"Ybcdef" { "1".to_string() } else { format!("odd:{}", b.len()) };
                        break;
                    }
                }
            }
            if let Ok((Some(h), _, _)) = o {
                let _ = fs.release(&ctx, e.inode, 0, h, false, false, None);
            }
            fs.forget(&ctx, e.inode, 1);
            let _ = std::fs::remove_file(&src);
            v
        }
        Err(_) => "na".to_string(),
    };
    format!("FL={} GH={} FH={} DH={} WK={} WA={}", fl, gh, fh, dh, wk, wa)
}
fn fmt_unit(r: &io::Result<()>) -> String {
    match r {
        Ok(()) => "ok".to_string(),
        Err(e) if errno_of(e) == libc::ENOSYS => "enosys".to_string(),
        Err(e) => format!("err:{}", errno_of(e)),
    }
}

fn probes<F>(fs: &F, scratch: &Path, round: u32) -> String
where
    F: FileSystem<Inode = u64, Handle = u64>,
{
    let ctx = Context::default();
    let root = 1u64;
    let name_f = CString::new("f").unwrap();
    let name_s = CString::new("s").unwrap();
    // DAX + inode of "f"
    let (ino_f, dax) = match fs.lookup(&ctx, root, &name_f) {
        Ok(e) => (e.inode, if e.attr_flags & FUSE_ATTR_DAX != 0 { "1" } else { "0" }.to_string()),
        Err(e) => (0, format!("err:{}", errno_of(&e))),
    };
    let fmt_open = |r: &io::Result<(Option<u64>, bool)>| match r {
        Ok((Some(_), _)) => "h".to_string(),
        Ok((None, _)) => "nh".to_string(),
        Err(e) if errno_of(e) == libc::ENOSYS => "enosys".to_string(),
        Err(e) => format!("err:{}", errno_of(e)),
    };
    // plain open
    let o = fs.open(&ctx, ino_f, libc::O_RDONLY as u32, 0).map(|(h, _, _)| (h, true));
    let o_s = fmt_open(&o);
    // twin: RELEASE (of the handle just obtained, or of handle 0 as a no-open client sends it)
    let rl = fmt_unit(&fs.release(&ctx, ino_f, 0, if let Ok((Some(h), _)) = o { h } else { 0 }, false, false, None));
    // opendir
    let d = fs.opendir(&ctx, root, libc::O_RDONLY as u32).map(|(h, _)| (h, true));
    let d_s = fmt_open(&d);
    let rd = fmt_unit(&fs.releasedir(&ctx, root, 0, if let Ok((Some(h), _)) = d { h } else { 0 }));
    // writeback rewrite of open flags
    let before = fds();
    let w = fs.open(&ctx, ino_f, (libc::O_WRONLY | libc::O_APPEND) as u32, 0);
    let wb = match &w {
        Ok((Some(_), _, _)) => {
            let after = fds();
            let mut v = "na".to_string();
            for fd in after.difference(&before) {
                if let Some((fl, target)) = fd_flags(*fd) {
                    if target.starts_with(&*scratch.to_string_lossy()) && target.ends_with("/f") {
                        let rdwr = fl & libc::O_ACCMODE == libc::O_RDWR;
                        let app = fl & libc::O_APPEND != 0;
                        v = if rdwr && !app {
                            "1".to_string()
                        } else if !rdwr && app {
                            "0".to_string()
                        } else {
                            format!("mixed:{:o}", fl)
                        };
                    }
                }
            }
            v
        }
        _ => "na".to_string(),
    };
    if let Ok((Some(h), _, _)) = w {
        let _ = fs.release(&ctx, ino_f, 0, h, false, false, None);
    }
    // kill-priv on open(O_TRUNC)
    let kp = match fs.lookup(&ctx, root, &name_s) {
        Ok(e) => {
            let r = fs.open(&ctx, e.inode, (libc::O_WRONLY | libc::O_TRUNC) as u32, FOPEN_IN_KILL_SUIDGID);
            let v = match &r {
                Ok(_) => {
                    let mode = e.attr.st_mode; // before
                    let _ = mode;
                    // read the mode from whichever layer directory holds the file now
                    let mut cleared = None;
                    for sub in ["", "upper", "lower"] {
                        let p = scratch.join(sub).join("s");
                        if let Ok(m) = std::fs::metadata(&p) {
                            if m.len() == 0 {
                                cleared = Some(m.permissions().mode() & 0o4000 == 0);
                                break;
                            }
                        }
                    }
                    match cleared {
                        Some(true) => "1".to_string(),
                        Some(false) => "0".to_string(),
                        None => "na".to_string(),
                    }
                }
                Err(_) => "na".to_string(),
            };
            if let Ok((Some(h), _, _)) = r {
                let _ = fs.release(&ctx, e.inode, 0, h, false, false, None);
            }
            fs.forget(&ctx, e.inode, 1);
            v
        }
        Err(_) => "na".to_string(),
    };
    if ino_f != 0 {
        fs.forget(&ctx, ino_f, 1);
    }
    // twin of open: CREATE of a new file (handle or not; writeback rewrite of the flags it was opened with)
    let newname = format!("n{}", round);
    let cname = CString::new(newname.clone()).unwrap();
    let before = fds();
    let cr = fs.create(
        &ctx,
        root,
        &cname,
        CreateIn { flags: (libc::O_WRONLY | libc::O_APPEND) as u32, mode: 0o644, umask: 0, fuse_flags: 0 },
    );
    let (c_s, cwb) = match &cr {
        Ok((_, h, _, _)) => {
            let mut v = "na".to_string();
            if h.is_some() {
                let after = fds();
                for fd in after.difference(&before) {
                    if let Some((fl, target)) = fd_flags(*fd) {
                        // (the O_PATH descriptor of the new inode also points at the file: not the one create opened)
                        if fl & libc::O_PATH == 0 && target.starts_with(&*scratch.to_string_lossy()) && target.ends_with(&format!("/{}", newname)) {
                            let rdwr = fl & libc::O_ACCMODE == libc::O_RDWR;
                            let app = fl & libc::O_APPEND != 0;
                            v = if rdwr && !app { "1".to_string() } else if !rdwr && app { "0".to_string() } else { format!("mixed:{:o}", fl) };
                        }
                    }
                }
            }
            (if h.is_some() { "h" } else { "nh" }.to_string(), v)
        }
        Err(e) => (format!("err:{}", errno_of(e)), "na".to_string()),
    };
    if let Ok((e, h, _, _)) = cr {
        if let Some(h) = h {
            let _ = fs.release(&ctx, e.inode, 0, h, false, false, None);
        }
        fs.forget(&ctx, e.inode, 1);
    }
    // twin of the kill-priv open: CREATE on an existing setuid file with O_TRUNC
    let name_s2 = CString::new("s2").unwrap();
    let kc = match fs.create(
        &ctx,
        root,
        &name_s2,
        CreateIn { flags: (libc::O_WRONLY | libc::O_TRUNC) as u32, mode: 0o644, umask: 0, fuse_flags: FOPEN_IN_KILL_SUIDGID },
    ) {
        Ok((e, h, _, _)) => {
            let v = suid_after_truncate(scratch, "s2");
            if let Some(h) = h {
                let _ = fs.release(&ctx, e.inode, 0, h, false, false, None);
            }
            fs.forget(&ctx, e.inode, 1);
            v
        }
        Err(_) => "na".to_string(),
    };
    // twin: SETATTR(size = 0) with FATTR_KILL_SUIDGID
    let name_s3 = CString::new("s3").unwrap();
    let ks = match fs.lookup(&ctx, root, &name_s3) {
        Ok(e) => {
            let mut attr: stat64 = unsafe { std::mem::zeroed() };
            attr.st_size = 0;
            let v = match fs.setattr(&ctx, e.inode, attr, None, SetattrValid::SIZE | SetattrValid::KILL_SUIDGID) {
                Ok(_) => suid_after_truncate(scratch, "s3"),
                Err(_) => "na".to_string(),
            };
            fs.forget(&ctx, e.inode, 1);
            v
        }
        Err(_) => "na".to_string(),
    };
    let hp = handle_probes(fs, scratch);
    format!(
        "O={} D={} WB={} KP={} DAX={} RL={} RD={} C={} CWB={} KC={} KS={} {}",
        o_s, d_s, wb, kp, dax, rl, rd, c_s, cwb, kc, ks, hp
    )
}

fn reset_files(scratch: &Path, layer: &str) {
    // restore the setuid file for the next round of probes
    let dirs: Vec<PathBuf> = if layer == "ovl" { vec![scratch.join("upper"), scratch.join("lower")] } else { vec![scratch.to_path_buf()] };
    for d in dirs {
        if d.join("a").exists() {
            std::fs::write(d.join("a"), b"abcdef").unwrap();
        }
        for n in ["s", "s2", "s3", "s4"] {
            let p = d.join(n);
            if p.exists() {
                std::fs::write(&p, b"abcdef").unwrap();
                std::fs::set_permissions(&p, std::fs::Permissions::from_mode(0o4755)).unwrap();
            }
        }
    }
}

fn sequence<F>(fs: &F, scratch: &Path, layer: &str, cap1: u64, cap2: u64, ord: u32, after_first_init: &dyn Fn()) -> String
where
    F: FileSystem<Inode = u64, Handle = u64>,
{
    let c1 = FsOptions::from_bits_truncate(cap1);
    let c2 = FsOptions::from_bits_truncate(cap2);
    if ord == 0 {
        let i1 = fmt_init(fs.init(c1));
        after_first_init();
        let p1 = probes(fs, scratch, 1);
        let r = fmt_init(fs.init(c1));
        fs.destroy();
        reset_files(scratch, layer);
        let i2 = fmt_init(fs.init(c2));
        let p2 = probes(fs, scratch, 2);
        format!("I={} {} R={} | I={} {}", i1, p1, r, i2, p2)
    } else {
        fs.destroy();
        let i1 = fmt_init(fs.init(c1));
        after_first_init();
        let p1 = probes(fs, scratch, 1);
        fs.destroy();
        fs.destroy();
        reset_files(scratch, layer);
        let i2 = fmt_init(fs.init(c2));
        let r = fmt_init(fs.init(c2));
        let p2 = probes(fs, scratch, 2);
        format!("I={} {} R={} | I={} {}", i1, p1, r, i2, p2)
    }
}

// a backend whose init() fails on demand (everything else: the trait's defaults)
struct FailFs(Arc<AtomicBool>);
impl FileSystem for FailFs {
    type Inode = u64;
    type Handle = u64;
    fn init(&self, _c: FsOptions) -> io::Result<FsOptions> {
        if self.0.load(Ordering::SeqCst) {
            Err(io::Error::from_raw_os_error(libc::EIO))
        } else {
            Ok(FsOptions::empty())
        }
    }
}
impl BackendFileSystem for FailFs {
    fn mount(&self) -> io::Result<(Entry, u64)> {
        let mut attr: stat64 = unsafe { std::mem::zeroed() };
        attr.st_ino = 1;
        attr.st_mode = libc::S_IFDIR | 0o755;
        attr.st_nlink = 2;
        Ok((
            Entry { inode: 1, generation: 0, attr, attr_flags: 0, attr_timeout: std::time::Duration::ZERO, entry_timeout: std::time::Duration::ZERO },
            100,
        ))
    }
    fn as_any(&self) -> &dyn std::any::Any {
        self
    }
}

fn sequence_fail<F>(fs: &F, scratch: &Path, layer: &str, cap1: u64, cap2: u64, fail: &AtomicBool) -> String
where
    F: FileSystem<Inode = u64, Handle = u64>,
{
    let c1 = FsOptions::from_bits_truncate(cap1);
    let c2 = FsOptions::from_bits_truncate(cap2);
    fail.store(true, Ordering::SeqCst);
    let i1 = fmt_init(fs.init(c1));
    let p1 = probes(fs, scratch, 1);
    fail.store(false, Ordering::SeqCst);
    let r = fmt_init(fs.init(c1));
    fs.destroy();
    reset_files(scratch, layer);
    let i2 = fmt_init(fs.init(c2));
    let p2 = probes(fs, scratch, 2);
    format!("I={} {} R={} | I={} {}", i1, p1, r, i2, p2)
}

fn new_layer(dir: &Path) -> io::Result<Arc<BoxedLayer>> {
    let mut config = Config::default();
    config.root_dir = dir.to_string_lossy().into_owned();
    config.xattr = true;
    config.do_import = true;
    let fs = Box::new(PassthroughFs::<()>::new(config)?);
    fs.import()?;
    Ok(Arc::new(fs as BoxedLayer))
}

fn run_case(scratch: &Path, layer: &str, sw: u64, out_opts: Option<u64>, cap1: u64, cap2: u64, ord: u32) -> io::Result<String> {
    match layer {
        "pt" => {
            prep_dir(scratch);
            let cfg = pt_config(scratch, sw);
            let do_import = cfg.do_import;
            let fs = PassthroughFs::<()>::new(cfg)?;
            if !do_import {
                fs.import()?; // what Vfs::mount does through BackendFileSystem::mount
            }
            Ok(sequence(&fs, scratch, layer, cap1, cap2, ord, &|| {}))
        }
        "vfs" | "vfsm" | "vfsf" => {
            prep_dir(scratch);
            let mut o = VfsOptions::default();
            o.no_open = sw & 1 != 0;
            o.no_opendir = sw & 2 != 0;
            o.no_writeback = sw & 4 != 0;
            o.killpriv_v2 = sw & 8 != 0;
            if let Some(b) = out_opts {
                o.out_opts = FsOptions::from_bits_truncate(b);
            }
            let vfs = Vfs::new(o);
            // backend under a VFS: do_import = false, every configuration switch off, cache=always
            let cfg = pt_config(scratch, 1 << 5);
            let fs = PassthroughFs::<()>::new(cfg)?;
            fs.import()?;
            let pending = std::cell::RefCell::new(Some(fs));
            let mount = || {
                if let Some(fs) = pending.borrow_mut().take() {
                    vfs.mount(Box::new(fs), "/").expect("mount");
                }
            };
            if layer != "vfsm" {
                mount();
            }
            if layer == "vfsf" {
                let fail = Arc::new(AtomicBool::new(false));
                vfs.mount(Box::new(FailFs(fail.clone())), "/x").map_err(|e| io::Error::new(io::ErrorKind::Other, format!("{:?}", e)))?;
                return Ok(sequence_fail(&VfsU64(&vfs), scratch, layer, cap1, cap2, &fail));
            }
            Ok(sequence(&VfsU64(&vfs), scratch, layer, cap1, cap2, ord, &mount))
        }
        "ovl" => {
            let _ = std::fs::remove_dir_all(scratch);
            let up = scratch.join("upper");
            let lo = scratch.join("lower");
            let work = scratch.join("work");
            std::fs::create_dir_all(&up).unwrap();
            std::fs::create_dir_all(&work).unwrap();
            // files live in the upper layer so that no copy-up is involved in the probes
            prep_dir(&up);
            std::fs::create_dir_all(&lo).unwrap();
            let upper = new_layer(&up)?;
            let lower = new_layer(&lo)?;
            let mut config = OvlConfig::default();
            config.work = work.to_string_lossy().into_owned();
            config.do_import = sw & 1 != 0;
            config.writeback = sw & 2 != 0;
            config.no_open = sw & 4 != 0;
            config.no_opendir = sw & 8 != 0;
            config.killpriv_v2 = sw & 16 != 0;
            config.perfile_dax = sw & 32 != 0;
            let do_import = config.do_import;
            let fs = OverlayFs::new(Some(upper), vec![lower], config)?;
            if !do_import {
                fs.import()?;
            }
            Ok(sequence(&fs, scratch, layer, cap1, cap2, ord, &|| {}))
        }
        _ => Err(io::Error::new(io::ErrorKind::Other, "bad layer")),
    }
}

// Vfs uses VfsInode / VfsHandle newtypes; adapt to plain u64 for the generic probes.
struct VfsU64<'a>(&'a Vfs);
impl<'a> FileSystem for VfsU64<'a> {
    type Inode = u64;
    type Handle = u64;
    fn init(&self, c: FsOptions) -> io::Result<FsOptions> {
        self.0.init(c)
    }
    fn destroy(&self) {
        self.0.destroy()
    }
    fn lookup(&self, ctx: &Context, parent: u64, name: &std::ffi::CStr) -> io::Result<fuse_backend_rs::api::filesystem::Entry> {
        self.0.lookup(ctx, parent.into(), name)
    }
    fn forget(&self, ctx: &Context, inode: u64, count: u64) {
        self.0.forget(ctx, inode.into(), count)
    }
    fn open(
        &self,
        ctx: &Context,
        inode: u64,
        flags: u32,
        fuse_flags: u32,
    ) -> io::Result<(Option<u64>, fuse_backend_rs::abi::fuse_abi::OpenOptions, Option<u32>)> {
        self.0.open(ctx, inode.into(), flags, fuse_flags).map(|(h, o, p)| (h.map(Into::into), o, p))
    }
    fn release(
        &self,
        ctx: &Context,
        inode: u64,
        flags: u32,
        handle: u64,
        flush: bool,
        flock_release: bool,
        lock_owner: Option<u64>,
    ) -> io::Result<()> {
        self.0.release(ctx, inode.into(), flags, handle.into(), flush, flock_release, lock_owner)
    }
    fn create(
        &self,
        ctx: &Context,
        parent: u64,
        name: &std::ffi::CStr,
        args: CreateIn,
    ) -> io::Result<(fuse_backend_rs::api::filesystem::Entry, Option<u64>, fuse_backend_rs::abi::fuse_abi::OpenOptions, Option<u32>)> {
        self.0.create(ctx, parent.into(), name, args).map(|(e, h, o, p)| (e, h.map(Into::into), o, p))
    }
    fn setattr(
        &self,
        ctx: &Context,
        inode: u64,
        attr: stat64,
        handle: Option<u64>,
        valid: SetattrValid,
    ) -> io::Result<(stat64, std::time::Duration)> {
        self.0.setattr(ctx, inode.into(), attr, handle.map(Into::into), valid)
    }
    fn opendir(&self, ctx: &Context, inode: u64, flags: u32) -> io::Result<(Option<u64>, fuse_backend_rs::abi::fuse_abi::OpenOptions)> {
        self.0.opendir(ctx, inode.into(), flags).map(|(h, o)| (h.map(Into::into), o))
    }
    fn flush(&self, ctx: &Context, inode: u64, handle: u64, lock_owner: u64) -> io::Result<()> {
        self.0.flush(ctx, inode.into(), handle.into(), lock_owner)
    }
    fn getattr(&self, ctx: &Context, inode: u64, handle: Option<u64>) -> io::Result<(stat64, std::time::Duration)> {
        self.0.getattr(ctx, inode.into(), handle.map(Into::into))
    }
    fn fsync(&self, ctx: &Context, inode: u64, datasync: bool, handle: u64) -> io::Result<()> {
        self.0.fsync(ctx, inode.into(), datasync, handle.into())
    }
    fn readdir(
        &self,
        ctx: &Context,
        inode: u64,
        handle: u64,
        size: u32,
        offset: u64,
        add_entry: &mut dyn FnMut(fuse_backend_rs::api::filesystem::DirEntry) -> io::Result<usize>,
    ) -> io::Result<()> {
        self.0.readdir(ctx, inode.into(), handle.into(), size, offset, add_entry)
    }
    fn write(
        &self,
        ctx: &Context,
        inode: u64,
        handle: u64,
        r: &mut dyn fuse_backend_rs::api::filesystem::ZeroCopyReader,
        size: u32,
        offset: u64,
        lock_owner: Option<u64>,
        delayed_write: bool,
        flags: u32,
        fuse_flags: u32,
    ) -> io::Result<usize> {
        self.0.write(ctx, inode.into(), handle.into(), r, size, offset, lock_owner, delayed_write, flags, fuse_flags)
    }
    fn releasedir(&self, ctx: &Context, inode: u64, flags: u32, handle: u64) -> io::Result<()> {
        self.0.releasedir(ctx, inode.into(), flags, handle.into())
    }
}

fn main() {
    let args: Vec<String> = std::env::args().collect();
    let f = std::fs::File::open(&args[1]).expect("case file");
    let base = std::env::temp_dir().join(format!("verif-inittoggle-{}", std::process::id()));
    let out = io::stdout();
    let mut out = out.lock();
    for line in io::BufReader::new(f).lines() {
        let line = line.unwrap();
        let t: Vec<&str> = line.split_whitespace().collect();
        if t.len() < 6 {
            continue;
        }
        let id = t[0];
        let layer = t[1].to_string();
        let sw: u64 = t[2].parse().unwrap();
        let oo: Option<u64> = if t[3] == "-" { None } else { Some(t[3].parse().unwrap()) };
        let c1: u64 = t[4].parse().unwrap();
        let c2: u64 = t[5].parse().unwrap();
        let ord: u32 = if t.len() > 6 { t[6].parse().unwrap() } else { 0 };
        let scratch = base.join("c");
        let r = catch_unwind(AssertUnwindSafe(|| run_case(&scratch, &layer, sw, oo, c1, c2, ord)));
        match r {
            Ok(Ok(s)) => writeln!(out, "{} {}", id, s).unwrap(),
            Ok(Err(e)) => writeln!(out, "{} setup-error {:?}", id, e).unwrap(),
            Err(_) => writeln!(out, "{} panic", id).unwrap(),
        }
    }
    let _ = std::fs::remove_dir_all(&base);
}
