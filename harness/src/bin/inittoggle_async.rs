// inittoggle_async: C12 twin check for the async entry points (feature async-io).
// Vfs::async_open has its own copy of the no-open test; PassthroughFs::async_open delegates to open().
// For each case a real Vfs (PassthroughFs backend, do_import = false, at "/") and a standalone PassthroughFs are
// initialised with cap1, then (after destroy) with cap2; after each INIT the same file is opened through the
// sync and through the async method and both answers are printed.
//   input : <id> <sw> <out_opts|-> <cap1> <cap2>        (sw: VfsOptions bits as in inittoggle.rs)
//   output: <id> V1=<sync>/<async> P1=<sync>/<async> | V2=.. P2=..      answer: enosys | h | nh | err:N
#![allow(clippy::all)]
#[cfg(not(feature = "async-io"))]
fn main() {
    eprintln!("inittoggle_async needs --features async-io");
    std::process::exit(2);
}
#[cfg(feature = "async-io")]
fn main() {
    imp::main()
}

#[cfg(feature = "async-io")]
mod imp {
    use fuse_backend_rs::abi::fuse_abi::FsOptions;
    use fuse_backend_rs::api::filesystem::{AsyncFileSystem, Context, FileSystem};
    use fuse_backend_rs::api::{Vfs, VfsOptions};
    use fuse_backend_rs::passthrough::{CachePolicy, Config, PassthroughFs};
    use std::ffi::CString;
    use std::future::Future;
    use std::io::{self, BufRead, Write};
    use std::path::Path;
    use std::task::{Context as TaskCx, Poll, RawWaker, RawWakerVTable, Waker};

    fn noop_waker() -> Waker {
        fn clone(_: *const ()) -> RawWaker {
            RawWaker::new(std::ptr::null(), &VT)
        }
        fn noop(_: *const ()) {}
        static VT: RawWakerVTable = RawWakerVTable::new(clone, noop, noop, noop);
        unsafe { Waker::from_raw(RawWaker::new(std::ptr::null(), &VT)) }
    }
    fn block_on<F: Future>(f: F) -> F::Output {
        let mut f = Box::pin(f);
        let w = noop_waker();
        let mut cx = TaskCx::from_waker(&w);
        loop {
            if let Poll::Ready(v) = f.as_mut().poll(&mut cx) {
                return v;
            }
        }
    }
    fn fmt<T>(r: io::Result<Option<T>>) -> String {
        match r {
            Ok(Some(_)) => "h".into(),
            Ok(None) => "nh".into(),
            Err(e) if e.raw_os_error() == Some(libc::ENOSYS) => "enosys".into(),
            Err(e) => format!("err:{}", e.raw_os_error().unwrap_or(-1)),
        }
    }
    fn pt(dir: &Path) -> io::Result<PassthroughFs<()>> {
        let cfg = Config {
            root_dir: dir.to_string_lossy().into_owned(),
            do_import: false,
            cache_policy: CachePolicy::Always,
            ..Default::default()
        };
        let fs = PassthroughFs::<()>::new(cfg)?;
        fs.import()?;
        Ok(fs)
    }
    fn run_case(dir: &Path, sw: u64, oo: Option<u64>, caps: [u64; 2]) -> io::Result<String> {
        let _ = std::fs::remove_dir_all(dir);
        std::fs::create_dir_all(dir)?;
        std::fs::write(dir.join("f"), b"abc")?;
        let mut o = VfsOptions::default();
        o.no_open = sw & 1 != 0;
        o.no_opendir = sw & 2 != 0;
        o.no_writeback = sw & 4 != 0;
        o.killpriv_v2 = sw & 8 != 0;
        if let Some(b) = oo {
            o.out_opts = FsOptions::from_bits_truncate(b);
        }
        let vfs = Vfs::new(o);
        vfs.mount(Box::new(pt(dir)?), "/").map_err(|e| io::Error::new(io::ErrorKind::Other, format!("{:?}", e)))?;
        let alone = pt(dir)?;
        let ctx = Context::default();
        let name = CString::new("f").unwrap();
        let mut out = vec![];
        for (k, cap) in caps.iter().enumerate() {
            let c = FsOptions::from_bits_truncate(*cap);
            if k == 1 {
                vfs.destroy();
                alone.destroy();
                alone.import()?;
            }
            let _ = vfs.init(c);
            let _ = alone.init(c);
            let e = vfs.lookup(&ctx, 1u64.into(), &name)?;
            let s = fmt(vfs.open(&ctx, e.inode.into(), libc::O_RDONLY as u32, 0).map(|(h, _, _)| h));
            let a = fmt(block_on(vfs.async_open(&ctx, e.inode.into(), libc::O_RDONLY as u32, 0)).map(|(h, _)| h));
            let pe = alone.lookup(&ctx, 1, &name)?;
            let ps = fmt(alone.open(&ctx, pe.inode, libc::O_RDONLY as u32, 0).map(|(h, _, _)| h));
            let pa = fmt(block_on(alone.async_open(&ctx, pe.inode, libc::O_RDONLY as u32, 0)).map(|(h, _)| h));
            out.push(format!("V{}={}/{} P{}={}/{}", k + 1, s, a, k + 1, ps, pa));
        }
        Ok(out.join(" | "))
    }
    pub fn main() {
        let args: Vec<String> = std::env::args().collect();
        let f = std::fs::File::open(&args[1]).expect("case file");
        let base = std::env::temp_dir().join(format!("verif-inittoggle-async-{}", std::process::id()));
        let out = io::stdout();
        let mut out = out.lock();
        for line in io::BufReader::new(f).lines() {
            let line = line.unwrap();
            let t: Vec<&str> = line.split_whitespace().collect();
            if t.len() < 5 {
                continue;
            }
            let oo: Option<u64> = if t[2] == "-" { None } else { Some(t[2].parse().unwrap()) };
            match run_case(&base.join("c"), t[1].parse().unwrap(), oo, [t[3].parse().unwrap(), t[4].parse().unwrap()]) {
                Ok(s) => writeln!(out, "{} {}", t[0], s).unwrap(),
                Err(e) => writeln!(out, "{} setup-error {:?}", t[0], e).unwrap(),
            }
        }
        let _ = std::fs::remove_dir_all(&base);
    }
}
