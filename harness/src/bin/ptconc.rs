// ptconc: runs 2-3 real threads issuing lookup / forget on one file of a real PassthroughFs under
// explicit schedules.  A deterministic scheduler is installed through the verif hook
// (fuse_backend_rs::verif_hooks): exactly one worker runs at a time, from one yield point to the
// next.  Either follows given schedules or enumerates all schedules depth-first (stateless: every
// schedule is a fresh run from the same initial table state).
// Input file:  r0 <n> / thread <L|F<n>>... / (dfs <max> | sched <t>...)*
// Output: one JSON line per executed schedule.
#![allow(clippy::all)]
use fuse_backend_rs::api::filesystem::{Context, FileSystem, FsOptions};
use fuse_backend_rs::passthrough::{Config, PassthroughFs};
use fuse_backend_rs::verif_hooks;
use std::cell::Cell;
use std::ffi::CString;
use std::sync::{Arc, Condvar, Mutex};

type Fs = PassthroughFs<()>;

#[derive(Clone, Debug)]
enum Op {
    L,
    F(u64),
    /// one READDIRPLUS on the directory `d` whose only entry is a hard link to the file; the transport's
    /// add_entry accepts the entry (true: the client holds one more reference) or reports that it does not
    /// fit (false: Ok(0), readdirplus gives the reference back with forget_one)
    R(bool),
}

struct Sched {
    turn: Option<usize>,
    pos: Vec<u32>, // last yield id reached; 9 = finished; 8 = not started
    opi: Vec<usize>, // index of the operation each worker is executing
}

static LAST_PRE: Mutex<Vec<u64>> = Mutex::new(Vec::new());

thread_local! { static TID: Cell<Option<usize>> = Cell::new(None); }

struct Ctl {
    m: Mutex<Sched>,
    cv: Condvar,
}

fn watchdog_secs() -> u64 {
    std::env::var("PTCONC_WATCHDOG").ok().and_then(|x| x.parse().ok()).unwrap_or(60)
}

fn fmt_progs(progs: &[Vec<Op>]) -> String {
    format!(
        "{:?}",
        progs
            .iter()
            .map(|p| {
                p.iter()
                    .map(|o| match o {
                        Op::L => "L".to_string(),
                        Op::F(c) => format!("F{}", c),
                        Op::R(true) => "R+".to_string(),
                        Op::R(false) => "R-".to_string(),
                    })
                    .collect::<Vec<_>>()
            })
            .collect::<Vec<_>>()
    )
}

/// Per-schedule watchdog verdict: the schedule does not complete.  The workers cannot be stopped (they may hold
/// locks of the file system), so the record is printed and the process ends; the caller goes on with the next program.
fn report_hung(reason: &str, r0: usize, progs: &[Vec<Op>], sched: &[usize], trace: &[u32], pos: &[u32]) -> ! {
    use std::io::Write;
    let cut = sched.len().min(80);
    println!(
        "{{\"hung\":\"{}\",\"r0\":{},\"progs\":{},\"steps\":{},\"sched\":{:?},\"trace\":{:?},\"pos\":{:?}}}",
        reason, r0, fmt_progs(progs), sched.len(), &sched[..cut], &trace[..cut.min(trace.len())], pos
    );
    let _ = std::io::stdout().flush();
    std::process::exit(0)
}

fn run_one(
    fs: &Arc<Fs>,
    ctl: &Arc<Ctl>,
    ino: u64,
    dir: (u64, u64),
    names: &[CString],
    r0: usize,
    progs: &[Vec<Op>],
    prefix: &[usize],
) -> (Vec<usize>, Vec<u32>, Vec<Vec<usize>>, Vec<Vec<i64>>, Vec<u64>) {
    let ctx = Context { uid: 0, gid: 0, pid: 1 };
    // reset the table entry of the file, then r0 references
    fs.forget(&ctx, ino, u64::MAX);
    // the r0 references held before the run; the numbers returned are reported (a file keeps its number while the
    // mapping is remembered: they must all be `ino`)
    let mut pre = vec![];
    for k in 0..r0 {
        let e = fs.lookup(&ctx, 1, &names[k % names.len()]).expect("pre-lookup");
        pre.push(e.inode);
    }
    *LAST_PRE.lock().unwrap() = pre;
    let n = progs.len();
    {
        let mut st = ctl.m.lock().unwrap();
        st.turn = None;
        st.pos = vec![8; n];
        st.opi = vec![0; n];
    }
    let mut handles = vec![];
    for t in 0..n {
        let fs = fs.clone();
        let ctl = ctl.clone();
        let prog = progs[t].clone();
        let name = names[t % names.len()].clone();
        handles.push(std::thread::spawn(move || {
            TID.with(|c| c.set(Some(t)));
            {
                let mut st = ctl.m.lock().unwrap();
                while st.turn != Some(t) {
                    st = ctl.cv.wait(st).unwrap();
                }
            }
            let ctx = Context { uid: 0, gid: 0, pid: 1 };
            let mut res: Vec<i64> = vec![];
            for (k, op) in prog.into_iter().enumerate() {
                ctl.m.lock().unwrap().opi[t] = k;
                match op {
                    Op::L => match fs.lookup(&ctx, 1, &name) {
                        Ok(e) => res.push(e.inode as i64),
                        Err(e) => res.push(-(e.raw_os_error().unwrap_or(999) as i64)),
                    },
                    Op::F(c) => {
                        fs.forget(&ctx, ino, c);
                        res.push(0)
                    }
                    Op::R(deliver) => {
                        let mut seen: i64 = 0;
                        let r = fs.readdirplus(&ctx, dir.0, dir.1, 4096, 0, &mut |_d, e| {
                            seen = e.inode as i64;
                            Ok(if deliver { 160 } else { 0 })
                        });
                        match r {
                            Ok(()) => res.push(seen),
                            Err(e) => res.push(-(e.raw_os_error().unwrap_or(999) as i64)),
                        }
                    }
                }
            }
            let mut st = ctl.m.lock().unwrap();
            st.pos[t] = 9;
            st.turn = None;
            ctl.cv.notify_all();
            res
        }));
    }
    // controller
    let mut sched = vec![];
    let mut trace = vec![];
    let mut enabled_at = vec![];
    loop {
        // Runnable workers.  While a forget is paused between its load and its compare-exchange
        // (yield point 5) it holds the inode map write lock: only lock-free continuations may run,
        // i.e. a lookup about to load (1), or about to compare-exchange (2) whose worker does not
        // go on to another lookup (whose prologue takes the read lock) when the exchange succeeds.
        let unfinished: Vec<usize> = {
            let st = ctl.m.lock().unwrap();
            let locked = (0..n).any(|t| st.pos[t] == 5);
            (0..n)
                .filter(|t| st.pos[*t] != 9)
                .filter(|t| {
                    if !locked || st.pos[*t] == 5 || st.pos[*t] == 1 {
                        return true;
                    }
                    if st.pos[*t] == 2 {
                        // a readdirplus that gives its reference back takes the write lock right after its
                        // compare-exchange; a following lookup / readdirplus takes the read lock in its prologue
                        if matches!(progs[*t].get(st.opi[*t]), Some(Op::R(false))) {
                            return false;
                        }
                        let next = progs[*t].get(st.opi[*t] + 1);
                        return !matches!(next, Some(Op::L) | Some(Op::R(_)));
                    }
                    false
                })
                .collect()
        };
        if unfinished.is_empty() {
            break;
        }
        let k = sched.len();
        let t = if k < prefix.len() && unfinished.contains(&prefix[k]) { prefix[k] } else { unfinished[0] };
        enabled_at.push(unfinished);
        sched.push(t);
        let mut st = ctl.m.lock().unwrap();
        st.turn = Some(t);
        ctl.cv.notify_all();
        // watchdog: the scheduled worker must reach its next yield point (or finish) within WATCHDOG seconds of
        // wall time; it is the only runnable thread, so no progress means it is blocked or spins without yielding
        let started = std::time::Instant::now();
        while st.turn.is_some() {
            let (g, _) = ctl.cv.wait_timeout(st, std::time::Duration::from_millis(500)).unwrap();
            st = g;
            if st.turn.is_some() && started.elapsed().as_secs() >= watchdog_secs() {
                let pos = st.pos.clone();
                drop(st);
                report_hung("no progress: the scheduled worker did not reach a yield point (blocked, or spinning without yielding)", r0, progs, &sched, &trace, &pos);
            }
        }
        trace.push(st.pos[t]);
        if sched.len() > 300 {
            let pos = st.pos.clone();
            drop(st);
            report_hung("no termination: more than 300 scheduling steps (a retry loop that never ends)", r0, progs, &sched, &trace, &pos);
        }
        if false {
            panic!("schedule does not terminate");
        }
    }
    let results: Vec<Vec<i64>> = handles.into_iter().map(|h| h.join().unwrap()).collect();
    let dones: Vec<u64> = results.iter().map(|r| r.len() as u64).collect();
    (sched, trace, enabled_at, results, dones)
}

fn main() {
    let args: Vec<String> = std::env::args().collect();
    let script = std::fs::read_to_string(&args[1]).expect("script");
    let base = args.get(2).cloned().unwrap_or_else(|| "/tmp".to_string());
    let root = format!("{}/ptconc-{}", base, std::process::id());
    let _ = std::fs::remove_dir_all(&root);
    std::fs::create_dir_all(&root).unwrap();
    std::fs::write(format!("{}/f", root), b"x").unwrap();
    std::fs::hard_link(format!("{}/f", root), format!("{}/g", root)).unwrap();
    std::fs::create_dir(format!("{}/d", root)).unwrap();
    std::fs::hard_link(format!("{}/f", root), format!("{}/d/h", root)).unwrap();
    let names = vec![CString::new("f").unwrap(), CString::new("g").unwrap()];
    let mut cfg = Config::default();
    cfg.root_dir = root.clone();
    cfg.do_import = true;
    // optional first directive: cfg <inode_file_handles 0|1> <use_host_ino 0|1>
    let mut cell = (0, 0);
    if let Some(l) = script.lines().next() {
        let w: Vec<&str> = l.split_whitespace().collect();
        if w.first() == Some(&"cfg") {
            cell = (w[1].parse().unwrap(), w[2].parse().unwrap());
        }
    }
    cfg.inode_file_handles = cell.0 == 1;
    cfg.use_host_ino = cell.1 == 1;
    let fs = Arc::new(Fs::new(cfg).expect("new"));
    fs.init(FsOptions::empty()).expect("init");
    let ctx = Context { uid: 0, gid: 0, pid: 1 };
    // learn the number of the file (the mapping is kept after forget)
    let ino = fs.lookup(&ctx, 1, &names[0]).expect("lookup").inode;
    fs.forget(&ctx, ino, 1);
    // the directory listed by the readdirplus operations: looked up and opened once, for the whole run
    let dino = fs.lookup(&ctx, 1, &CString::new("d").unwrap()).expect("lookup d").inode;
    let dh = fs.opendir(&ctx, dino, libc::O_RDONLY as u32).expect("opendir d").0.expect("handle");
    let dir = (dino, dh);

    let ctl = Arc::new(Ctl { m: Mutex::new(Sched { turn: None, pos: vec![], opi: vec![] }), cv: Condvar::new() });
    {
        let ctl = ctl.clone();
        verif_hooks::install_scheduler(Some(Arc::new(move |id: u32| {
            let me = TID.with(|c| c.get());
            if let Some(t) = me {
                let mut st = ctl.m.lock().unwrap();
                st.pos[t] = id;
                st.turn = None;
                ctl.cv.notify_all();
                while st.turn != Some(t) {
                    st = ctl.cv.wait(st).unwrap();
                }
            }
        })));
    }

    let mut r0 = 0usize;
    let mut post: u64 = 0;
    let mut progs: Vec<Vec<Op>> = vec![];
    let emit = |fs: &Arc<Fs>, r0: usize, post: u64, progs: &Vec<Vec<Op>>, out: &(Vec<usize>, Vec<u32>, Vec<Vec<usize>>, Vec<Vec<i64>>, Vec<u64>)| {
        let ctx = Context { uid: 0, gid: 0, pid: 1 };
        let rc = fs.verif_refcount(ino).map(|x| x as i64).unwrap_or(-1);
        let ga = fs.getattr(&ctx, ino, None).err().map(|e| e.raw_os_error().unwrap_or(-1)).unwrap_or(0);
        let sz = fs.verif_table_sizes();
        // post-run probe: the client forgets `post` of the references it still holds; the number
        // must stay usable if it holds more than that
        let (rc2, ga2) = if post > 0 {
            fs.forget(&ctx, ino, post);
            (
                fs.verif_refcount(ino).map(|x| x as i64).unwrap_or(-1),
                fs.getattr(&ctx, ino, None).err().map(|e| e.raw_os_error().unwrap_or(-1)).unwrap_or(0),
            )
        } else {
            (rc, ga)
        };
        println!(
            "{{\"pre\":{:?},\"cell\":[{},{}],\"r0\":{},\"post\":{},\"rc2\":{},\"getattr2\":{},\"progs\":{:?},\"ino\":{},\"sched\":{:?},\"trace\":{:?},\"results\":{:?},\"dones\":{:?},\"rc\":{},\"getattr\":{},\"ninodes\":{}}}",
            LAST_PRE.lock().unwrap().clone(), cell.0, cell.1, r0, post, rc2, ga2,
            progs.iter().map(|p| p.iter().map(|o| match o { Op::L => "L".to_string(), Op::F(c) => format!("F{}", c), Op::R(true) => "R+".to_string(), Op::R(false) => "R-".to_string() }).collect::<Vec<_>>()).collect::<Vec<_>>(),
            ino, out.0, out.1, out.3, out.4, rc, ga, sz.0
        );
    };
    for l in script.lines() {
        let w: Vec<&str> = l.split_whitespace().collect();
        if w.is_empty() {
            continue;
        }
        match w[0] {
            "cfg" => {}
            "r0" => {
                r0 = w[1].parse().unwrap();
                post = 0;
                progs.clear();
            }
            "post" => post = w[1].parse().unwrap(),
            "thread" => progs.push(
                w[1..]
                    .iter()
                    .map(|o| match *o {
                        "L" => Op::L,
                        "R+" => Op::R(true),
                        "R-" => Op::R(false),
                        _ => Op::F(o[1..].parse().unwrap()),
                    })
                    .collect(),
            ),
            "sched" => {
                let prefix: Vec<usize> = w[1..].iter().map(|x| x.parse().unwrap()).collect();
                let out = run_one(&fs, &ctl, ino, dir, &names, r0, &progs, &prefix);
                emit(&fs, r0, post, &progs, &out);
            }
            "stress" => {
                // free-running threads (no scheduling: workers are not registered, the callback returns at
                // once): the program is run <iters> times from the same initial state and the distinct final
                // counts are reported.  Last resort of the failing-input search when no yield point separates
                // the racing steps.
                let iters: usize = w[1].parse().unwrap();
                let n = progs.len();
                let start = Arc::new(std::sync::atomic::AtomicUsize::new(0));
                let done = Arc::new(std::sync::atomic::AtomicUsize::new(0));
                let stop = Arc::new(std::sync::atomic::AtomicBool::new(false));
                let mut hs = vec![];
                for t in 0..n {
                    let (fs, prog, name, start, done, stop) = (fs.clone(), progs[t].clone(), names[t % names.len()].clone(), start.clone(), done.clone(), stop.clone());
                    hs.push(std::thread::spawn(move || {
                        let ctx = Context { uid: 0, gid: 0, pid: 1 };
                        let mut round = 0usize;
                        loop {
                            while start.load(std::sync::atomic::Ordering::Acquire) <= round {
                                if stop.load(std::sync::atomic::Ordering::Acquire) {
                                    return;
                                }
                                std::hint::spin_loop();
                            }
                            round += 1;
                            for op in &prog {
                                match op {
                                    Op::L => {
                                        let _ = fs.lookup(&ctx, 1, &name);
                                    }
                                    Op::F(c) => fs.forget(&ctx, ino, *c),
                                    Op::R(deliver) => {
                                        let del = *deliver;
                                        let _ = fs.readdirplus(&ctx, dir.0, dir.1, 4096, 0, &mut |_d, _e| Ok(if del { 160 } else { 0 }));
                                    }
                                }
                            }
                            done.fetch_add(1, std::sync::atomic::Ordering::AcqRel);
                        }
                    }));
                }
                let mut outcomes: std::collections::BTreeMap<(i64, i32), usize> = Default::default();
                for it in 0..iters {
                    fs.forget(&ctx, ino, u64::MAX);
                    for k in 0..r0 {
                        fs.lookup(&ctx, 1, &names[k % names.len()]).expect("pre-lookup");
                    }
                    start.store(it + 1, std::sync::atomic::Ordering::Release);
                    while done.load(std::sync::atomic::Ordering::Acquire) < (it + 1) * n {
                        std::hint::spin_loop();
                    }
                    let rc = fs.verif_refcount(ino).map(|x| x as i64).unwrap_or(-1);
                    let ga = fs.getattr(&ctx, ino, None).err().map(|e| e.raw_os_error().unwrap_or(-1)).unwrap_or(0);
                    *outcomes.entry((rc, ga)).or_insert(0) += 1;
                }
                stop.store(true, std::sync::atomic::Ordering::Release);
                for h in hs {
                    let _ = h.join();
                }
                let o: Vec<String> = outcomes.iter().map(|((rc, ga), c)| format!("[{},{},{}]", rc, ga, c)).collect();
                println!(
                    "{{\"stress\":{},\"r0\":{},\"progs\":{:?},\"ino\":{},\"outcomes\":[{}]}}",
                    iters, r0,
                    progs.iter().map(|p| p.iter().map(|o| match o { Op::L => "L".to_string(), Op::F(c) => format!("F{}", c), Op::R(true) => "R+".to_string(), Op::R(false) => "R-".to_string() }).collect::<Vec<_>>()).collect::<Vec<_>>(),
                    ino, o.join(",")
                );
            }
            "dfs" => {
                let max: usize = w[1].parse().unwrap();
                let budget: u64 = w.get(2).and_then(|x| x.parse().ok()).unwrap_or(3600);
                let t0 = std::time::Instant::now();
                let mut prefix: Vec<usize> = vec![];
                let mut count = 0;
                loop {
                    let out = run_one(&fs, &ctl, ino, dir, &names, r0, &progs, &prefix);
                    emit(&fs, r0, post, &progs, &out);
                    count += 1;
                    if count >= max || t0.elapsed().as_secs() >= budget {
                        println!("{{\"dfs_truncated\":true,\"by\":\"{}\",\"count\":{}}}", if count >= max { "count" } else { "time" }, count);
                        break;
                    }
                    // deepest decision with an untried larger alternative
                    let (sched, _, enabled, _, _) = &out;
                    let mut next: Option<Vec<usize>> = None;
                    for i in (0..sched.len()).rev() {
                        if let Some(alt) = enabled[i].iter().find(|t| **t > sched[i]) {
                            let mut p = sched[..i].to_vec();
                            p.push(*alt);
                            next = Some(p);
                            break;
                        }
                    }
                    match next {
                        Some(p) => prefix = p,
                        None => {
                            println!("{{\"dfs_complete\":{}}}", count);
                            break;
                        }
                    }
                }
            }
            x => panic!("unknown directive {}", x),
        }
    }
    verif_hooks::install_scheduler(None);
    let _ = std::fs::remove_dir_all(&root);
}
