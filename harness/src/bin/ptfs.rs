// ptfs: history runner for C05/C06.
//
// Reads histories from the file given as argv[1]; prints one result line per request.
//   H <id> <mode> <root_dir> k=v,k=v,...        start a history (mode: pt | vfs | vfslog | shadow)
//   O <op> <args...>                            one request
//   E                                           end of history (server dropped)
// Inodes and handles are referred to by SLOT: slot 0 of the inode slots is the root; every
// entry-returning request (lookup mkdir mknod create symlink link) appends its inode (0 on failure);
// every handle-returning request (open opendir create) appends its handle (0 on failure / none).
// `#n` instead of a slot index passes the raw number n.  Names/data are hex (`-` = empty).
//
// Modes: pt = standalone PassthroughFs (do_import = true); vfs = PassthroughFs (do_import = false)
// mounted at "/" of a Vfs; vfslog = a logging backend mounted at "/" of a Vfs (prints the backend
// calls each request caused); shadow = the reference: plain libc calls on the directory.
// After every request the serving thread's euid/egid/CAP_FSETID are printed.
#![allow(clippy::all)]
use fuse_backend_rs::abi::fuse_abi::{stat64, statvfs64, CreateIn};
use fuse_backend_rs::api::filesystem::{
    Context, DirEntry, Entry, FileSystem, FsOptions, GetxattrReply, ListxattrReply, OpenOptions,
    SetattrValid, ZeroCopyReader, ZeroCopyWriter,
};
use fuse_backend_rs::api::{BackendFileSystem, Vfs, VfsOptions};
use fuse_backend_rs::file_buf::FileVolatileSlice;
use fuse_backend_rs::file_traits::FileReadWriteVolatile;
use fuse_backend_rs::passthrough::{CachePolicy, Config, PassthroughFs};
use std::any::Any;
use std::ffi::{CStr, CString};
use std::io::{self, BufRead, Read, Write};
use std::sync::Mutex;
use std::time::Duration;

fn hex(b: &[u8]) -> String {
    if b.is_empty() {
        return "-".to_string();
    }
    b.iter().map(|x| format!("{:02x}", x)).collect()
}
fn unhex(s: &str) -> Vec<u8> {
    if s == "-" {
        return vec![];
    }
    (0..s.len() / 2).map(|i| u8::from_str_radix(&s[2 * i..2 * i + 2], 16).unwrap()).collect()
}
fn cstr(s: &str) -> CString {
    // the bytes up to the first NUL (what a &CStr can hold)
    let mut b = unhex(s);
    if let Some(p) = b.iter().position(|&x| x == 0) {
        b.truncate(p);
    }
    CString::new(b).unwrap()
}
fn errno_of(e: &io::Error) -> i32 {
    e.raw_os_error().unwrap_or(-(e.kind() as i32) - 1000)
}
fn fmt_stat(st: &stat64) -> String {
    format!(
        "dev={} ino={} mode={} nlink={} uid={} gid={} size={} rdev={} atime={}.{} mtime={}.{} ctime={}.{} blksize={}",
        st.st_dev, st.st_ino, st.st_mode, st.st_nlink, st.st_uid, st.st_gid, st.st_size, st.st_rdev,
        st.st_atime, st.st_atime_nsec, st.st_mtime, st.st_mtime_nsec, st.st_ctime, st.st_ctime_nsec, st.st_blksize
    )
}
fn now_secs() -> u64 {
    std::time::SystemTime::now().duration_since(std::time::UNIX_EPOCH).map(|d| d.as_secs()).unwrap_or(0)
}
// explicit atime/mtime of a setattr request: optional trailing arguments asec ansec msec mnsec
fn req_times(a: &[&str]) -> (i64, i64, i64, i64) {
    if a.len() >= 12 {
        (num(a[8]) as i64, num(a[9]) as i64, num(a[10]) as i64, num(a[11]) as i64)
    } else {
        (1_000_000, 0, 2_000_000, 0)
    }
}
fn thread_creds() -> String {
    let euid = unsafe { libc::syscall(libc::SYS_geteuid) };
    let egid = unsafe { libc::syscall(libc::SYS_getegid) };
    // capget, version 3
    let mut hdr: [u32; 2] = [0x20080522, 0];
    let mut data: [u32; 6] = [0; 6];
    let r = unsafe { libc::syscall(libc::SYS_capget, hdr.as_mut_ptr(), data.as_mut_ptr()) };
    let eff = if r == 0 { data[0] } else { 0xffff_ffff };
    let fsetid = (eff >> 4) & 1; // CAP_FSETID = 4
    let mut ngroups = unsafe { libc::getgroups(0, std::ptr::null_mut()) };
    if ngroups < 0 {
        ngroups = -1;
    }
    format!("euid={} egid={} fsetid={} eff={:x} ngroups={}", euid, egid, fsetid, eff, ngroups)
}

struct BufW(Vec<u8>);
impl Write for BufW {
    fn write(&mut self, b: &[u8]) -> io::Result<usize> {
        self.0.extend_from_slice(b);
        Ok(b.len())
    }
    fn flush(&mut self) -> io::Result<()> {
        Ok(())
    }
}
impl ZeroCopyWriter for BufW {
    fn write_from(&mut self, f: &mut dyn FileReadWriteVolatile, count: usize, off: u64) -> io::Result<usize> {
        let mut buf = vec![0u8; count];
        let n = f.read_at_volatile(unsafe { FileVolatileSlice::from_raw_ptr(buf.as_mut_ptr(), count) }, off)?;
        self.0.extend_from_slice(&buf[..n]);
        Ok(n)
    }
    fn available_bytes(&self) -> usize {
        usize::MAX
    }
}
struct BufR(Vec<u8>, usize);
impl Read for BufR {
    fn read(&mut self, b: &mut [u8]) -> io::Result<usize> {
        let n = std::cmp::min(b.len(), self.0.len() - self.1);
        b[..n].copy_from_slice(&self.0[self.1..self.1 + n]);
        self.1 += n;
        Ok(n)
    }
}
impl ZeroCopyReader for BufR {
    fn read_to(&mut self, f: &mut dyn FileReadWriteVolatile, count: usize, off: u64) -> io::Result<usize> {
        let n = std::cmp::min(count, self.0.len() - self.1);
        let p = self.0[self.1..].as_mut_ptr();
        let w = f.write_at_volatile(unsafe { FileVolatileSlice::from_raw_ptr(p, n) }, off)?;
        self.1 += w;
        Ok(w)
    }
}

// ------------------------------------------------------------------ logging backend
struct LogFs {
    log: &'static Mutex<Vec<String>>,
}
static LOG: Mutex<Vec<String>> = Mutex::new(Vec::new());
fn zero_entry(ino: u64) -> Entry {
    let mut st: stat64 = unsafe { std::mem::zeroed() };
    st.st_ino = ino;
    st.st_mode = libc::S_IFDIR | 0o755;
    st.st_nlink = 2;
    Entry { inode: ino, generation: 0, attr: st, attr_flags: 0, attr_timeout: Duration::from_secs(0), entry_timeout: Duration::from_secs(0) }
}
impl LogFs {
    fn rec(&self, m: &str, names: &[&CStr]) {
        let mut s = m.to_string();
        for n in names {
            s.push(':');
            s.push_str(&hex(n.to_bytes()));
        }
        self.log.lock().unwrap().push(s);
    }
}
impl FileSystem for LogFs {
    type Inode = u64;
    type Handle = u64;
    fn init(&self, _c: FsOptions) -> io::Result<FsOptions> {
        Ok(FsOptions::empty())
    }
    fn lookup(&self, _c: &Context, _p: u64, name: &CStr) -> io::Result<Entry> {
        self.rec("lookup", &[name]);
        Ok(zero_entry(2))
    }
    fn mkdir(&self, _c: &Context, _p: u64, name: &CStr, _m: u32, _u: u32) -> io::Result<Entry> {
        self.rec("mkdir", &[name]);
        Ok(zero_entry(2))
    }
    fn mknod(&self, _c: &Context, _p: u64, name: &CStr, _m: u32, _r: u32, _u: u32) -> io::Result<Entry> {
        self.rec("mknod", &[name]);
        Ok(zero_entry(2))
    }
    fn create(&self, _c: &Context, _p: u64, name: &CStr, _a: CreateIn) -> io::Result<(Entry, Option<u64>, OpenOptions, Option<u32>)> {
        self.rec("create", &[name]);
        Ok((zero_entry(2), None, OpenOptions::empty(), None))
    }
    fn symlink(&self, _c: &Context, linkname: &CStr, _p: u64, name: &CStr) -> io::Result<Entry> {
        self.rec("symlink", &[name, linkname]);
        Ok(zero_entry(2))
    }
    fn link(&self, _c: &Context, _i: u64, _p: u64, name: &CStr) -> io::Result<Entry> {
        self.rec("link", &[name]);
        Ok(zero_entry(2))
    }
    fn unlink(&self, _c: &Context, _p: u64, name: &CStr) -> io::Result<()> {
        self.rec("unlink", &[name]);
        Ok(())
    }
    fn rmdir(&self, _c: &Context, _p: u64, name: &CStr) -> io::Result<()> {
        self.rec("rmdir", &[name]);
        Ok(())
    }
    fn rename(&self, _c: &Context, _o: u64, on: &CStr, _n: u64, nn: &CStr, _f: u32) -> io::Result<()> {
        self.rec("rename", &[on, nn]);
        Ok(())
    }
    fn getattr(&self, _c: &Context, i: u64, _h: Option<u64>) -> io::Result<(stat64, Duration)> {
        self.rec("getattr", &[]);
        Ok((zero_entry(i).attr, Duration::from_secs(0)))
    }
    fn setxattr(&self, _c: &Context, _i: u64, name: &CStr, _v: &[u8], _f: u32) -> io::Result<()> {
        self.rec("setxattr", &[name]);
        Ok(())
    }
}
impl BackendFileSystem for LogFs {
    fn mount(&self) -> io::Result<(Entry, u64)> {
        Ok((zero_entry(1), (1u64 << 56) - 1))
    }
    fn as_any(&self) -> &dyn Any {
        self
    }
}

// ------------------------------------------------------------------ request interpreter
struct Slots {
    inodes: Vec<u64>,
    handles: Vec<u64>,
}
fn slot(v: &[u64], a: &str) -> u64 {
    if let Some(r) = a.strip_prefix('#') {
        return r.parse().unwrap();
    }
    let i: usize = a.parse().unwrap();
    if i < v.len() {
        v[i]
    } else {
        0
    }
}
fn num(a: &str) -> u64 {
    if let Some(h) = a.strip_prefix("0x") {
        u64::from_str_radix(h, 16).unwrap()
    } else if let Some(o) = a.strip_prefix("0o") {
        u64::from_str_radix(o, 8).unwrap()
    } else {
        a.parse().unwrap()
    }
}
fn ctx(uid: &str, gid: &str) -> Context {
    let mut c = Context::new();
    c.uid = num(uid) as u32;
    c.gid = num(gid) as u32;
    c.pid = 1;
    c
}
fn err_line(e: &io::Error) -> String {
    format!("errno={}", errno_of(e))
}
fn entry_line(e: &Entry) -> String {
    format!("errno=0 {} attr_flags={}", fmt_stat(&e.attr), e.attr_flags)
}

fn run_fs<F: FileSystem>(fs: &F, s: &mut Slots, a: &[&str]) -> String
where
    F::Inode: From<u64> + Into<u64> + Copy,
    F::Handle: From<u64> + Into<u64> + Copy,
{
    let root = Context::new();
    let ino = |s: &Slots, x: &str| -> F::Inode { F::Inode::from(slot(&s.inodes, x)) };
    let hnd = |s: &Slots, x: &str| -> F::Handle { F::Handle::from(slot(&s.handles, x)) };
    let push_entry = |s: &mut Slots, r: io::Result<Entry>| -> String {
        match r {
            Ok(e) => {
                s.inodes.push(e.inode);
                entry_line(&e)
            }
            Err(e) => {
                s.inodes.push(0);
                err_line(&e)
            }
        }
    };
    let unit = |r: io::Result<()>| -> String {
        match r {
            Ok(()) => "errno=0".to_string(),
            Err(e) => err_line(&e),
        }
    };
    match a[0] {
        "lookup" => {
            let r = fs.lookup(&root, ino(s, a[1]), &cstr(a[2]));
            push_entry(s, r)
        }
        "forget" => {
            fs.forget(&root, ino(s, a[1]), num(a[2]));
            "errno=0".to_string()
        }
        "batch_forget" => {
            // batch_forget I count [I count ...]
            let mut v = vec![];
            let mut k = 1;
            while k + 1 < a.len() {
                v.push((ino(s, a[k]), num(a[k + 1])));
                k += 2;
            }
            fs.batch_forget(&root, v);
            "errno=0".to_string()
        }
        "getattr" => {
            let h = if a[2] == "-" { None } else { Some(hnd(s, a[2])) };
            match fs.getattr(&root, ino(s, a[1]), h) {
                Ok((st, _)) => format!("errno=0 {}", fmt_stat(&st)),
                Err(e) => err_line(&e),
            }
        }
        "setattr" => {
            // setattr I H valid mode uid gid size
            let h = if a[2] == "-" { None } else { Some(hnd(s, a[2])) };
            let valid = SetattrValid::from_bits_truncate(num(a[3]) as u32);
            let mut st: stat64 = unsafe { std::mem::zeroed() };
            st.st_mode = num(a[4]) as u32;
            st.st_uid = num(a[5]) as u32;
            st.st_gid = num(a[6]) as u32;
            st.st_size = num(a[7]) as i64;
            let (asec, ansec, msec, mnsec) = req_times(a);
            st.st_atime = asec;
            st.st_atime_nsec = ansec;
            st.st_mtime = msec;
            st.st_mtime_nsec = mnsec;
            match fs.setattr(&root, ino(s, a[1]), st, h, valid) {
                Ok((st, _)) => format!("errno=0 {} now={}", fmt_stat(&st), now_secs()),
                Err(e) => err_line(&e),
            }
        }
        "mkdir" => {
            let r = fs.mkdir(&ctx(a[5], a[6]), ino(s, a[1]), &cstr(a[2]), num(a[3]) as u32, num(a[4]) as u32);
            push_entry(s, r)
        }
        "mknod" => {
            let r = fs.mknod(&ctx(a[6], a[7]), ino(s, a[1]), &cstr(a[2]), num(a[3]) as u32, num(a[4]) as u32, num(a[5]) as u32);
            push_entry(s, r)
        }
        "create" => {
            // create P name mode umask flags fuse_flags uid gid
            let args = CreateIn { flags: num(a[5]) as u32, mode: num(a[3]) as u32, umask: num(a[4]) as u32, fuse_flags: num(a[6]) as u32 };
            match fs.create(&ctx(a[7], a[8]), ino(s, a[1]), &cstr(a[2]), args) {
                Ok((e, h, opts, _)) => {
                    s.inodes.push(e.inode);
                    s.handles.push(h.map(|x| x.into()).unwrap_or(0));
                    format!("{} handle={} opts={}", entry_line(&e), h.is_some() as u8, opts.bits())
                }
                Err(e) => {
                    s.inodes.push(0);
                    s.handles.push(0);
                    err_line(&e)
                }
            }
        }
        "symlink" => {
            let r = fs.symlink(&ctx(a[4], a[5]), &cstr(a[3]), ino(s, a[1]), &cstr(a[2]));
            push_entry(s, r)
        }
        "link" => {
            let r = fs.link(&root, ino(s, a[1]), ino(s, a[2]), &cstr(a[3]));
            push_entry(s, r)
        }
        "unlink" => unit(fs.unlink(&root, ino(s, a[1]), &cstr(a[2]))),
        "rmdir" => unit(fs.rmdir(&root, ino(s, a[1]), &cstr(a[2]))),
        "rename" => unit(fs.rename(&root, ino(s, a[1]), &cstr(a[2]), ino(s, a[3]), &cstr(a[4]), num(a[5]) as u32)),
        "open" => match fs.open(&root, ino(s, a[1]), num(a[2]) as u32, num(a[3]) as u32) {
            Ok((h, opts, _)) => {
                s.handles.push(h.map(|x| x.into()).unwrap_or(0));
                format!("errno=0 handle={} opts={}", h.is_some() as u8, opts.bits())
            }
            Err(e) => {
                s.handles.push(0);
                err_line(&e)
            }
        },
        "opendir" => match fs.opendir(&root, ino(s, a[1]), num(a[2]) as u32) {
            Ok((h, opts)) => {
                s.handles.push(h.map(|x| x.into()).unwrap_or(0));
                format!("errno=0 handle={} opts={}", h.is_some() as u8, opts.bits())
            }
            Err(e) => {
                s.handles.push(0);
                err_line(&e)
            }
        },
        "release" => unit(fs.release(&root, ino(s, a[1]), 0, hnd(s, a[2]), false, false, None)),
        "releasedir" => unit(fs.releasedir(&root, ino(s, a[1]), 0, hnd(s, a[2]))),
        "read" => {
            // read I H size off flags
            let mut w = BufW(vec![]);
            match fs.read(&root, ino(s, a[1]), hnd(s, a[2]), &mut w, num(a[3]) as u32, num(a[4]), None, num(a[5]) as u32) {
                Ok(n) => format!("errno=0 n={} data={}", n, hex(&w.0)),
                Err(e) => err_line(&e),
            }
        }
        "write" => {
            // write I H off data flags fuse_flags
            let d = unhex(a[4]);
            let n = d.len();
            let mut r = BufR(d, 0);
            match fs.write(&root, ino(s, a[1]), hnd(s, a[2]), &mut r, n as u32, num(a[3]), None, false, num(a[5]) as u32, num(a[6]) as u32) {
                Ok(n) => format!("errno=0 n={}", n),
                Err(e) => err_line(&e),
            }
        }
        "readlink" => match fs.readlink(&root, ino(s, a[1])) {
            Ok(v) => format!("errno=0 data={}", hex(&v)),
            Err(e) => err_line(&e),
        },
        "readdir" => {
            // readdir I H size off  -> names (sorted by python), d_ino list
            let mut names: Vec<String> = vec![];
            let r = fs.readdir(&root, ino(s, a[1]), hnd(s, a[2]), num(a[3]) as u32, num(a[4]), &mut |d: DirEntry| {
                names.push(format!("{}:{}:{}", hex(d.name), d.ino, d.type_));
                Ok(1)
            });
            match r {
                Ok(()) => format!("errno=0 ents={}", if names.is_empty() { "-".to_string() } else { names.join(",") }),
                Err(e) => err_line(&e),
            }
        }
        "readdirplus" => {
            // readdirplus I H size off -> name:dev:ino:mode of every entry's looked-up attributes (the references taken are forgotten)
            let mut names: Vec<String> = vec![];
            let mut got: Vec<u64> = vec![];
            let r = fs.readdirplus(&root, ino(s, a[1]), hnd(s, a[2]), num(a[3]) as u32, num(a[4]), &mut |d: DirEntry, e: Entry| {
                names.push(format!("{}:{}:{}:{}", hex(d.name), e.attr.st_dev, e.attr.st_ino, e.attr.st_mode));
                got.push(e.inode);
                Ok(1)
            });
            for i in got {
                fs.forget(&root, F::Inode::from(i), 1);
            }
            match r {
                Ok(()) => format!("errno=0 pents={}", if names.is_empty() { "-".to_string() } else { names.join(",") }),
                Err(e) => err_line(&e),
            }
        }
        "fsyncdir" => unit(fs.fsyncdir(&root, ino(s, a[1]), num(a[3]) != 0, hnd(s, a[2]))),
        "setxattr" => unit(fs.setxattr(&root, ino(s, a[1]), &cstr(a[2]), &unhex(a[3]), num(a[4]) as u32)),
        "getxattr" => match fs.getxattr(&root, ino(s, a[1]), &cstr(a[2]), num(a[3]) as u32) {
            Ok(GetxattrReply::Value(v)) => format!("errno=0 data={}", hex(&v)),
            Ok(GetxattrReply::Count(n)) => format!("errno=0 n={}", n),
            Err(e) => err_line(&e),
        },
        "listxattr" => match fs.listxattr(&root, ino(s, a[1]), num(a[2]) as u32) {
            Ok(ListxattrReply::Names(v)) => format!("errno=0 data={}", hex(&v)),
            Ok(ListxattrReply::Count(n)) => format!("errno=0 n={}", n),
            Err(e) => err_line(&e),
        },
        "removexattr" => unit(fs.removexattr(&root, ino(s, a[1]), &cstr(a[2]))),
        "fallocate" => unit(fs.fallocate(&root, ino(s, a[1]), hnd(s, a[2]), num(a[3]) as u32, num(a[4]), num(a[5]))),
        "lseek" => match fs.lseek(&root, ino(s, a[1]), hnd(s, a[2]), num(a[3]), num(a[4]) as u32) {
            Ok(n) => format!("errno=0 n={}", n),
            Err(e) => err_line(&e),
        },
        "fsync" => unit(fs.fsync(&root, ino(s, a[1]), num(a[3]) != 0, hnd(s, a[2]))),
        "flush" => unit(fs.flush(&root, ino(s, a[1]), hnd(s, a[2]), 0)),
        "statfs" => match fs.statfs(&root, ino(s, a[1])) {
            Ok(st) => format!("errno=0 bsize={} namemax={}", st.f_bsize, st.f_namemax),
            Err(e) => err_line(&e),
        },
        "access" => unit(fs.access(&ctx(a[3], a[4]), ino(s, a[1]), num(a[2]) as u32)),
        x => format!("errno=-1 unknown-op={}", x),
    }
}

// ------------------------------------------------------------------ shadow: plain libc calls
thread_local! { static HFLAG: std::cell::Cell<u32> = std::cell::Cell::new(0); }
struct Shadow {
    fds: Vec<i32>,       // inode slots: O_PATH fds (-1 = failed)
    hs: Vec<(i32, i32)>, // handle slots: (fd, inode slot)
    hflags: Vec<u32>,    // flags last applied to the descriptor of each handle slot
    direct_io: bool,     // allow_direct_io: otherwise O_DIRECT is stripped from open and F_SETFL flags
    writeback: bool,
    no_open: bool,
    no_opendir: bool,
    killpriv: bool,
    xattr: bool,
}
fn last() -> i32 {
    io::Error::last_os_error().raw_os_error().unwrap_or(-1)
}
fn fstat_fd(fd: i32) -> Result<stat64, i32> {
    let mut st: stat64 = unsafe { std::mem::zeroed() };
    let e = CString::new("").unwrap();
    let r = unsafe { libc::fstatat64(fd, e.as_ptr(), &mut st, libc::AT_EMPTY_PATH | libc::AT_SYMLINK_NOFOLLOW) };
    if r < 0 {
        Err(last())
    } else {
        Ok(st)
    }
}
fn unsafe_name(n: &CStr) -> bool {
    let b = n.to_bytes();
    b.contains(&b'/') || b == b"." || b == b".."
}
struct AsUser(u32, u32);
impl AsUser {
    fn enter(uid: u32, gid: u32) -> Result<AsUser, i32> {
        if gid != 0 && unsafe { libc::syscall(libc::SYS_setresgid, -1, gid, -1) } != 0 {
            return Err(last());
        }
        if uid != 0 && unsafe { libc::syscall(libc::SYS_setresuid, -1, uid, -1) } != 0 {
            let e = last();
            if gid != 0 {
                unsafe { libc::syscall(libc::SYS_setresgid, -1, 0, -1) };
            }
            return Err(e);
        }
        Ok(AsUser(uid, gid))
    }
}
impl Drop for AsUser {
    fn drop(&mut self) {
        if self.0 != 0 {
            unsafe { libc::syscall(libc::SYS_setresuid, -1, 0, -1) };
        }
        if self.1 != 0 {
            unsafe { libc::syscall(libc::SYS_setresgid, -1, 0, -1) };
        }
    }
}
fn set_fsetid(on: bool) {
    let mut hdr: [u32; 2] = [0x20080522, 0];
    let mut data: [u32; 6] = [0; 6];
    unsafe { libc::syscall(libc::SYS_capget, hdr.as_mut_ptr(), data.as_mut_ptr()) };
    if on {
        data[0] |= 1 << 4;
    } else {
        data[0] &= !(1 << 4);
    }
    unsafe { libc::syscall(libc::SYS_capset, hdr.as_mut_ptr(), data.as_ptr()) };
}
impl Shadow {
    fn fd(&self, a: &str) -> i32 {
        if a.starts_with('#') {
            return -1;
        }
        let i: usize = a.parse().unwrap();
        if i < self.fds.len() {
            self.fds[i]
        } else {
            -1
        }
    }
    fn h(&self, a: &str, inode: &str) -> i32 {
        if a.starts_with('#') || inode.starts_with('#') {
            return -1;
        }
        let i: usize = a.parse().unwrap();
        let ino: usize = inode.parse().unwrap();
        if i < self.hs.len() && ino < self.fds.len() && self.hs[i].0 >= 0 {
            // a handle is valid only together with the inode it was opened on
            let (fd, islot) = self.hs[i];
            let same = match (fstat_fd(self.fds[islot as usize]), fstat_fd(self.fds[ino])) {
                (Ok(x), Ok(y)) => x.st_ino == y.st_ino && x.st_dev == y.st_dev,
                _ => false,
            };
            if same {
                fd
            } else {
                -1
            }
        } else {
            -1
        }
    }
    fn wb_flags(&self, flags: i32) -> i32 {
        let mut f = flags;
        if self.writeback && flags & libc::O_ACCMODE == libc::O_WRONLY {
            f = (f & !libc::O_ACCMODE) | libc::O_RDWR;
        }
        if self.writeback && flags & libc::O_APPEND != 0 {
            f &= !libc::O_APPEND;
        }
        f
    }
    fn lookup_fd(&mut self, dfd: i32, name: &CStr, is_root: bool) -> String {
        if dfd < 0 {
            self.fds.push(-1);
            return format!("errno={}", libc::EBADF);
        }
        let dot = CString::new(".").unwrap();
        let n: &CStr = if is_root && name.to_bytes() == b".." { &dot } else { name };
        let fd = unsafe { libc::openat(dfd, n.as_ptr(), libc::O_PATH | libc::O_NOFOLLOW | libc::O_CLOEXEC) };
        if fd < 0 {
            self.fds.push(-1);
            return format!("errno={}", last());
        }
        match fstat_fd(fd) {
            Ok(st) => {
                self.fds.push(fd);
                format!("errno=0 {} attr_flags=0", fmt_stat(&st))
            }
            Err(e) => {
                self.fds.push(-1);
                format!("errno={}", e)
            }
        }
    }
    fn reopen(&self, fd: i32, flags: i32) -> Result<i32, i32> {
        if fd < 0 {
            return Err(libc::EBADF);
        }
        let st = fstat_fd(fd)?;
        let fmt = st.st_mode & libc::S_IFMT;
        if fmt != libc::S_IFREG && fmt != libc::S_IFDIR {
            return Err(libc::EBADF); // special files and symlinks are never opened
        }
        let p = CString::new(format!("/proc/self/fd/{}", fd)).unwrap();
        let mut flags = flags;
        if !self.direct_io { flags &= !libc::O_DIRECT; }
        let r = unsafe { libc::open(p.as_ptr(), (flags & !libc::O_NOFOLLOW & !libc::O_CREAT) | libc::O_CLOEXEC) };
        if r < 0 {
            Err(last())
        } else {
            Ok(r)
        }
    }
    fn run(&mut self, a: &[&str]) -> String {
        HFLAG.with(|c| c.set(match a[0] { "create" => num(a[5]) as u32, "open" => num(a[2]) as u32, "opendir" => num(a[2]) as u32 | libc::O_DIRECTORY as u32, _ => 0 }));
        let e = |c: i32| format!("errno={}", c);
        let ok = || "errno=0".to_string();
        match a[0] {
            "lookup" => {
                let n = cstr(a[2]);
                if n.to_bytes().contains(&b'/') {
                    self.fds.push(-1);
                    return e(libc::EINVAL);
                }
                let d = self.fd(a[1]);
                self.lookup_fd(d, &n, a[1] == "0")
            }
            "forget" | "batch_forget" => ok(),
            "getattr" => {
                let fd = if a[2] != "-" && !self.no_open { self.h(a[2], a[1]) } else { self.fd(a[1]) };
                if fd < 0 {
                    return e(libc::EBADF);
                }
                match fstat_fd(fd) {
                    Ok(st) => format!("errno=0 {}", fmt_stat(&st)),
                    Err(c) => e(c),
                }
            }
            "setattr" => {
                let pfd = self.fd(a[1]);
                if pfd < 0 {
                    return e(libc::EBADF);
                }
                let hfd = if a[2] != "-" && !self.no_open {
                    let h = self.h(a[2], a[1]);
                    if h < 0 {
                        return e(libc::EBADF);
                    }
                    Some(h)
                } else {
                    None
                };
                let valid = num(a[3]) as u32;
                let proc_p = CString::new(format!("/proc/self/fd/{}", pfd)).unwrap();
                if valid & 1 != 0 {
                    let r = unsafe {
                        match hfd {
                            Some(h) => libc::fchmod(h, num(a[4]) as u32),
                            None => libc::chmod(proc_p.as_ptr(), num(a[4]) as u32),
                        }
                    };
                    if r < 0 {
                        return e(last());
                    }
                }
                if valid & 6 != 0 {
                    let uid = if valid & 2 != 0 { num(a[5]) as u32 } else { u32::MAX };
                    let gid = if valid & 4 != 0 { num(a[6]) as u32 } else { u32::MAX };
                    let empty = CString::new("").unwrap();
                    let r = unsafe { libc::fchownat(pfd, empty.as_ptr(), uid, gid, libc::AT_EMPTY_PATH | libc::AT_SYMLINK_NOFOLLOW) };
                    if r < 0 {
                        return e(last());
                    }
                }
                if valid & 8 != 0 {
                    let kill = self.killpriv && (valid & (1 << 11) != 0);
                    if kill {
                        set_fsetid(false);
                    }
                    let r = match hfd {
                        Some(h) => {
                            let r = unsafe { libc::ftruncate(h, num(a[7]) as i64) };
                            if r < 0 {
                                Err(last())
                            } else {
                                Ok(())
                            }
                        }
                        None => match self.reopen(pfd, libc::O_NONBLOCK | libc::O_RDWR) {
                            Ok(f) => {
                                let r = unsafe { libc::ftruncate(f, num(a[7]) as i64) };
                                let er = last();
                                unsafe { libc::close(f) };
                                if r < 0 {
                                    Err(er)
                                } else {
                                    Ok(())
                                }
                            }
                            Err(c) => Err(c),
                        },
                    };
                    if kill {
                        set_fsetid(true);
                    }
                    if let Err(c) = r {
                        return e(c);
                    }
                }
                if valid & 0x30 != 0 {
                    let mut tvs = [libc::timespec { tv_sec: 0, tv_nsec: libc::UTIME_OMIT }, libc::timespec { tv_sec: 0, tv_nsec: libc::UTIME_OMIT }];
                    if valid & 0x80 != 0 {
                        tvs[0].tv_nsec = libc::UTIME_NOW;
                    } else if valid & 0x10 != 0 {
                        tvs[0].tv_sec = req_times(a).0;
                        tvs[0].tv_nsec = req_times(a).1;
                    }
                    if valid & 0x100 != 0 {
                        tvs[1].tv_nsec = libc::UTIME_NOW;
                    } else if valid & 0x20 != 0 {
                        tvs[1].tv_sec = req_times(a).2;
                        tvs[1].tv_nsec = req_times(a).3;
                    }
                    let r = unsafe {
                        match hfd {
                            Some(h) => libc::futimens(h, tvs.as_ptr()),
                            None => libc::utimensat(libc::AT_FDCWD, proc_p.as_ptr(), tvs.as_ptr(), 0),
                        }
                    };
                    if r < 0 {
                        return e(last());
                    }
                }
                let fd = hfd.unwrap_or(pfd);
                match fstat_fd(fd) {
                    Ok(st) => format!("errno=0 {} now={}", fmt_stat(&st), now_secs()),
                    Err(c) => e(c),
                }
            }
            "mkdir" | "mknod" | "symlink" => {
                let n = cstr(a[2]);
                if unsafe_name(&n) {
                    self.fds.push(-1);
                    return e(libc::EINVAL);
                }
                let d = self.fd(a[1]);
                if d < 0 {
                    self.fds.push(-1);
                    return e(libc::EBADF);
                }
                let (uid, gid) = match a[0] {
                    "mkdir" => (a[5], a[6]),
                    "mknod" => (a[6], a[7]),
                    _ => (a[4], a[5]),
                };
                let r = {
                    let _g = match AsUser::enter(num(uid) as u32, num(gid) as u32) {
                        Ok(g) => g,
                        Err(c) => {
                            self.fds.push(-1);
                            return e(c);
                        }
                    };
                    let r = unsafe {
                        match a[0] {
                            "mkdir" => libc::mkdirat(d, n.as_ptr(), (num(a[3]) as u32) & !(num(a[4]) as u32)),
                            "mknod" => libc::mknodat(d, n.as_ptr(), (num(a[3]) as u32) & !(num(a[5]) as u32), num(a[4])),
                            _ => libc::symlinkat(cstr(a[3]).as_ptr(), d, n.as_ptr()),
                        }
                    };
                    if r < 0 {
                        Err(last())
                    } else {
                        Ok(())
                    }
                };
                match r {
                    Err(c) => {
                        self.fds.push(-1);
                        e(c)
                    }
                    Ok(()) => self.lookup_fd(d, &n, false),
                }
            }
            "create" => {
                // create P name mode umask flags fuse_flags uid gid
                let n = cstr(a[2]);
                if unsafe_name(&n) {
                    self.fds.push(-1);
                    { self.hflags.push(HFLAG.with(|c| c.get())); } self.hs.push((-1, 0));
                    return e(libc::EINVAL);
                }
                let d = self.fd(a[1]);
                if d < 0 {
                    self.fds.push(-1);
                    { self.hflags.push(HFLAG.with(|c| c.get())); } self.hs.push((-1, 0));
                    return e(libc::EBADF);
                }
                let flags = num(a[5]) as i32;
                let mode = (num(a[3]) as u32) & !((num(a[4]) as u32) & 0o777);
                let (uid, gid) = (num(a[7]) as u32, num(a[8]) as u32);
                let created: Result<Option<i32>, i32> = {
                    match AsUser::enter(uid, gid) {
                        Err(c) => Err(c),
                        Ok(_g) => {
                            let fd = unsafe { libc::openat(d, n.as_ptr(), self.wb_flags(flags) | libc::O_CREAT | libc::O_EXCL, mode) };
                            if fd >= 0 {
                                Ok(Some(fd))
                            } else {
                                let c = last();
                                if c == libc::EEXIST && flags & libc::O_EXCL == 0 {
                                    Ok(None)
                                } else {
                                    Err(c)
                                }
                            }
                        }
                    }
                };
                let created = match created {
                    Err(c) => {
                        self.fds.push(-1);
                        { self.hflags.push(HFLAG.with(|c| c.get())); } self.hs.push((-1, 0));
                        return e(c);
                    }
                    Ok(x) => x,
                };
                let line = self.lookup_fd(d, &n, false);
                let islot = self.fds.len() - 1;
                if !line.starts_with("errno=0") {
                    if let Some(f) = created {
                        unsafe { libc::close(f) };
                    }
                    { self.hflags.push(HFLAG.with(|c| c.get())); } self.hs.push((-1, 0));
                    return line;
                }
                let fd = match created {
                    Some(f) => f,
                    None => {
                        let kill = self.killpriv && (num(a[6]) & 1 != 0);
                        if kill {
                            set_fsetid(false);
                        }
                        let r = match AsUser::enter(uid, gid) {
                            Err(c) => Err(c),
                            Ok(_g) => self.reopen(self.fds[islot], self.wb_flags(flags)),
                        };
                        if kill {
                            set_fsetid(true);
                        }
                        match r {
                            Ok(f) => f,
                            Err(c) => {
                                // the entry was looked up, the request fails: the client never learns the inode
                                self.fds[islot] = -1;
                                { self.hflags.push(HFLAG.with(|c| c.get())); } self.hs.push((-1, 0));
                                return e(c);
                            }
                        }
                    }
                };
                if self.no_open {
                    unsafe { libc::close(fd) };
                    { self.hflags.push(HFLAG.with(|c| c.get())); } self.hs.push((-1, 0));
                    format!("{} handle=0", line)
                } else {
                    { self.hflags.push(HFLAG.with(|c| c.get())); } self.hs.push((fd, islot as i32));
                    format!("{} handle=1", line)
                }
            }
            "link" => {
                let n = cstr(a[3]);
                if unsafe_name(&n) {
                    self.fds.push(-1);
                    return e(libc::EINVAL);
                }
                let (f, d) = (self.fd(a[1]), self.fd(a[2]));
                if f < 0 || d < 0 {
                    self.fds.push(-1);
                    return e(libc::EBADF);
                }
                let empty = CString::new("").unwrap();
                let r = unsafe { libc::linkat(f, empty.as_ptr(), d, n.as_ptr(), libc::AT_EMPTY_PATH) };
                if r < 0 {
                    self.fds.push(-1);
                    return e(last());
                }
                self.lookup_fd(d, &n, false)
            }
            "unlink" | "rmdir" => {
                let n = cstr(a[2]);
                if unsafe_name(&n) {
                    return e(libc::EINVAL);
                }
                let d = self.fd(a[1]);
                if d < 0 {
                    return e(libc::EBADF);
                }
                let r = unsafe { libc::unlinkat(d, n.as_ptr(), if a[0] == "rmdir" { libc::AT_REMOVEDIR } else { 0 }) };
                if r < 0 {
                    e(last())
                } else {
                    ok()
                }
            }
            "rename" => {
                let (n1, n2) = (cstr(a[2]), cstr(a[4]));
                if unsafe_name(&n1) || unsafe_name(&n2) {
                    return e(libc::EINVAL);
                }
                let (d1, d2) = (self.fd(a[1]), self.fd(a[3]));
                if d1 < 0 || d2 < 0 {
                    return e(libc::EBADF);
                }
                let r = unsafe { libc::syscall(libc::SYS_renameat2, d1, n1.as_ptr(), d2, n2.as_ptr(), num(a[5]) as u32) };
                if r != 0 {
                    e(last())
                } else {
                    ok()
                }
            }
            "open" | "opendir" => {
                if (a[0] == "open" && self.no_open) || (a[0] == "opendir" && self.no_opendir) {
                    { self.hflags.push(HFLAG.with(|c| c.get())); } self.hs.push((-1, 0));
                    return e(libc::ENOSYS);
                }
                let mut flags = num(a[2]) as i32;
                if a[0] == "opendir" {
                    flags |= libc::O_DIRECTORY;
                }
                let kill = a[0] == "open" && self.killpriv && (num(a[3]) & 1 != 0);
                if kill {
                    set_fsetid(false);
                }
                let r = self.reopen(self.fd(a[1]), self.wb_flags(flags));
                if kill {
                    set_fsetid(true);
                }
                match r {
                    Ok(f) => {
                        let islot: i32 = a[1].parse().unwrap();
                        { self.hflags.push(HFLAG.with(|c| c.get())); } self.hs.push((f, islot));
                        "errno=0 handle=1".to_string()
                    }
                    Err(c) => {
                        { self.hflags.push(HFLAG.with(|c| c.get())); } self.hs.push((-1, 0));
                        e(c)
                    }
                }
            }
            "release" | "releasedir" => {
                if (a[0] == "release" && self.no_open) || (a[0] == "releasedir" && self.no_opendir) {
                    return e(libc::ENOSYS);
                }
                let fd = self.h(a[2], a[1]);
                if fd < 0 {
                    return e(libc::EBADF);
                }
                unsafe { libc::close(fd) };
                let i: usize = a[2].parse().unwrap();
                self.hs[i].0 = -1;
                ok()
            }
            "read" | "write" | "fallocate" | "fsync" => {
                // with no_open: a temporary fd (O_RDONLY for read/fsync, O_RDWR for write/fallocate)
                let (fd, tmp) = if self.no_open {
                    let fl = if a[0] == "read" || a[0] == "fsync" { libc::O_RDONLY } else { libc::O_RDWR };
                    match self.reopen(self.fd(a[1]), self.wb_flags(fl)) {
                        Ok(f) => (f, true),
                        Err(c) => return e(c),
                    }
                } else {
                    (self.h(a[2], a[1]), false)
                };
                if fd < 0 {
                    return e(libc::EBADF);
                }
                if a[0] == "read" || a[0] == "write" {
                    // the request carries the client's open flags; the descriptor's status flags follow them
                    let want = if a[0] == "read" { num(a[5]) as u32 } else { num(a[5]) as u32 };
                    let cur = if tmp { (if a[0] == "read" { libc::O_RDONLY } else { libc::O_RDWR }) as u32 } else { let i: usize = a[2].parse().unwrap(); self.hflags[i] };
                    if cur != want {
                        // reference: under writeback the descriptor never carries O_APPEND (the client kernel owns it), exactly as at open
                        // ... and O_DIRECT only with allow_direct_io, as open does
                        let mut hf = self.wb_flags(want as i32);
                        if !self.direct_io { hf &= !libc::O_DIRECT; }
                        let r = unsafe { libc::fcntl(fd, libc::F_SETFL, hf) };
                        if r != 0 {
                            let c = last();
                            if tmp { unsafe { libc::close(fd) }; }
                            return e(c);
                        }
                        if !tmp { let i: usize = a[2].parse().unwrap(); self.hflags[i] = want; }
                    }
                }
                let out = match a[0] {
                    "read" => {
                        let want = num(a[5]) as i32;
                        // the request carries the open flags; the fd's status flags follow them
                        let _ = want;
                        let mut buf = vec![0u8; num(a[3]) as usize];
                        let n = unsafe { libc::pread64(fd, buf.as_mut_ptr() as *mut libc::c_void, buf.len(), num(a[4]) as i64) };
                        if n < 0 {
                            e(last())
                        } else {
                            format!("errno=0 n={} data={}", n, hex(&buf[..n as usize]))
                        }
                    }
                    "write" => {
                        let d = unhex(a[4]);
                        let kill = self.killpriv && (num(a[6]) & 4 != 0);
                        if kill {
                            set_fsetid(false);
                        }
                        let n = unsafe { libc::pwrite64(fd, d.as_ptr() as *const libc::c_void, d.len(), num(a[3]) as i64) };
                        let er = last();
                        if kill {
                            set_fsetid(true);
                        }
                        if n < 0 {
                            e(er)
                        } else {
                            format!("errno=0 n={}", n)
                        }
                    }
                    "fallocate" => {
                        let r = unsafe { libc::fallocate64(fd, num(a[3]) as i32, num(a[4]) as i64, num(a[5]) as i64) };
                        if r != 0 {
                            e(last())
                        } else {
                            ok()
                        }
                    }
                    _ => {
                        let r = unsafe { if num(a[3]) != 0 { libc::fdatasync(fd) } else { libc::fsync(fd) } };
                        if r != 0 {
                            e(last())
                        } else {
                            ok()
                        }
                    }
                };
                if tmp {
                    unsafe { libc::close(fd) };
                }
                out
            }
            "fsyncdir" => {
                let (fd, tmp) = if self.no_opendir {
                    match self.reopen(self.fd(a[1]), libc::O_RDONLY | libc::O_DIRECTORY) {
                        Ok(f) => (f, true),
                        Err(c) => return e(c),
                    }
                } else {
                    (self.h(a[2], a[1]), false)
                };
                if fd < 0 {
                    return e(libc::EBADF);
                }
                let r = unsafe { if num(a[3]) != 0 { libc::fdatasync(fd) } else { libc::fsync(fd) } };
                let c = last();
                if tmp {
                    unsafe { libc::close(fd) };
                }
                if r != 0 {
                    e(c)
                } else {
                    ok()
                }
            }
            "lseek" => {
                let fd = self.h(a[2], a[1]);
                if fd < 0 {
                    return e(libc::EBADF);
                }
                let r = unsafe { libc::lseek64(fd, num(a[3]) as i64, num(a[4]) as i32) };
                if r < 0 {
                    e(last())
                } else {
                    format!("errno=0 n={}", r)
                }
            }
            "flush" => {
                if self.no_open {
                    return e(libc::ENOSYS);
                }
                if self.h(a[2], a[1]) < 0 {
                    return e(libc::EBADF);
                }
                ok()
            }
            "readlink" => {
                let fd = self.fd(a[1]);
                if fd < 0 {
                    return e(libc::EBADF);
                }
                let mut buf = vec![0u8; 4096];
                let empty = CString::new("").unwrap();
                let n = unsafe { libc::readlinkat(fd, empty.as_ptr(), buf.as_mut_ptr() as *mut libc::c_char, 4096) };
                if n < 0 {
                    e(last())
                } else {
                    format!("errno=0 data={}", hex(&buf[..n as usize]))
                }
            }
            "setxattr" | "getxattr" | "listxattr" | "removexattr" => {
                if !self.xattr {
                    return e(libc::ENOSYS);
                }
                let fd = self.fd(a[1]);
                if fd < 0 {
                    return e(libc::EBADF);
                }
                let p = CString::new(format!("/proc/self/fd/{}", fd)).unwrap();
                match a[0] {
                    "setxattr" => {
                        let v = unhex(a[3]);
                        let r = unsafe { libc::setxattr(p.as_ptr(), cstr(a[2]).as_ptr(), v.as_ptr() as *const libc::c_void, v.len(), num(a[4]) as i32) };
                        if r != 0 {
                            e(last())
                        } else {
                            ok()
                        }
                    }
                    "getxattr" => {
                        let size = num(a[3]) as usize;
                        let mut buf = vec![0u8; size];
                        let r = unsafe { libc::getxattr(p.as_ptr(), cstr(a[2]).as_ptr(), buf.as_mut_ptr() as *mut libc::c_void, size) };
                        if r < 0 {
                            e(last())
                        } else if size == 0 {
                            format!("errno=0 n={}", r)
                        } else {
                            format!("errno=0 data={}", hex(&buf[..r as usize]))
                        }
                    }
                    "listxattr" => {
                        let size = num(a[2]) as usize;
                        let mut buf = vec![0u8; size];
                        let r = unsafe { libc::listxattr(p.as_ptr(), buf.as_mut_ptr() as *mut libc::c_char, size) };
                        if r < 0 {
                            e(last())
                        } else if size == 0 {
                            format!("errno=0 n={}", r)
                        } else {
                            format!("errno=0 data={}", hex(&buf[..r as usize]))
                        }
                    }
                    _ => {
                        let r = unsafe { libc::removexattr(p.as_ptr(), cstr(a[2]).as_ptr()) };
                        if r != 0 {
                            e(last())
                        } else {
                            ok()
                        }
                    }
                }
            }
            "access" => {
                let fd = self.fd(a[1]);
                if fd < 0 {
                    return e(libc::EBADF);
                }
                let st = match fstat_fd(fd) {
                    Ok(s) => s,
                    Err(c) => return e(c),
                };
                let (mask, uid, gid) = (num(a[2]) as i32 & 7, num(a[3]) as u32, num(a[4]) as u32);
                let m = st.st_mode;
                let class = |o: u32, g: u32, w: u32| -> bool { (st.st_uid == uid && m & o != 0) || (st.st_gid == gid && m & g != 0) || m & w != 0 };
                if mask == 0 {
                    return ok();
                }
                if mask & 4 != 0 && uid != 0 && !class(0o400, 0o040, 0o004) {
                    return e(libc::EACCES);
                }
                if mask & 2 != 0 && uid != 0 && !class(0o200, 0o020, 0o002) {
                    return e(libc::EACCES);
                }
                if mask & 1 != 0 && (uid != 0 || m & 0o111 == 0) && !class(0o100, 0o010, 0o001) {
                    return e(libc::EACCES);
                }
                ok()
            }
            "statfs" => {
                let fd = self.fd(a[1]);
                if fd < 0 {
                    return e(libc::EBADF);
                }
                let mut st: statvfs64 = unsafe { std::mem::zeroed() };
                let r = unsafe { libc::fstatvfs64(fd, &mut st) };
                if r != 0 {
                    e(last())
                } else {
                    format!("errno=0 bsize={} namemax={}", st.f_bsize, st.f_namemax)
                }
            }
            x => format!("errno=-1 unknown-op={}", x),
        }
    }
}

// FNV-1a digest of the names, types, sizes and link targets below a directory (cheap change detector)
fn tree_digest(dir: &std::path::Path, h: &mut u64) {
    use std::os::unix::ffi::OsStrExt;
    use std::os::unix::fs::MetadataExt;
    let mut feed = |b: &[u8], h: &mut u64| {
        for x in b {
            *h ^= *x as u64;
            *h = h.wrapping_mul(0x100000001b3);
        }
    };
    let mut ents: Vec<_> = match std::fs::read_dir(dir) {
        Ok(r) => r.filter_map(|e| e.ok()).collect(),
        Err(_) => return,
    };
    ents.sort_by_key(|e| e.file_name());
    for e in ents {
        let p = e.path();
        feed(e.file_name().as_bytes(), h);
        if let Ok(m) = std::fs::symlink_metadata(&p) {
            feed(&(m.mode() & libc::S_IFMT).to_le_bytes(), h);
            feed(&m.nlink().to_le_bytes(), h);
            if m.file_type().is_symlink() {
                if let Ok(t) = std::fs::read_link(&p) {
                    feed(t.as_os_str().as_bytes(), h);
                }
            } else if m.is_file() {
                feed(&m.size().to_le_bytes(), h);
            } else if m.is_dir() {
                feed(b"/", h);
                tree_digest(&p, h);
                feed(b"\\", h);
            }
        }
    }
}

enum Target {
    Pt(PassthroughFs<()>),
    V(Vfs),
    Shadow(Shadow),
    None,
}

fn parse_cfg(s: &str) -> std::collections::HashMap<String, String> {
    s.split(',').filter(|x| !x.is_empty()).map(|kv| {
        let mut it = kv.splitn(2, '=');
        (it.next().unwrap().to_string(), it.next().unwrap_or("1").to_string())
    }).collect()
}

fn main() {
    let path = std::env::args().nth(1).expect("usage: ptfs <history-file>");
    // make the model of group membership exact: no supplementary groups
    unsafe { libc::setgroups(0, std::ptr::null()) };
    unsafe { libc::umask(0) };
    let f = std::fs::File::open(path).unwrap();
    let out = io::stdout();
    let mut out = io::BufWriter::new(out.lock());
    let mut target = Target::None;
    let mut slots = Slots { inodes: vec![], handles: vec![] };
    let mut digest_root: Option<String> = None;
    for line in io::BufReader::new(f).lines() {
        let line = line.unwrap();
        let a: Vec<&str> = line.split_whitespace().collect();
        if a.is_empty() {
            continue;
        }
        match a[0] {
            "H" => {
                let cfg = parse_cfg(a.get(4).copied().unwrap_or(""));
                let b = |k: &str| cfg.get(k).map(|v| v == "1").unwrap_or(false);
                slots = Slots { inodes: vec![1], handles: vec![] };
                digest_root = if b("digest") { Some(a[3].to_string()) } else { None };
                LOG.lock().unwrap().clear();
                let mk_cfg = |do_import: bool| Config {
                    root_dir: a[3].to_string(),
                    do_import,
                    writeback: b("writeback"),
                    no_open: b("no_open"),
                    no_opendir: b("no_opendir"),
                    killpriv_v2: b("killpriv_v2"),
                    xattr: b("xattr"),
                    inode_file_handles: b("inode_file_handles"),
                    use_host_ino: b("use_host_ino"),
                    allow_direct_io: !b("no_direct_io"),
                    cache_policy: match cfg.get("cache").map(|s| s.as_str()) {
                        Some("never") => CachePolicy::Never,
                        Some("metadata") => CachePolicy::Metadata,
                        Some("always") => CachePolicy::Always,
                        _ => CachePolicy::Auto,
                    },
                    ..Default::default()
                };
                let mut caps = FsOptions::empty();
                if b("writeback") {
                    caps |= FsOptions::WRITEBACK_CACHE;
                }
                if b("no_open") {
                    caps |= FsOptions::ZERO_MESSAGE_OPEN;
                }
                if b("no_opendir") {
                    caps |= FsOptions::ZERO_MESSAGE_OPENDIR;
                }
                if b("killpriv_v2") {
                    caps |= FsOptions::HANDLE_KILLPRIV_V2;
                }
                let res: Result<Target, String> = (|| match a[2] {
                    "pt" => {
                        let fs = PassthroughFs::<()>::new(mk_cfg(true)).map_err(|e| e.to_string())?;
                        fs.init(caps).map_err(|e| e.to_string())?;
                        Ok(Target::Pt(fs))
                    }
                    "vfs" => {
                        let fs = PassthroughFs::<()>::new(mk_cfg(false)).map_err(|e| e.to_string())?;
                        fs.import().map_err(|e| e.to_string())?;
                        let mut o = VfsOptions::default();
                        o.no_open = b("no_open");
                        o.no_opendir = b("no_opendir");
                        o.no_writeback = !b("writeback");
                        o.killpriv_v2 = b("killpriv_v2");
                        let vfs = Vfs::new(o);
                        vfs.mount(Box::new(fs), "/").map_err(|e| e.to_string())?;
                        vfs.init(caps | FsOptions::ASYNC_READ).map_err(|e| e.to_string())?;
                        Ok(Target::V(vfs))
                    }
                    "vfslog" => {
                        let vfs = Vfs::new(VfsOptions::default());
                        vfs.mount(Box::new(LogFs { log: &LOG }), "/").map_err(|e| e.to_string())?;
                        vfs.init(FsOptions::empty()).map_err(|e| e.to_string())?;
                        Ok(Target::V(vfs))
                    }
                    "shadow" => {
                        let c = CString::new(a[3]).unwrap();
                        let fd = unsafe { libc::open(c.as_ptr(), libc::O_PATH | libc::O_NOFOLLOW | libc::O_CLOEXEC) };
                        if fd < 0 {
                            return Err(format!("open root: {}", last()));
                        }
                        Ok(Target::Shadow(Shadow { fds: vec![fd], hs: vec![], hflags: vec![], direct_io: !b("no_direct_io"), writeback: b("writeback"), no_open: b("no_open"), no_opendir: b("no_opendir"), killpriv: b("killpriv_v2"), xattr: b("xattr") }))
                    }
                    m => Err(format!("unknown mode {}", m)),
                })();
                match res {
                    Ok(t) => {
                        target = t;
                        writeln!(out, "H {} ok {}", a[1], thread_creds()).unwrap();
                    }
                    Err(e) => {
                        target = Target::None;
                        writeln!(out, "H {} fail {}", a[1], e.replace(' ', "_")).unwrap();
                    }
                }
            }
            "O" => {
                let args = &a[1..];
                let r = std::panic::catch_unwind(std::panic::AssertUnwindSafe(|| match &mut target {
                    Target::Pt(fs) => run_fs(fs, &mut slots, args),
                    Target::V(fs) => run_fs(fs, &mut slots, args),
                    Target::Shadow(s) => s.run(args),
                    Target::None => "errno=-2 no-target".to_string(),
                }));
                let line = match r {
                    Ok(l) => l,
                    Err(_) => "errno=-3 panic".to_string(),
                };
                let calls: Vec<String> = LOG.lock().unwrap().drain(..).collect();
                let dg = match &digest_root {
                    Some(r) => {
                        let mut h: u64 = 0xcbf29ce484222325;
                        tree_digest(std::path::Path::new(r), &mut h);
                        format!("{:016x}", h)
                    }
                    None => "-".to_string(),
                };
                writeln!(out, "R {} | {} | calls={} | tree={}", line, thread_creds(), if calls.is_empty() { "-".to_string() } else { calls.join(",") }, dg).unwrap();
            }
            "E" => {
                match std::mem::replace(&mut target, Target::None) {
                    Target::Shadow(s) => {
                        for fd in s.fds {
                            if fd >= 0 {
                                unsafe { libc::close(fd) };
                            }
                        }
                        for (fd, _) in s.hs {
                            if fd >= 0 {
                                unsafe { libc::close(fd) };
                            }
                        }
                    }
                    _ => {}
                }
                writeln!(out, "E {}", thread_creds()).unwrap();
                out.flush().unwrap();
            }
            _ => {}
        }
    }
    out.flush().unwrap();
}
