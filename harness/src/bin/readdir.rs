// Raw FUSE message driver used by the C16 check (props/c16.py).
// The python side encodes every request and decodes every reply from the kernel layout; this
// program only builds the real file system + Server and passes bytes through
// Server::handle_message with a fusedev Reader/Writer, so the server's own readdir handler and
// add_dirent are the code under observation.
//
// stdin protocol (one command per line, one answer line per command):
//   new passthrough root=<dir> [no_opendir=1] [no_open=1 cache_always=1] [seal_size=1] [no_readdir=1] [writeback=1]
//   new vfs [no_opendir=1] [no_open=1] [seal_size=1] mount=<vfs path>=<host dir> mount=...
//   msg <reply buffer size> <hex request>      -> "reply <hex bytes written to the device>|-" "ret=<..>"
//   quit
use fuse_backend_rs::api::server::Server;
use fuse_backend_rs::api::{Vfs, VfsOptions};
use fuse_backend_rs::passthrough::{CachePolicy, Config, PassthroughFs};
use fuse_backend_rs::transport::{FuseBuf, FuseDevWriter, Reader};
use std::io::{BufRead, Read, Seek, SeekFrom, Write};
use std::os::unix::io::{AsRawFd, FromRawFd};
use std::panic::{catch_unwind, AssertUnwindSafe};
use std::sync::Arc;

enum Srv {
    P(Server<Arc<PassthroughFs>>),
    V(Server<Arc<Vfs>>),
}

fn unhex(s: &str) -> Vec<u8> {
    let b = s.as_bytes();
    (0..b.len() / 2)
        .map(|i| u8::from_str_radix(std::str::from_utf8(&b[2 * i..2 * i + 2]).unwrap(), 16).unwrap())
        .collect()
}

fn hex(b: &[u8]) -> String {
    let mut s = String::with_capacity(b.len() * 2);
    for x in b {
        s.push_str(&format!("{:02x}", x));
    }
    s
}

fn flag(kv: &[(String, String)], k: &str) -> bool {
    kv.iter().any(|(a, b)| a == k && b == "1")
}

fn pt_config(kv: &[(String, String)], root: &str, do_import: bool) -> Config {
    Config {
        root_dir: root.to_string(),
        do_import,
        no_opendir: flag(kv, "no_opendir"),
        no_open: flag(kv, "no_open"),
        seal_size: flag(kv, "seal_size"),
        no_readdir: flag(kv, "no_readdir"),
        writeback: flag(kv, "writeback"),
        killpriv_v2: flag(kv, "killpriv_v2"),
        xattr: flag(kv, "xattr"),
        inode_file_handles: flag(kv, "inode_file_handles"),
        use_host_ino: flag(kv, "use_host_ino"),
        enable_mntid: flag(kv, "enable_mntid"),
        allow_direct_io: !flag(kv, "no_direct_io"),
        cache_policy: if flag(kv, "cache_always") { CachePolicy::Always } else { Default::default() },
        ..Default::default()
    }
}

fn build(words: &[&str]) -> Result<Srv, String> {
    let kv: Vec<(String, String)> = words[1..]
        .iter()
        .filter_map(|w| w.split_once('=').map(|(a, b)| (a.to_string(), b.to_string())))
        .collect();
    match words[0] {
        "passthrough" => {
            let root = kv.iter().find(|(a, _)| a == "root").ok_or("root missing")?.1.clone();
            let fs = PassthroughFs::<()>::new(pt_config(&kv, &root, true)).map_err(|e| format!("{:?}", e))?;
            Ok(Srv::P(Server::new(Arc::new(fs))))
        }
        "vfs" => {
            let mut o = VfsOptions::default();
            o.no_opendir = flag(&kv, "no_opendir");
            o.no_open = flag(&kv, "no_open");
            o.seal_size = flag(&kv, "seal_size");
            o.no_readdir = flag(&kv, "no_readdir");
            o.killpriv_v2 = flag(&kv, "killpriv_v2");
            o.no_writeback = !flag(&kv, "writeback");
            let vfs = Vfs::new(o);
            for (a, b) in kv.iter() {
                if a == "mount" {
                    let (path, dir) = b.split_once('=').ok_or("mount=<path>=<dir>")?;
                    let fs = PassthroughFs::<()>::new(pt_config(&kv, dir, false)).map_err(|e| format!("{:?}", e))?;
                    fs.import().map_err(|e| format!("import {:?}", e))?;
                    vfs.mount(Box::new(fs), path).map_err(|e| format!("mount {:?}", e))?;
                }
            }
            Ok(Srv::V(Server::new(Arc::new(vfs))))
        }
        x => Err(format!("unknown fs kind {}", x)),
    }
}

// ---------------------------------------------------------------------------------------------
// "cookie fs": a tiny read-only FUSE file system mounted on the host (readdir serve <mnt> <spec>)
// whose directories carry arbitrary d_off cookies (e.g. above i64::MAX, like NFS) and "." / ".."
// records at arbitrary places.  A PassthroughFs exported over that mount then has a host directory
// that exercises the lseek-EINVAL / linear-scan fallback of do_readdir on the real code.
// spec file: one line per entry: <dir name> <hex entry name> <ino> <d_off> <d_type>
mod cookiefs {
    use fuse_backend_rs::abi::fuse_abi::stat64;
    use fuse_backend_rs::api::filesystem::{Context, DirEntry, Entry, FileSystem, FsOptions, OpenOptions};
    use std::ffi::CStr;
    use std::io;
    use std::time::Duration;

    pub struct Ent {
        pub name: Vec<u8>,
        pub ino: u64,
        pub off: u64,
        pub ty: u32,
    }
    pub struct CookieFs {
        pub dirs: Vec<(String, Vec<Ent>)>, // directory i has inode 2 + i
    }
    const TTL: Duration = Duration::from_secs(3600);

    impl CookieFs {
        fn attr(&self, ino: u64, dir: bool) -> stat64 {
            let mut st: stat64 = unsafe { std::mem::zeroed() };
            st.st_ino = ino;
            st.st_mode = if dir { libc::S_IFDIR | 0o755 } else { libc::S_IFREG | 0o644 };
            st.st_nlink = if dir { 2 } else { 1 };
            st.st_blksize = 4096;
            st
        }
        fn entry(&self, ino: u64, dir: bool) -> Entry {
            Entry { inode: ino, generation: 0, attr: self.attr(ino, dir), attr_flags: 0, attr_timeout: TTL, entry_timeout: TTL }
        }
        fn is_dir(&self, ino: u64) -> bool {
            ino == 1 || (ino >= 2 && ((ino - 2) as usize) < self.dirs.len())
        }
    }

    impl FileSystem for CookieFs {
        type Inode = u64;
        type Handle = u64;
        fn init(&self, _capable: FsOptions) -> io::Result<FsOptions> {
            Ok(FsOptions::empty())
        }
        fn lookup(&self, _ctx: &Context, parent: u64, name: &CStr) -> io::Result<Entry> {
            let n = name.to_bytes();
            if parent == 1 {
                for (i, (d, _)) in self.dirs.iter().enumerate() {
                    if d.as_bytes() == n {
                        return Ok(self.entry(2 + i as u64, true));
                    }
                }
            } else if self.is_dir(parent) {
                for e in self.dirs[(parent - 2) as usize].1.iter() {
                    if e.name == n && n != b"." && n != b".." {
                        return Ok(self.entry(e.ino, false));
                    }
                }
            }
            Err(io::Error::from_raw_os_error(libc::ENOENT))
        }
        fn getattr(&self, _ctx: &Context, inode: u64, _h: Option<u64>) -> io::Result<(stat64, Duration)> {
            Ok((self.attr(inode, self.is_dir(inode)), TTL))
        }
        fn opendir(&self, _ctx: &Context, _inode: u64, _flags: u32) -> io::Result<(Option<u64>, OpenOptions)> {
            Ok((None, OpenOptions::empty()))
        }
        fn releasedir(&self, _ctx: &Context, _inode: u64, _flags: u32, _handle: u64) -> io::Result<()> {
            Ok(())
        }
        fn access(&self, _ctx: &Context, _inode: u64, _mask: u32) -> io::Result<()> {
            Ok(())
        }
        fn readdir(
            &self,
            _ctx: &Context,
            inode: u64,
            _handle: u64,
            _size: u32,
            offset: u64,
            add_entry: &mut dyn FnMut(DirEntry) -> io::Result<usize>,
        ) -> io::Result<()> {
            let tmp: Vec<Ent>;
            let ents: &Vec<Ent> = if inode == 1 {
                tmp = self
                    .dirs
                    .iter()
                    .enumerate()
                    .map(|(i, (d, _))| Ent { name: d.as_bytes().to_vec(), ino: 2 + i as u64, off: 1 + i as u64, ty: libc::DT_DIR as u32 })
                    .collect();
                &tmp
            } else if self.is_dir(inode) {
                &self.dirs[(inode - 2) as usize].1
            } else {
                return Err(io::Error::from_raw_os_error(libc::ENOTDIR));
            };
            let start = if offset == 0 {
                0
            } else {
                match ents.iter().position(|e| e.off == offset) {
                    Some(i) => i + 1,
                    None => ents.len(),
                }
            };
            // directories named s* answer with at most two records per request: the host's getdents64 then
            // returns short batches (fewer records than would fit)
            let short = inode >= 2 && self.is_dir(inode) && self.dirs[(inode - 2) as usize].0.starts_with('s');
            for (n, e) in ents[start..].iter().enumerate() {
                if short && n >= 2 {
                    break;
                }
                match add_entry(DirEntry { ino: e.ino, offset: e.off, type_: e.ty, name: &e.name }) {
                    Ok(0) => break,
                    Ok(_) => {}
                    Err(err) => return Err(err),
                }
            }
            Ok(())
        }
    }

    pub fn parse(spec: &str) -> CookieFs {
        let mut dirs: Vec<(String, Vec<Ent>)> = Vec::new();
        for line in spec.lines() {
            let w: Vec<&str> = line.split_whitespace().collect();
            if w.len() < 5 {
                if w.len() == 1 && !dirs.iter().any(|(d, _)| d == w[0]) {
                    dirs.push((w[0].to_string(), Vec::new()));
                }
                continue;
            }
            let e = Ent { name: super::unhex(w[1]), ino: w[2].parse().unwrap(), off: w[3].parse().unwrap(), ty: w[4].parse().unwrap() };
            match dirs.iter_mut().find(|(d, _)| d == w[0]) {
                Some((_, v)) => v.push(e),
                None => dirs.push((w[0].to_string(), vec![e])),
            }
        }
        CookieFs { dirs }
    }
}

fn serve(mnt: &str, specfile: &str) {
    use fuse_backend_rs::transport::FuseSession;
    let fs = cookiefs::parse(&std::fs::read_to_string(specfile).expect("spec file"));
    let server = Server::new(Arc::new(fs));
    let mut se = FuseSession::new(std::path::Path::new(mnt), "cookiefs", "", true).expect("session");
    se.mount().expect("mount");
    let mut ch = se.new_channel().expect("channel");
    println!("mounted");
    std::io::stdout().flush().unwrap();
    loop {
        match ch.get_request() {
            Ok(Some((reader, writer))) => {
                let _ = server.handle_message(reader, writer.into(), None, None);
            }
            Ok(None) => break,
            Err(_) => break,
        }
    }
    let _ = se.umount();
}

// The async twin of handle_message (Server::async_handle_message, feature async-io), polled by a trivial
// executor: PassthroughFs / Vfs futures never return Pending (they delegate to the sync methods).
#[cfg(feature = "async-io")]
fn async_dispatch<'a>(
    s: &Srv,
    reader: Reader<'a, ()>,
    writer: FuseDevWriter<'a, ()>,
) -> fuse_backend_rs::Result<usize> {
    fn block_on<F: std::future::Future>(f: F) -> F::Output {
        use std::task::{Context as TCx, Poll, RawWaker, RawWakerVTable, Waker};
        fn noop(_: *const ()) {}
        fn clone(_: *const ()) -> RawWaker {
            RawWaker::new(std::ptr::null(), &VT)
        }
        static VT: RawWakerVTable = RawWakerVTable::new(clone, noop, noop, noop);
        let waker = unsafe { Waker::from_raw(RawWaker::new(std::ptr::null(), &VT)) };
        let mut cx = TCx::from_waker(&waker);
        let mut f = Box::pin(f);
        let mut spins = 0u32;
        loop {
            match f.as_mut().poll(&mut cx) {
                Poll::Ready(v) => return v,
                Poll::Pending => {
                    spins += 1;
                    if spins > 100000 {
                        panic!("future never became ready");
                    }
                }
            }
        }
    }
    match s {
        Srv::P(sv) => block_on(unsafe { sv.async_handle_message(reader, writer.into(), None, None) }),
        Srv::V(sv) => block_on(unsafe { sv.async_handle_message(reader, writer.into(), None, None) }),
    }
}
#[cfg(not(feature = "async-io"))]
fn async_dispatch<'a>(
    _s: &Srv,
    _reader: Reader<'a, ()>,
    _writer: FuseDevWriter<'a, ()>,
) -> fuse_backend_rs::Result<usize> {
    panic!("built without --features async-io")
}

fn main() {
    let args: Vec<String> = std::env::args().collect();
    if args.len() == 4 && args[1] == "serve" {
        serve(&args[2], &args[3]);
        return;
    }
    let stdin = std::io::stdin();
    let stdout = std::io::stdout();
    let mut out = stdout.lock();
    // the "device": an anonymous file; every reply is written at its start and read back
    let mfd = unsafe { libc::memfd_create(b"fusedev\0".as_ptr() as *const libc::c_char, 0) };
    assert!(mfd >= 0);
    let mut dev = unsafe { std::fs::File::from_raw_fd(mfd) };
    let mut srv: Option<Srv> = None;
    std::panic::set_hook(Box::new(|_| {}));
    for line in stdin.lock().lines() {
        let line = line.unwrap();
        let w: Vec<&str> = line.split_whitespace().collect();
        if w.is_empty() {
            continue;
        }
        match w[0] {
            "quit" => break,
            "new" => {
                srv = None;
                match build(&w[1..]) {
                    Ok(s) => {
                        srv = Some(s);
                        writeln!(out, "ok").unwrap();
                    }
                    Err(e) => writeln!(out, "error {}", e.replace('\n', " ")).unwrap(),
                }
            }
            "msg" | "amsg" => {
                let is_async = w[0] == "amsg";
                let cap: usize = w[1].parse().unwrap();
                let mut req = unhex(w[2]);
                let mut wbuf = vec![0u8; cap];
                dev.set_len(0).unwrap();
                dev.seek(SeekFrom::Start(0)).unwrap();
                let fd = dev.as_raw_fd();
                let s = srv.as_ref().expect("no fs");
                let r = catch_unwind(AssertUnwindSafe(|| {
                    let reader = Reader::<()>::from_fuse_buffer(FuseBuf::new(&mut req)).unwrap();
                    let writer = FuseDevWriter::<()>::new(fd, &mut wbuf).unwrap();
                    if is_async {
                        return async_dispatch(s, reader, writer);
                    }
                    match s {
                        Srv::P(sv) => sv.handle_message(reader, writer.into(), None, None),
                        Srv::V(sv) => sv.handle_message(reader, writer.into(), None, None),
                    }
                }));
                let mut rep = Vec::new();
                dev.seek(SeekFrom::Start(0)).unwrap();
                dev.read_to_end(&mut rep).unwrap();
                let h = if rep.is_empty() { "-".to_string() } else { hex(&rep) };
                match r {
                    Ok(Ok(n)) => writeln!(out, "reply {} ret=ok:{}", h, n).unwrap(),
                    Ok(Err(e)) => writeln!(out, "reply {} ret=err:{}", h, format!("{:?}", e).replace(' ', "_").replace('\n', "_")).unwrap(),
                    Err(_) => writeln!(out, "reply {} ret=panic", h).unwrap(),
                }
            }
            _ => writeln!(out, "error unknown command").unwrap(),
        }
        out.flush().unwrap();
    }
}
