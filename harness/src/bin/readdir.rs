// Raw FUSE message driver used by the C16 check (props/c16.py).
// The python side encodes every request and decodes every reply from the kernel layout; this
// program only builds the real file system + Server and passes bytes through
// Server::handle_message with a fusedev Reader/Writer, so the server's own readdir handler and
// add_dirent are the code under observation.
//
// stdin protocol (one command per line, one answer line per command):
//   new passthrough root=<dir> [no_opendir=1] [no_open=1 cache_always=1] [seal_size=1] [no_readdir=1] [writeback=1]
//   new vfs [no_opendir=1] [no_open=1] [seal_size=1] mount=<vfs path>=<host dir> mount=...
//   msg <reply buffer size> <hex request>      -> "reply <hex bytes written to the device>|-" "ret=<..>"
//   quit
use fuse_backend_rs::api::server::Server;
use fuse_backend_rs::api::{Vfs, VfsOptions};
use fuse_backend_rs::passthrough::{CachePolicy, Config, PassthroughFs};
use fuse_backend_rs::transport::{FuseBuf, FuseDevWriter, Reader};
use std::io::{BufRead, Read, Seek, SeekFrom, Write};
use std::os::unix::io::{AsRawFd, FromRawFd};
use std::panic::{catch_unwind, AssertUnwindSafe};
use std::sync::Arc;

enum Srv {
    P(Server<Arc<PassthroughFs>>),
    V(Server<Arc<Vfs>>),
}

fn unhex(s: &str) -> Vec<u8> {
    let b = s.as_bytes();
    (0..b.len() / 2)
        .map(|i| u8::from_str_radix(std::str::from_utf8(&b[2 * i..2 * i + 2]).unwrap(), 16).unwrap())
        .collect()
}

fn hex(b: &[u8]) -> String {
    let mut s = String::with_capacity(b.len() * 2);
    for x in b {
        s.push_str(&format!("{:02x}", x));
    }
    s
}

fn flag(kv: &[(String, String)], k: &str) -> bool {
    kv.iter().any(|(a, b)| a == k && b == "1")
}

fn pt_config(kv: &[(String, String)], root: &str, do_import: bool) -> Config {
    Config {
        root_dir: root.to_string(),
        do_import,
        no_opendir: flag(kv, "no_opendir"),
        no_open: flag(kv, "no_open"),
        seal_size: flag(kv, "seal_size"),
        no_readdir: flag(kv, "no_readdir"),
        writeback: flag(kv, "writeback"),
        killpriv_v2: flag(kv, "killpriv_v2"),
        xattr: flag(kv, "xattr"),
        cache_policy: if flag(kv, "cache_always") { CachePolicy::Always } else { Default::default() },
        ..Default::default()
    }
}

fn build(words: &[&str]) -> Result<Srv, String> {
    let kv: Vec<(String, String)> = words[1..]
        .iter()
        .filter_map(|w| w.split_once('=').map(|(a, b)| (a.to_string(), b.to_string())))
        .collect();
    match words[0] {
        "passthrough" => {
            let root = kv.iter().find(|(a, _)| a == "root").ok_or("root missing")?.1.clone();
            let fs = PassthroughFs::<()>::new(pt_config(&kv, &root, true)).map_err(|e| format!("{:?}", e))?;
            Ok(Srv::P(Server::new(Arc::new(fs))))
        }
        "vfs" => {
            let mut o = VfsOptions::default();
            o.no_opendir = flag(&kv, "no_opendir");
            o.no_open = flag(&kv, "no_open");
            o.seal_size = flag(&kv, "seal_size");
            let vfs = Vfs::new(o);
            for (a, b) in kv.iter() {
                if a == "mount" {
                    let (path, dir) = b.split_once('=').ok_or("mount=<path>=<dir>")?;
                    let fs = PassthroughFs::<()>::new(pt_config(&kv, dir, false)).map_err(|e| format!("{:?}", e))?;
                    fs.import().map_err(|e| format!("import {:?}", e))?;
                    vfs.mount(Box::new(fs), path).map_err(|e| format!("mount {:?}", e))?;
                }
            }
            Ok(Srv::V(Server::new(Arc::new(vfs))))
        }
        x => Err(format!("unknown fs kind {}", x)),
    }
}

fn main() {
    let stdin = std::io::stdin();
    let stdout = std::io::stdout();
    let mut out = stdout.lock();
    // the "device": an anonymous file; every reply is written at its start and read back
    let mfd = unsafe { libc::memfd_create(b"fusedev\0".as_ptr() as *const libc::c_char, 0) };
    assert!(mfd >= 0);
    let mut dev = unsafe { std::fs::File::from_raw_fd(mfd) };
    let mut srv: Option<Srv> = None;
    std::panic::set_hook(Box::new(|_| {}));
    for line in stdin.lock().lines() {
        let line = line.unwrap();
        let w: Vec<&str> = line.split_whitespace().collect();
        if w.is_empty() {
            continue;
        }
        match w[0] {
            "quit" => break,
            "new" => {
                srv = None;
                match build(&w[1..]) {
                    Ok(s) => {
                        srv = Some(s);
                        writeln!(out, "ok").unwrap();
                    }
                    Err(e) => writeln!(out, "error {}", e.replace('\n', " ")).unwrap(),
                }
            }
            "msg" => {
                let cap: usize = w[1].parse().unwrap();
                let mut req = unhex(w[2]);
                let mut wbuf = vec![0u8; cap];
                dev.set_len(0).unwrap();
                dev.seek(SeekFrom::Start(0)).unwrap();
                let fd = dev.as_raw_fd();
                let s = srv.as_ref().expect("no fs");
                let r = catch_unwind(AssertUnwindSafe(|| {
                    let reader = Reader::<()>::from_fuse_buffer(FuseBuf::new(&mut req)).unwrap();
                    let writer = FuseDevWriter::<()>::new(fd, &mut wbuf).unwrap();
                    match s {
                        Srv::P(sv) => sv.handle_message(reader, writer.into(), None, None),
                        Srv::V(sv) => sv.handle_message(reader, writer.into(), None, None),
                    }
                }));
                let mut rep = Vec::new();
                dev.seek(SeekFrom::Start(0)).unwrap();
                dev.read_to_end(&mut rep).unwrap();
                let h = if rep.is_empty() { "-".to_string() } else { hex(&rep) };
                match r {
                    Ok(Ok(n)) => writeln!(out, "reply {} ret=ok:{}", h, n).unwrap(),
                    Ok(Err(e)) => writeln!(out, "reply {} ret=err:{}", h, format!("{:?}", e).replace(' ', "_").replace('\n', "_")).unwrap(),
                    Err(_) => writeln!(out, "reply {} ret=panic", h).unwrap(),
                }
            }
            _ => writeln!(out, "error unknown command").unwrap(),
        }
        out.flush().unwrap();
    }
}
