// ptables: runs one history of FUSE requests on a real PassthroughFs over a temporary tree and
// prints, after every request, what a client / an outside observer can see:
//   reply (inode number / handle / errno), host identity of the entry (own fstat +
//   name_to_handle_at, independent of the server), table sizes (verif hook), number of open
//   descriptors of this process not owned by the harness, and for every inode number ever issued
//   the errno of getattr and the lookup count (verif hook).
// Used by props/c08.py and props/c15.py.  Input: a script file (see parse below).
#![allow(clippy::all)]
use fuse_backend_rs::abi::fuse_abi::CreateIn;
use fuse_backend_rs::api::filesystem::{Context, Entry, FileSystem, FsOptions, SetattrValid, ZeroCopyReader, ZeroCopyWriter};
use fuse_backend_rs::file_buf::FileVolatileSlice;
use fuse_backend_rs::file_traits::FileReadWriteVolatile;
use fuse_backend_rs::passthrough::{CachePolicy, Config, PassthroughFs};
use std::collections::HashSet;
use std::ffi::{CStr, CString};
use std::io::{BufRead, Write};
use std::os::unix::io::RawFd;

type Fs = PassthroughFs<()>;

/// the reply buffer of a READ / the payload of a WRITE, as the transport would present them
struct Buf(Vec<u8>);
impl std::io::Write for Buf {
    fn write(&mut self, b: &[u8]) -> std::io::Result<usize> {
        self.0.extend_from_slice(b);
        Ok(b.len())
    }
    fn flush(&mut self) -> std::io::Result<()> {
        Ok(())
    }
}
impl ZeroCopyWriter for Buf {
    fn write_from(&mut self, f: &mut dyn FileReadWriteVolatile, count: usize, off: u64) -> std::io::Result<usize> {
        let mut tmp = vec![0u8; count];
        let n = f.read_at_volatile(unsafe { FileVolatileSlice::from_mut_slice(&mut tmp) }, off)?;
        self.0.extend_from_slice(&tmp[..n]);
        Ok(n)
    }
    fn available_bytes(&self) -> usize {
        1 << 20
    }
}
impl std::io::Read for Buf {
    fn read(&mut self, b: &mut [u8]) -> std::io::Result<usize> {
        let n = b.len().min(self.0.len());
        b[..n].copy_from_slice(&self.0[..n]);
        self.0.drain(..n);
        Ok(n)
    }
}
impl ZeroCopyReader for Buf {
    fn read_to(&mut self, f: &mut dyn FileReadWriteVolatile, count: usize, off: u64) -> std::io::Result<usize> {
        let n = count.min(self.0.len());
        let mut tmp: Vec<u8> = self.0[..n].to_vec();
        let w = f.write_at_volatile(unsafe { FileVolatileSlice::from_mut_slice(&mut tmp) }, off)?;
        self.0.drain(..w);
        Ok(w)
    }
}

fn errno_of(e: &std::io::Error) -> i32 {
    e.raw_os_error().unwrap_or(-1)
}

fn cs(s: &str) -> CString {
    CString::new(s).unwrap()
}

extern "C" {
    fn name_to_handle_at(
        dirfd: libc::c_int,
        pathname: *const libc::c_char,
        handle: *mut u8,
        mount_id: *mut libc::c_int,
        flags: libc::c_int,
    ) -> libc::c_int;
}

#[derive(Clone, Debug)]
struct HostId {
    ino: u64,
    dev: u64,
    mnt: u64,
    fh: String,
    mode: u32,
}

impl HostId {
    fn json(&self) -> String {
        format!(
            "{{\"ino\":{},\"dev\":{},\"mnt\":{},\"fh\":\"{}\",\"mode\":{}}}",
            self.ino, self.dev, self.mnt, self.fh, self.mode
        )
    }
}

struct H {
    fs: Fs,
    own: HashSet<RawFd>,
    regs: Vec<Option<u64>>,
    rfd: Vec<Option<RawFd>>, // harness's own O_PATH fd of the file a register denotes
    hregs: Vec<Option<u64>>,
    lastoff: Vec<u64>, // per handle register: offset of the last delivered dir entry
    issued: Vec<u64>,
    caps: FsOptions,
    ctx: Context,
}

fn open_fds(own: &HashSet<RawFd>) -> usize {
    let mut n = 0;
    for fd in 0..2048 {
        if own.contains(&fd) {
            continue;
        }
        if unsafe { libc::fcntl(fd, libc::F_GETFD) } >= 0 {
            n += 1;
        }
    }
    n
}

fn host_id_of_fd(fd: RawFd) -> Option<HostId> {
    let mut st: libc::stat64 = unsafe { std::mem::zeroed() };
    if unsafe { libc::fstat64(fd, &mut st) } != 0 {
        return None;
    }
    let mut buf = [0u8; 8 + 128];
    buf[0..4].copy_from_slice(&128u32.to_ne_bytes());
    let mut mnt: libc::c_int = 0;
    let e = cs("");
    let r = unsafe { name_to_handle_at(fd, e.as_ptr(), buf.as_mut_ptr(), &mut mnt, libc::AT_EMPTY_PATH) };
    let fh = if r == 0 {
        let n = u32::from_ne_bytes([buf[0], buf[1], buf[2], buf[3]]) as usize;
        buf[0..8 + n].iter().map(|b| format!("{:02x}", b)).collect::<String>()
    } else {
        String::new()
    };
    Some(HostId { ino: st.st_ino, dev: st.st_dev, mnt: mnt as u64, fh, mode: st.st_mode })
}

impl H {
    /// inode operand: a register index, or `=N` for the literal number N
    fn ireg(&self, tok: &str) -> u64 {
        match tok.strip_prefix('=') {
            Some(v) => v.parse().unwrap(),
            None => self.reg(tok.parse().unwrap()),
        }
    }
    /// handle operand: a handle register index, or `=N` for the literal handle N
    fn htok(&self, tok: &str) -> u64 {
        match tok.strip_prefix('=') {
            Some(v) => v.parse().unwrap(),
            None => self.hreg(tok.parse().unwrap()),
        }
    }
    fn reg(&self, k: usize) -> u64 {
        self.regs.get(k).copied().flatten().unwrap_or(0xdead_0000 + k as u64)
    }
    fn hreg(&self, k: usize) -> u64 {
        self.hregs.get(k).copied().flatten().unwrap_or(0xbeef_0000 + k as u64)
    }
    fn set_reg(&mut self, k: usize, v: u64, fd: Option<RawFd>) {
        while self.regs.len() <= k {
            self.regs.push(None);
            self.rfd.push(None);
        }
        self.regs[k] = Some(v);
        self.rfd[k] = fd;
    }
    fn set_hreg(&mut self, k: usize, v: u64) {
        while self.hregs.len() <= k {
            self.hregs.push(None);
            self.lastoff.push(0);
        }
        self.hregs[k] = Some(v);
        self.lastoff[k] = 0;
    }
    fn issue(&mut self, ino: u64) {
        if !self.issued.contains(&ino) {
            self.issued.push(ino);
        }
    }
    /// the harness's own view of (parent register, name): O_PATH fd (kept for ever, so that the
    /// host never reuses the inode number within a history) + identity
    fn host_lookup(&mut self, rp: usize, name: &str) -> Option<(RawFd, HostId)> {
        let pfd = self.rfd.get(rp).copied().flatten()?;
        // the harness's own probing is not subject to the descriptor limit injected for the request
        let mut cur = libc::rlimit { rlim_cur: 0, rlim_max: 0 };
        unsafe { libc::getrlimit(libc::RLIMIT_NOFILE, &mut cur) };
        let full = libc::rlimit { rlim_cur: cur.rlim_max.min(4096), rlim_max: cur.rlim_max };
        unsafe { libc::setrlimit(libc::RLIMIT_NOFILE, &full) };
        let r = self.host_lookup_inner(pfd, rp, name);
        unsafe { libc::setrlimit(libc::RLIMIT_NOFILE, &cur) };
        r
    }
    fn host_lookup_inner(&mut self, pfd: RawFd, rp: usize, name: &str) -> Option<(RawFd, HostId)> {
        // the server never leaves the export: ".." of the root is the root (do_lookup)
        let name = if self.reg(rp) == 1 && name == ".." { "." } else { name };
        let n = cs(name);
        let fd = unsafe { libc::openat(pfd, n.as_ptr(), libc::O_PATH | libc::O_NOFOLLOW | libc::O_CLOEXEC) };
        if fd < 0 {
            return None;
        }
        self.own.insert(fd);
        let id = host_id_of_fd(fd)?;
        Some((fd, id))
    }
    fn init(&mut self) {
        self.fs.init(self.caps).expect("init");
    }
}

fn entry_json(r: &std::io::Result<Entry>, p: u64) -> String {
    match r {
        Ok(e) => format!("\"p\":{},\"res\":0,\"ino\":{}", p, e.inode),
        Err(e) => format!("\"p\":{},\"res\":{}", p, errno_of(e)),
    }
}

fn main() {
    let args: Vec<String> = std::env::args().collect();
    let script = std::fs::read_to_string(&args[1]).expect("script");
    let base = args.get(2).cloned().unwrap_or_else(|| "/tmp".to_string());
    let mut lines = script.lines();
    // --- configuration
    let cfgl: Vec<&str> = lines.next().unwrap().split_whitespace().collect();
    assert_eq!(cfgl[0], "cfg");
    let b = |i: usize| cfgl[i] == "1";
    let (ifh, uhi, no_open, no_opendir) = (b(1), b(2), b(3), b(4));
    // --- tree
    let root = format!("{}/ptables-{}", base, std::process::id());
    let _ = std::fs::remove_dir_all(&root);
    std::fs::create_dir_all(&root).unwrap();
    let mut ops: Vec<Vec<String>> = Vec::new();
    let mut in_ops = false;
    for l in lines {
        let w: Vec<String> = l.split_whitespace().map(|s| s.to_string()).collect();
        if w.is_empty() {
            continue;
        }
        if !in_ops {
            if w[0] == "init" {
                in_ops = true;
                continue;
            }
            assert_eq!(w[0], "mk");
            let p = format!("{}/{}", root, w[w.len() - 1]);
            match w[1].as_str() {
                "dir" => std::fs::create_dir(&p).unwrap(),
                "file" => {
                    std::fs::write(&p, b"0123456789").unwrap();
                }
                "hlink" => std::fs::hard_link(format!("{}/{}", root, w[2]), &p).unwrap(),
                "fifo" => {
                    let c = cs(&p);
                    assert_eq!(unsafe { libc::mkfifo(c.as_ptr(), 0o644) }, 0);
                }
                "sym" => std::os::unix::fs::symlink(&w[2], &p).unwrap(),
                x => panic!("mk {}", x),
            }
        } else {
            ops.push(w);
        }
    }
    // --- server
    let mut lim = libc::rlimit { rlim_cur: 0, rlim_max: 0 };
    unsafe { libc::getrlimit(libc::RLIMIT_NOFILE, &mut lim) };
    let orig_lim = lim;
    let mut own: HashSet<RawFd> = HashSet::new();
    for fd in 0..2048 {
        if unsafe { libc::fcntl(fd, libc::F_GETFD) } >= 0 {
            own.insert(fd);
        }
    }
    let fds_before_new = open_fds(&own);
    let mut cfg = Config::default();
    cfg.root_dir = root.clone();
    cfg.do_import = true;
    cfg.inode_file_handles = ifh;
    cfg.use_host_ino = uhi;
    cfg.no_open = no_open;
    cfg.no_opendir = no_opendir;
    cfg.cache_policy = CachePolicy::Always;
    cfg.xattr = false;
    let fs = Fs::new(cfg).expect("new");
    let mut caps = FsOptions::empty();
    if no_open {
        caps |= FsOptions::ZERO_MESSAGE_OPEN;
    }
    if no_opendir {
        caps |= FsOptions::ZERO_MESSAGE_OPENDIR;
    }
    let mut h = H {
        fs,
        own,
        regs: vec![],
        rfd: vec![],
        hregs: vec![],
        lastoff: vec![],
        issued: vec![1],
        caps,
        ctx: Context { uid: 0, gid: 0, pid: 1 },
    };
    let fds_after_new = open_fds(&h.own);
    h.init();
    // the harness's own root fd
    let rc = cs(&root);
    let rfd = unsafe { libc::open(rc.as_ptr(), libc::O_PATH | libc::O_CLOEXEC) };
    assert!(rfd >= 0);
    h.own.insert(rfd);
    h.set_reg(0, 1, Some(rfd));
    let out = std::io::stdout();
    let mut out = out.lock();
    let rid = host_id_of_fd(rfd).unwrap();
    let sz = h.fs.verif_table_sizes();
    writeln!(
        out,
        "{{\"op\":\"start\",\"fds_before_new\":{},\"fds_after_new\":{},\"fds\":{},\"host\":{},\"sizes\":[{},{},{},{},{}],\"rc1\":{}}}",
        fds_before_new,
        fds_after_new,
        open_fds(&h.own),
        rid.json(),
        sz.0, sz.1, sz.2, sz.3, sz.4,
        h.fs.verif_refcount(1).map(|x| x as i64).unwrap_or(-1)
    )
    .unwrap();

    // watchdog: a request that does not return within PTABLES_WATCHDOG seconds (default 60) of wall time is reported
    // as hung, with its index, and the process ends (the judgement never comes from the caller's process timeout)
    static HEART_OP: std::sync::atomic::AtomicUsize = std::sync::atomic::AtomicUsize::new(usize::MAX);
    static HEART_T: std::sync::atomic::AtomicU64 = std::sync::atomic::AtomicU64::new(0);
    let wd_start = std::time::Instant::now();
    {
        let limit: u64 = std::env::var("PTABLES_WATCHDOG").ok().and_then(|x| x.parse().ok()).unwrap_or(60);
        std::thread::spawn(move || loop {
            std::thread::sleep(std::time::Duration::from_millis(500));
            let op = HEART_OP.load(std::sync::atomic::Ordering::Acquire);
            let t = HEART_T.load(std::sync::atomic::Ordering::Acquire);
            if op != usize::MAX && wd_start.elapsed().as_secs() > t + limit {
                let msg = format!("{{\"hung\":{},\"seconds\":{}}}\n", op, limit);
                unsafe {
                    libc::write(1, msg.as_ptr() as *const libc::c_void, msg.len());
                    libc::_exit(0);
                }
            }
        });
    }
    for (idx, w) in ops.iter().enumerate() {
        HEART_T.store(wd_start.elapsed().as_secs(), std::sync::atomic::Ordering::Release);
        HEART_OP.store(idx, std::sync::atomic::Ordering::Release);
        let mut w: Vec<String> = w.clone();
        // optional prefix: "fail <n>" = make the n-th descriptor allocation of this request fail
        let mut inject: Option<usize> = None;
        if w[0] == "fail" {
            inject = Some(w[1].parse().unwrap());
            w.drain(0..2);
        }
        let us = |i: usize| -> usize { w[i].parse().unwrap() };
        let mut body = String::new();
        if let Some(n) = inject {
            // smallest limit L such that exactly n-1 descriptor numbers below L are free
            let mut free = 0usize;
            let mut l = 0u64;
            loop {
                if unsafe { libc::fcntl(l as i32, libc::F_GETFD) } < 0 {
                    if free == n - 1 {
                        break;
                    }
                    free += 1;
                }
                l += 1;
            }
            let nl = libc::rlimit { rlim_cur: l, rlim_max: orig_lim.rlim_max };
            unsafe { libc::setrlimit(libc::RLIMIT_NOFILE, &nl) };
        }
        match w[0].as_str() {
            "lookup" => {
                let (rd, rp) = (us(1), us(2));
                let r = h.fs.lookup(&h.ctx.clone(), h.reg(rp), &cs(&w[3]));
                body = entry_json(&r, h.reg(rp));
                post_entry(&mut h, &mut body, rd, rp, &w[3], r.ok());
            }
            "mkdir" => {
                let (rd, rp) = (us(1), us(2));
                let r = h.fs.mkdir(&h.ctx.clone(), h.reg(rp), &cs(&w[3]), 0o755, 0);
                body = entry_json(&r, h.reg(rp));
                post_entry(&mut h, &mut body, rd, rp, &w[3], r.ok());
            }
            "mknod" => {
                let (rd, rp) = (us(1), us(2));
                let mode = if w[4] == "fifo" { libc::S_IFIFO | 0o644 } else { libc::S_IFREG | 0o644 };
                let r = h.fs.mknod(&h.ctx.clone(), h.reg(rp), &cs(&w[3]), mode, 0, 0);
                body = entry_json(&r, h.reg(rp));
                post_entry(&mut h, &mut body, rd, rp, &w[3], r.ok());
            }
            "symlink" => {
                let (rd, rp) = (us(1), us(2));
                let r = h.fs.symlink(&h.ctx.clone(), &cs(&w[4]), h.reg(rp), &cs(&w[3]));
                body = entry_json(&r, h.reg(rp));
                post_entry(&mut h, &mut body, rd, rp, &w[3], r.ok());
            }
            "link" => {
                let (rd, rs, rp) = (us(1), us(2), us(3));
                let r = h.fs.link(&h.ctx.clone(), h.reg(rs), h.reg(rp), &cs(&w[4]));
                body = entry_json(&r, h.reg(rp));
                body += &format!(",\"src\":{}", h.reg(rs));
                post_entry(&mut h, &mut body, rd, rp, &w[4], r.ok());
            }
            "create" => {
                let (rd, hd, rp) = (us(1), us(2), us(3));
                let excl = w[5] == "1";
                let args = CreateIn {
                    flags: (libc::O_RDWR | if excl { libc::O_EXCL } else { 0 }) as u32,
                    mode: 0o644,
                    umask: 0,
                    fuse_flags: 0,
                };
                let existed = h.host_lookup(rp, &w[4]).is_some();
                let r = h.fs.create(&h.ctx.clone(), h.reg(rp), &cs(&w[4]), args);
                let ent = match &r {
                    Ok((e, hh, _, _)) => {
                        body = format!("\"p\":{},\"existed\":{},\"excl\":{},\"res\":0,\"ino\":{},\"h\":{}", h.reg(rp), existed, excl, e.inode, hh.map(|x| x as i64).unwrap_or(-1));
                        if let Some(hh) = hh {
                            h.set_hreg(hd, *hh);
                        }
                        Some(*e)
                    }
                    Err(e) => {
                        body = format!("\"p\":{},\"existed\":{},\"excl\":{},\"res\":{}", h.reg(rp), existed, excl, errno_of(e));
                        None
                    }
                };
                post_entry(&mut h, &mut body, rd, rp, &w[4], ent);
            }
            "rename" => {
                let r = h.fs.rename(&h.ctx.clone(), h.reg(us(1)), &cs(&w[2]), h.reg(us(3)), &cs(&w[4]), 0);
                body = format!("\"res\":{}", r.err().map(|e| errno_of(&e)).unwrap_or(0));
            }
            "unlink" => {
                let r = h.fs.unlink(&h.ctx.clone(), h.reg(us(1)), &cs(&w[2]));
                body = format!("\"res\":{}", r.err().map(|e| errno_of(&e)).unwrap_or(0));
            }
            "rmdir" => {
                let r = h.fs.rmdir(&h.ctx.clone(), h.reg(us(1)), &cs(&w[2]));
                body = format!("\"res\":{}", r.err().map(|e| errno_of(&e)).unwrap_or(0));
            }
            "forget" => {
                let ino = h.reg(us(1));
                let c: u64 = w[2].parse().unwrap();
                h.fs.forget(&h.ctx.clone(), ino, c);
                body = format!("\"res\":0,\"ino\":{},\"count\":{}", ino, c);
            }
            "bforget" => {
                let mut v = vec![];
                let mut s = String::new();
                for it in &w[1..] {
                    let mut p = it.split(':');
                    let r: usize = p.next().unwrap().parse().unwrap();
                    let c: u64 = p.next().unwrap().parse().unwrap();
                    v.push((h.reg(r), c));
                    s += &format!("[{},{}],", h.reg(r), c);
                }
                h.fs.batch_forget(&h.ctx.clone(), v);
                body = format!("\"res\":0,\"reqs\":[{}]", s.trim_end_matches(','));
            }
            "bforgetall" => {
                // the client lets go of every inode number it was ever given: bforgetall [plain|rootfirst|rootmid|rootlast|single]
                // (one BATCH_FORGET, with an entry for the root -- which is never forgotten -- at the given place, or
                // one FORGET per number)
                let variant = w.get(1).map(|x| x.as_str()).unwrap_or("plain").to_string();
                let mut v: Vec<(u64, u64)> = h.issued.iter().filter(|n| **n != 1).map(|n| (*n, 1_000_000u64)).collect();
                match variant.as_str() {
                    "rootfirst" => v.insert(0, (1, 3)),
                    "rootmid" => v.insert(v.len() / 2, (1, 3)),
                    "rootlast" => v.push((1, 3)),
                    _ => {}
                }
                let s: Vec<String> = v.iter().map(|(a, b)| format!("[{},{}]", a, b)).collect();
                if variant == "single" {
                    for (a, b) in &v {
                        h.fs.forget(&h.ctx.clone(), *a, *b);
                    }
                } else {
                    h.fs.batch_forget(&h.ctx.clone(), v);
                }
                w[0] = "bforget".to_string();
                body = format!("\"res\":0,\"all\":\"{}\",\"reqs\":[{}]", variant, s.join(","));
            }
            "open" | "opendir" => {
                let (hd, r) = (us(1), us(2));
                let ino = h.reg(r);
                let res = if w[0] == "open" {
                    h.fs.open(&h.ctx.clone(), ino, libc::O_RDONLY as u32, 0).map(|x| x.0)
                } else {
                    h.fs.opendir(&h.ctx.clone(), ino, libc::O_RDONLY as u32).map(|x| x.0)
                };
                match res {
                    Ok(hh) => {
                        body = format!("\"res\":0,\"ino\":{},\"h\":{}", ino, hh.map(|x| x as i64).unwrap_or(-1));
                        if let Some(hh) = hh {
                            h.set_hreg(hd, hh);
                        }
                    }
                    Err(e) => body = format!("\"res\":{},\"ino\":{}", errno_of(&e), ino),
                }
            }
            "release" | "releasedir" => {
                // release <r> <h> [flush] [flock] [flags<N>] [lock<N>]: every field of the request can be set
                let (ino, hh) = (h.ireg(&w[1]), h.htok(&w[2]));
                let flush = w.iter().any(|x| x == "flush");
                let flock = w.iter().any(|x| x == "flock");
                let flags: u32 = w.iter().find_map(|x| x.strip_prefix("flags").and_then(|v| v.parse().ok())).unwrap_or(0);
                let lock: Option<u64> = w.iter().find_map(|x| x.strip_prefix("lock").and_then(|v| v.parse().ok()));
                let res = if w[0] == "release" {
                    h.fs.release(&h.ctx.clone(), ino, flags, hh, flush, flock, lock)
                } else {
                    h.fs.releasedir(&h.ctx.clone(), ino, flags, hh)
                };
                body = format!("\"res\":{},\"ino\":{},\"h\":{},\"flush\":{}", res.err().map(|e| errno_of(&e)).unwrap_or(0), ino, hh, flush);
            }
            "use" => {
                // use <r> <h> <kind> [flags<N>] [nohandle] [valid<N>] [size<N>]: a request that presents (inode, handle);
                // flags<N> = the flags word of READ / WRITE, nohandle = GETATTR / SETATTR without a handle,
                // valid<N> / size<N> = the valid mask and the size of SETATTR
                let (ino, hh) = (h.ireg(&w[1]), h.htok(&w[2]));
                let num = |pre: &str| -> Option<u64> { w.iter().skip(4).find_map(|x| x.strip_prefix(pre).and_then(|v| v.parse().ok())) };
                let rflags = num("flags");
                let nohandle = w.iter().any(|x| x == "nohandle");
                let oh = if nohandle { None } else { Some(hh) };
                let valid = SetattrValid::from_bits_truncate(num("valid").unwrap_or(0) as u32);
                let mut sattr: libc::stat64 = unsafe { std::mem::zeroed() };
                sattr.st_size = num("size").unwrap_or(0) as i64;
                let c = h.ctx.clone();
                let res: std::io::Result<()> = match w[3].as_str() {
                    "getattr" => h.fs.getattr(&c, ino, oh).map(|_| ()),
                    "fsync" => h.fs.fsync(&c, ino, w.iter().any(|x| x == "ds"), hh),
                    "fsyncdir" => h.fs.fsyncdir(&c, ino, w.iter().any(|x| x == "ds"), hh),
                    "flush" => h.fs.flush(&c, ino, hh, w.iter().find_map(|x| x.strip_prefix("lock").and_then(|v| v.parse().ok())).unwrap_or(0)),
                    "lseek" => h.fs.lseek(&c, ino, hh, 0, libc::SEEK_CUR as u32).map(|_| ()),
                    "read" => h.fs.read(&c, ino, hh, &mut Buf(vec![]), 4, 0, None, rflags.unwrap_or(libc::O_RDONLY as u64) as u32).map(|_| ()),
                    "write" => h.fs.write(&c, ino, hh, &mut Buf(b"ab".to_vec()), 2, 0, None, false, rflags.unwrap_or(libc::O_WRONLY as u64) as u32, 0).map(|_| ()),
                    "fallocate" => h.fs.fallocate(&c, ino, hh, 0, 0, 4),
                    "setattr" => h.fs.setattr(&c, ino, sattr, oh, valid).map(|_| ()),
                    x => panic!("use {}", x),
                };
                body = format!(
                    "\"res\":{},\"ino\":{},\"h\":{},\"kind\":\"{}\",\"nohandle\":{},\"rflags\":{},\"valid\":{}",
                    res.err().map(|e| errno_of(&e)).unwrap_or(0), ino, hh, w[3], nohandle, rflags.map(|x| x as i64).unwrap_or(-1), valid.bits()
                );
            }
            "readdir" | "readdirplus" => {
                // readdir[plus] <r> <h> <size> <0|last> <budget>
                let r = us(1);
                let hr = if w[2].starts_with('=') { usize::MAX } else { us(2) };
                let (ino, hh) = (h.reg(r), h.htok(&w[2]));
                let size: u32 = w[3].parse().unwrap();
                let off = if w[4] == "last" { h.lastoff.get(hr).copied().unwrap_or(0) } else { 0 };
                let budget: usize = w[5].parse().unwrap();
                let mut seen: Vec<(String, u64, u64, bool)> = vec![]; // name, number, offset, delivered
                let c = h.ctx.clone();
                let res = if w[0] == "readdir" {
                    h.fs.readdir(&c, ino, hh, size, off, &mut |d| {
                        let del = seen.iter().filter(|x| x.3).count() < budget;
                        seen.push((String::from_utf8_lossy(d.name).to_string(), d.ino, d.offset, del));
                        Ok(if del { 32 } else { 0 })
                    })
                } else {
                    h.fs.readdirplus(&c, ino, hh, size, off, &mut |d, e| {
                        let del = seen.iter().filter(|x| x.3).count() < budget;
                        seen.push((String::from_utf8_lossy(d.name).to_string(), e.inode, d.offset, del));
                        Ok(if del { 160 } else { 0 })
                    })
                };
                let mut ents = String::new();
                for (name, num, o, del) in &seen {
                    let hid = h.host_lookup(r, name).map(|x| x.1);
                    h.issue(*num);
                    if *del {
                        if let Some(l) = h.lastoff.get_mut(hr) {
                            *l = *o;
                        }
                    }
                    ents += &format!(
                        "{{\"name\":\"{}\",\"ino\":{},\"del\":{},\"host\":{}}},",
                        name,
                        num,
                        if *del { 1 } else { 0 },
                        hid.map(|x| x.json()).unwrap_or("null".to_string())
                    );
                }
                body = format!(
                    "\"res\":{},\"ino\":{},\"h\":{},\"plus\":{},\"ents\":[{}]",
                    res.err().map(|e| errno_of(&e)).unwrap_or(0),
                    ino,
                    hh,
                    if w[0] == "readdirplus" { 1 } else { 0 },
                    ents.trim_end_matches(',')
                );
            }
            "recycle" => {
                // recycle <rF> <rp> <name[,name..]> <newname> <file|dir> <sleep 0|1>
                // Host side: make the host reuse the inode number of the file register rF denotes: drop the
                // harness's own descriptors of it, unlink its names in directory rp (those still present),
                // then create candidates in rp until one gets the old inode number; that one is renamed to
                // <newname>, the others are removed.  The server is not involved.
                let (rf, rp) = (us(1), us(2));
                let kind_dir = w[5] == "dir";
                let may_sleep = w[6] == "1";
                let mut found = false;
                let mut tries = 0usize;
                let mut oldino = 0u64;
                if let (Some(ffd), Some(pfd)) = (h.rfd.get(rf).copied().flatten(), h.rfd.get(rp).copied().flatten()) {
                    let mut st: libc::stat64 = unsafe { std::mem::zeroed() };
                    unsafe { libc::fstat64(ffd, &mut st) };
                    oldino = st.st_ino;
                    let olddev = st.st_dev;
                    let mine: Vec<RawFd> = h.own.iter().copied().filter(|fd| *fd > 2).filter(|fd| {
                        let mut s2: libc::stat64 = unsafe { std::mem::zeroed() };
                        unsafe { libc::fstat64(*fd, &mut s2) == 0 && s2.st_ino == oldino && s2.st_dev == olddev }
                    }).collect();
                    for fd in mine {
                        unsafe { libc::close(fd) };
                        h.own.remove(&fd);
                        for r in h.rfd.iter_mut() {
                            if *r == Some(fd) {
                                *r = None;
                            }
                        }
                    }
                    for nm in w[3].split(',') {
                        let c = cs(nm);
                        unsafe { libc::unlinkat(pfd, c.as_ptr(), if kind_dir { libc::AT_REMOVEDIR } else { 0 }) };
                    }
                    let newc = cs(&w[4]);
                    let mut made: Vec<CString> = vec![];
                    'outer: for round in 0..2 {
                        if round == 1 {
                            if !may_sleep {
                                break;
                            }
                            std::thread::sleep(std::time::Duration::from_millis(5600));
                        }
                        for _ in 0..1500 {
                            let c = cs(&format!("{}.cand{}", w[4], tries));
                            tries += 1;
                            let ok = if kind_dir {
                                unsafe { libc::mkdirat(pfd, c.as_ptr(), 0o755) == 0 }
                            } else {
                                let fd = unsafe { libc::openat(pfd, c.as_ptr(), libc::O_CREAT | libc::O_WRONLY | libc::O_CLOEXEC, 0o644) };
                                if fd >= 0 {
                                    unsafe { libc::close(fd) };
                                }
                                fd >= 0
                            };
                            if !ok {
                                break 'outer;
                            }
                            let mut s3: libc::stat64 = unsafe { std::mem::zeroed() };
                            unsafe { libc::fstatat64(pfd, c.as_ptr(), &mut s3, libc::AT_SYMLINK_NOFOLLOW) };
                            if s3.st_ino == oldino {
                                unsafe { libc::renameat(pfd, c.as_ptr(), pfd, newc.as_ptr()) };
                                found = true;
                                break 'outer;
                            }
                            made.push(c);
                        }
                    }
                    for c in made {
                        unsafe { libc::unlinkat(pfd, c.as_ptr(), if kind_dir { libc::AT_REMOVEDIR } else { 0 }) };
                    }
                }
                body = format!("\"res\":0,\"found\":{},\"oldino\":{},\"tries\":{}", found, oldino, tries);
            }
            "destroy" => {
                h.fs.destroy();
                h.init();
                body = "\"res\":0".to_string();
            }
            x => panic!("unknown op {}", x),
        }
        if inject.is_some() {
            unsafe { libc::setrlimit(libc::RLIMIT_NOFILE, &orig_lim) };
        }
        // observations
        let sz = h.fs.verif_table_sizes();
        let fds = open_fds(&h.own);
        let mut valid = String::new();
        let c = h.ctx.clone();
        for n in h.issued.clone() {
            let e = h.fs.getattr(&c, n, None).err().map(|e| errno_of(&e)).unwrap_or(0);
            let rc = h.fs.verif_refcount(n).map(|x| x as i64).unwrap_or(-1);
            valid += &format!("[{},{},{}],", n, e, rc);
        }
        writeln!(
            out,
            "{{\"i\":{},\"op\":\"{}\",{},\"sizes\":[{},{},{},{},{}],\"fds\":{},\"valid\":[{}]}}",
            idx,
            w[0],
            body,
            sz.0, sz.1, sz.2, sz.3, sz.4,
            fds,
            valid.trim_end_matches(',')
        )
        .unwrap();
    }
    HEART_OP.store(usize::MAX, std::sync::atomic::Ordering::Release);
    drop(out);
    let _ = std::fs::remove_dir_all(&root);
}

/// after an entry-returning request on (parent register rp, name): the harness's own view of
/// the host identity of that name (also when the request failed), register update
fn post_entry(h: &mut H, body: &mut String, rd: usize, rp: usize, name: &str, ent: Option<Entry>) {
    let hl = h.host_lookup(rp, name);
    match &hl {
        Some((_, id)) => *body += &format!(",\"host\":{}", id.json()),
        None => *body += ",\"host\":null",
    }
    if let Some(e) = ent {
        h.issue(e.inode);
        h.set_reg(rd, e.inode, hl.map(|x| x.0));
    }
}

#[allow(dead_code)]
fn unused(_: &CStr) {}
