// Correspondence harness for C20 (async request path == sync request path):
// every case is served twice, by the real Server::handle_message and by the real
// Server::async_handle_message (feature async-io, polled by a trivial executor: the scripted
// filesystem's futures are always ready), each time with a fresh server + scripted filesystem
// that implements both FileSystem and AsyncFileSystem and logs every call.  Transports: a fake
// /dev/fuse (SOCK_SEQPACKET socketpair: one packet per write call; the async unbuffered path
// uses pwrite(fd, data, 0), which a socket refuses, so `pwrite`/`pwrite64` are interposed in this
// binary and forwarded as write(2) on the harness fd) and virtio descriptor chains.
// Same text protocol as codec.rs (+ `fill=` = byte the reply buffer is pre-filled with);
// two result lines per case: `id=.. mode=sync ..` and `id=.. mode=async ..`.
#![allow(clippy::all, unused_variables, dead_code)]
#[cfg(not(feature = "async-io"))]
fn main() { eprintln!("codec_async needs --features async-io"); std::process::exit(2); }
#[cfg(feature = "async-io")]
fn main() { imp::main() }

#[cfg(feature = "async-io")]
mod imp {
use async_trait::async_trait;
use fuse_backend_rs::abi::fuse_abi::{stat64, statvfs64, CreateIn, FsOptions, OpenOptions, SetattrValid};
use fuse_backend_rs::abi::virtio_fs::RemovemappingOne;
use fuse_backend_rs::api::filesystem::{
    AsyncFileSystem, AsyncZeroCopyReader, AsyncZeroCopyWriter, Context, DirEntry, Entry, FileLock, FileSystem, GetxattrReply,
    IoctlData, ListxattrReply, ZeroCopyReader, ZeroCopyWriter,
};
use fuse_backend_rs::api::server::Server;
use fuse_backend_rs::transport::{FsCacheReqHandler, FuseBuf, FuseDevWriter, Reader, VirtioFsWriter, Writer};
use std::ffi::CStr;
use std::io::{self, BufRead, Write};
use std::sync::atomic::{AtomicI32, AtomicUsize, Ordering};
use std::sync::{Arc, Mutex};
use std::time::Duration;
use virtio_queue::desc::{split::Descriptor as SplitDescriptor, RawDescriptor};
use virtio_queue::mock::MockSplitQueue;
use vm_memory::{Bytes, GuestAddress, GuestMemoryMmap};

// ---- pwrite interposition: the definitions in the executable take precedence over libc's
static HARNESS_FD: AtomicI32 = AtomicI32::new(-1);
static PWRITES: AtomicUsize = AtomicUsize::new(0);
#[no_mangle]
pub unsafe extern "C" fn pwrite(fd: libc::c_int, buf: *const libc::c_void, count: libc::size_t, offset: libc::off_t) -> libc::ssize_t {
    if fd >= 0 && fd == HARNESS_FD.load(Ordering::SeqCst) {
        PWRITES.fetch_add(1, Ordering::SeqCst);
        return libc::syscall(libc::SYS_write, fd, buf, count) as libc::ssize_t;
    }
    libc::syscall(libc::SYS_pwrite64, fd, buf, count, offset) as libc::ssize_t
}
#[no_mangle]
pub unsafe extern "C" fn pwrite64(fd: libc::c_int, buf: *const libc::c_void, count: libc::size_t, offset: libc::off64_t) -> libc::ssize_t {
    pwrite(fd, buf, count, offset as libc::off_t)
}

// ---- trivial executor: the scripted filesystem never returns Pending
fn block_on<F: std::future::Future>(f: F) -> F::Output {
    use std::task::{Context as TCx, Poll, RawWaker, RawWakerVTable, Waker};
    fn noop(_: *const ()) {}
    fn clone(_: *const ()) -> RawWaker { RawWaker::new(std::ptr::null(), &VT) }
    static VT: RawWakerVTable = RawWakerVTable::new(clone, noop, noop, noop);
    let waker = unsafe { Waker::from_raw(RawWaker::new(std::ptr::null(), &VT)) };
    let mut cx = TCx::from_waker(&waker);
    let mut f = Box::pin(f);
    let mut spins = 0u32;
    loop {
        match f.as_mut().poll(&mut cx) {
            Poll::Ready(v) => return v,
            Poll::Pending => { spins += 1; if spins > 1000 { panic!("future never became ready"); } }
        }
    }
}

fn hex(b: &[u8]) -> String {
    let mut s = String::with_capacity(b.len() * 2);
    for x in b {
        s.push_str(&format!("{:02x}", x));
    }
    s
}
fn unhex(s: &str) -> Vec<u8> {
    (0..s.len() / 2).map(|i| u8::from_str_radix(&s[2 * i..2 * i + 2], 16).unwrap()).collect()
}

#[derive(Clone, Debug)]
enum FsRes {
    ErrOs(i32),
    ErrKind(u32),
    Unit,
    Entry(Vec<u64>),
    Attr(Vec<u64>),
    Bytes(Vec<u8>),
    Count(u64),
    Open(Option<u64>, u32, Option<u32>),
    Create(Vec<u64>, Option<u64>, u32, Option<u32>),
    Read(Vec<u8>),
    // the filesystem pushes these bytes into the data writer and THEN fails with this errno: the reply must be the error
    ReadErr(i32, Vec<u8>),
    Statfs(Vec<u64>),
    Lock(Vec<u64>),
    Dirents(Vec<(u64, u64, u32, Vec<u8>, Vec<u64>)>),
    Init(u64),
    Ioctl(u32, Vec<u8>),
    Num(u64),
}

fn opt64(s: &str) -> Option<u64> {
    if s == "-" { None } else { Some(s.parse().unwrap()) }
}
fn nums(s: &str) -> Vec<u64> {
    if s.is_empty() { vec![] } else { s.split(',').map(|x| x.parse().unwrap()).collect() }
}

fn parse_fs(s: &str) -> FsRes {
    let (tag, rest) = s.split_once(':').unwrap_or((s, ""));
    match tag {
        "err" => {
            let (k, v) = rest.split_once(':').unwrap();
            if k == "os" { FsRes::ErrOs(v.parse().unwrap()) } else { FsRes::ErrKind(v.parse().unwrap()) }
        }
        "unit" => FsRes::Unit,
        "entry" => FsRes::Entry(nums(rest)),
        "attr" => FsRes::Attr(nums(rest)),
        "bytes" => FsRes::Bytes(unhex(rest)),
        "count" => FsRes::Count(rest.parse().unwrap()),
        "open" => {
            let p: Vec<&str> = rest.split(',').collect();
            FsRes::Open(opt64(p[0]), p[1].parse().unwrap(), opt64(p[2]).map(|x| x as u32))
        }
        "create" => {
            let p: Vec<&str> = rest.split(',').collect();
            let e: Vec<u64> = p[..22].iter().map(|x| x.parse().unwrap()).collect();
            FsRes::Create(e, opt64(p[22]), p[23].parse().unwrap(), opt64(p[24]).map(|x| x as u32))
        }
        "read" => FsRes::Read(unhex(rest)),
        "readerr" => { let (en, d) = rest.split_once(':').unwrap(); FsRes::ReadErr(en.parse().unwrap(), unhex(d)) }
        "statfs" => FsRes::Statfs(nums(rest)),
        "lock" => FsRes::Lock(nums(rest)),
        "dirents" => {
            let mut v = vec![];
            if !rest.is_empty() {
                for d in rest.split(';') {
                    let p: Vec<&str> = d.split(',').collect();
                    let e: Vec<u64> = p[4..26].iter().map(|x| x.parse().unwrap()).collect();
                    v.push((p[0].parse().unwrap(), p[1].parse().unwrap(), p[2].parse().unwrap(), unhex(p[3]), e));
                }
            }
            FsRes::Dirents(v)
        }
        "init" => FsRes::Init(rest.parse().unwrap()),
        "ioctl" => {
            let (a, b) = rest.split_once(',').unwrap();
            FsRes::Ioctl(a.parse().unwrap(), unhex(b))
        }
        "num" => FsRes::Num(rest.parse().unwrap()),
        _ => panic!("bad fsres {}", s),
    }
}

fn kind_of(k: u32) -> io::ErrorKind {
    match k {
        0 => io::ErrorKind::PermissionDenied,
        1 => io::ErrorKind::NotFound,
        2 => io::ErrorKind::Interrupted,
        3 => io::ErrorKind::AlreadyExists,
        4 => io::ErrorKind::WouldBlock,
        5 => io::ErrorKind::InvalidData,
        6 => io::ErrorKind::Other,
        7 => io::ErrorKind::TimedOut,
        8 => io::ErrorKind::UnexpectedEof,
        9 => io::ErrorKind::WriteZero,
        // codes 10.. = every other stable ErrorKind, in the order of translator/server_dispatch.py KIND_EXT
        10 => io::ErrorKind::ConnectionRefused,
        11 => io::ErrorKind::ConnectionReset,
        12 => io::ErrorKind::ConnectionAborted,
        13 => io::ErrorKind::NotConnected,
        14 => io::ErrorKind::AddrInUse,
        15 => io::ErrorKind::AddrNotAvailable,
        16 => io::ErrorKind::BrokenPipe,
        17 => io::ErrorKind::InvalidInput,
        18 => io::ErrorKind::Unsupported,
        19 => io::ErrorKind::OutOfMemory,
        20 => io::ErrorKind::HostUnreachable,
        21 => io::ErrorKind::NetworkUnreachable,
        22 => io::ErrorKind::NetworkDown,
        23 => io::ErrorKind::NotADirectory,
        24 => io::ErrorKind::IsADirectory,
        25 => io::ErrorKind::DirectoryNotEmpty,
        26 => io::ErrorKind::ReadOnlyFilesystem,
        27 => io::ErrorKind::StaleNetworkFileHandle,
        28 => io::ErrorKind::StorageFull,
        29 => io::ErrorKind::NotSeekable,
        30 => io::ErrorKind::QuotaExceeded,
        31 => io::ErrorKind::FileTooLarge,
        32 => io::ErrorKind::ResourceBusy,
        33 => io::ErrorKind::ExecutableFileBusy,
        34 => io::ErrorKind::Deadlock,
        35 => io::ErrorKind::CrossesDevices,
        36 => io::ErrorKind::TooManyLinks,
        37 => io::ErrorKind::InvalidFilename,
        38 => io::ErrorKind::ArgumentListTooLong,
        _ => io::ErrorKind::WriteZero,
    }
}

fn mk_stat(v: &[u64]) -> stat64 {
    let mut st: stat64 = unsafe { std::mem::zeroed() };
    st.st_ino = v[0] as _;
    st.st_size = v[1] as _;
    st.st_blocks = v[2] as _;
    st.st_atime = v[3] as _;
    st.st_mtime = v[4] as _;
    st.st_ctime = v[5] as _;
    st.st_atime_nsec = v[6] as _;
    st.st_mtime_nsec = v[7] as _;
    st.st_ctime_nsec = v[8] as _;
    st.st_mode = v[9] as _;
    st.st_nlink = v[10] as _;
    st.st_uid = v[11] as _;
    st.st_gid = v[12] as _;
    st.st_rdev = v[13] as _;
    st.st_blksize = v[14] as _;
    st
}
// entry numbers: inode, generation, 15 stat fields, attr_flags, attr_secs, attr_nsecs, entry_secs, entry_nsecs
fn mk_entry(v: &[u64]) -> Entry {
    Entry {
        inode: v[0],
        generation: v[1],
        attr: mk_stat(&v[2..17]),
        attr_flags: v[17] as u32,
        attr_timeout: Duration::new(v[18], v[19] as u32),
        entry_timeout: Duration::new(v[20], v[21] as u32),
    }
}

struct ScriptFs {
    res: FsRes,
    remap: Option<(u32, u32)>, // None = fail
    log: Mutex<Vec<String>>,
    priming: std::sync::atomic::AtomicBool, // true while the harness sends the version-setting INIT
    yield_once: bool, // every async method returns Pending once before it answers
}
fn new_fs(c: &Case) -> Arc<ScriptFs> {
    Arc::new(ScriptFs { res: c.fs.clone(), remap: c.remap, log: Mutex::new(vec![]), priming: std::sync::atomic::AtomicBool::new(false), yield_once: c.yield_once })
}

// a future that is Pending exactly once (wakes itself): real suspension at the await point of the handler
struct YieldOnce(bool);
impl std::future::Future for YieldOnce {
    type Output = ();
    fn poll(mut self: std::pin::Pin<&mut Self>, cx: &mut std::task::Context<'_>) -> std::task::Poll<()> {
        if self.0 { std::task::Poll::Ready(()) } else { self.0 = true; cx.waker().wake_by_ref(); std::task::Poll::Pending }
    }
}

// MetricsHook that records what the handler tells it
struct LogHook(Mutex<Vec<String>>);
impl fuse_backend_rs::api::server::MetricsHook for LogHook {
    fn collect(&self, ih: &fuse_backend_rs::abi::fuse_abi::InHeader) {
        self.0.lock().unwrap().push(format!("collect:{}:{}:{}:{}", ih.len, ih.opcode, ih.unique, ih.nodeid));
    }
    fn on_init_params(&self, p: &fuse_backend_rs::api::server::InitParams) {
        self.0.lock().unwrap().push(format!("init:{}.{}:{}:{}", p.version.major, p.version.minor, p.capable.bits(), p.want.bits()));
    }
    fn release(&self, oh: Option<&fuse_backend_rs::abi::fuse_abi::OutHeader>) {
        self.0.lock().unwrap().push(match oh { None => "release:none".to_string(), Some(o) => format!("release:{}:{}:{}", o.len, o.error, o.unique) });
    }
}

impl ScriptFs {
    fn rec(&self, m: &str, ctx: Option<&Context>, args: Vec<String>) {
        if self.priming.load(std::sync::atomic::Ordering::SeqCst) { return; }
        let c = match ctx {
            Some(c) => format!("{},{},{}", c.uid, c.gid, c.pid as u32),
            None => "0,0,0".to_string(),
        };
        self.log.lock().unwrap().push(format!("{}({}|{})", m, c, args.join("|")));
    }
    fn err(&self) -> Option<io::Error> {
        match &self.res {
            FsRes::ErrOs(n) => Some(io::Error::from_raw_os_error(*n)),
            FsRes::ErrKind(k) => Some(io::Error::new(kind_of(*k), "scripted")),
            _ => None,
        }
    }
    fn unit(&self) -> io::Result<()> {
        match self.err() { Some(e) => Err(e), None => Ok(()) }
    }
    fn entry(&self) -> io::Result<Entry> {
        match &self.res {
            FsRes::Entry(v) => Ok(mk_entry(v)),
            _ => Err(self.err().unwrap_or_else(|| io::Error::from_raw_os_error(libc::EBADMSG))),
        }
    }
    fn attr(&self) -> io::Result<(stat64, Duration)> {
        match &self.res {
            FsRes::Attr(v) => Ok((mk_stat(&v[0..15]), Duration::new(v[15], v[16] as u32))),
            _ => Err(self.err().unwrap_or_else(|| io::Error::from_raw_os_error(libc::EBADMSG))),
        }
    }
    fn num(&self) -> io::Result<u64> {
        match &self.res {
            FsRes::Num(n) => Ok(*n),
            FsRes::Count(n) => Ok(*n),
            _ => Err(self.err().unwrap_or_else(|| io::Error::from_raw_os_error(libc::EBADMSG))),
        }
    }
}
fn n<T: std::fmt::Display>(x: T) -> String { format!("n:{}", x) }
fn b(x: &[u8]) -> String { format!("b:{}", hex(x)) }
fn o(x: Option<u64>) -> String { match x { Some(v) => format!("o:{}", v), None => "o:-".into() } }
fn t(x: bool) -> String { if x { "t".into() } else { "f".into() } }

impl FileSystem for ScriptFs {
    type Inode = u64;
    type Handle = u64;

    fn init(&self, capable: FsOptions) -> io::Result<FsOptions> {
        self.rec("init", None, vec![n(capable.bits())]);
        if self.priming.load(std::sync::atomic::Ordering::SeqCst) { return Ok(FsOptions::empty()); }
        match &self.res {
            FsRes::Init(w) => Ok(FsOptions::from_bits_truncate(*w)),
            _ => Err(self.err().unwrap_or_else(|| io::Error::from_raw_os_error(libc::EBADMSG))),
        }
    }
    fn destroy(&self) { self.rec("destroy", None, vec![]); }
    fn lookup(&self, ctx: &Context, parent: u64, name: &CStr) -> io::Result<Entry> {
        self.rec("lookup", Some(ctx), vec![n(parent), b(name.to_bytes())]);
        self.entry()
    }
    fn forget(&self, ctx: &Context, inode: u64, count: u64) {
        self.rec("forget", Some(ctx), vec![n(inode), n(count)]);
    }
    fn batch_forget(&self, ctx: &Context, requests: Vec<(u64, u64)>) {
        let p: Vec<String> = requests.iter().map(|(a, b)| format!("{}-{}", a, b)).collect();
        self.rec("batch_forget", Some(ctx), vec![format!("p:{}", p.join(","))]);
    }
    fn getattr(&self, ctx: &Context, inode: u64, handle: Option<u64>) -> io::Result<(stat64, Duration)> {
        self.rec("getattr", Some(ctx), vec![n(inode), o(handle)]);
        self.attr()
    }
    fn setattr(&self, ctx: &Context, inode: u64, a: stat64, handle: Option<u64>, valid: SetattrValid) -> io::Result<(stat64, Duration)> {
        self.rec("setattr", Some(ctx), vec![n(inode), n(a.st_mode), n(a.st_uid), n(a.st_gid), n(a.st_size as u64),
            n(a.st_atime as u64), n(a.st_mtime as u64), n(a.st_ctime as u64), n(a.st_atime_nsec as u64),
            n(a.st_mtime_nsec as u64), n(a.st_ctime_nsec as u64), o(handle), n(valid.bits())]);
        self.attr()
    }
    fn readlink(&self, ctx: &Context, inode: u64) -> io::Result<Vec<u8>> {
        self.rec("readlink", Some(ctx), vec![n(inode)]);
        match &self.res { FsRes::Bytes(v) => Ok(v.clone()), _ => Err(self.err().unwrap()) }
    }
    fn symlink(&self, ctx: &Context, linkname: &CStr, parent: u64, name: &CStr) -> io::Result<Entry> {
        self.rec("symlink", Some(ctx), vec![b(linkname.to_bytes()), n(parent), b(name.to_bytes())]);
        self.entry()
    }
    fn mknod(&self, ctx: &Context, inode: u64, name: &CStr, mode: u32, rdev: u32, umask: u32) -> io::Result<Entry> {
        self.rec("mknod", Some(ctx), vec![n(inode), b(name.to_bytes()), n(mode), n(rdev), n(umask)]);
        self.entry()
    }
    fn mkdir(&self, ctx: &Context, parent: u64, name: &CStr, mode: u32, umask: u32) -> io::Result<Entry> {
        self.rec("mkdir", Some(ctx), vec![n(parent), b(name.to_bytes()), n(mode), n(umask)]);
        self.entry()
    }
    fn unlink(&self, ctx: &Context, parent: u64, name: &CStr) -> io::Result<()> {
        self.rec("unlink", Some(ctx), vec![n(parent), b(name.to_bytes())]);
        self.unit()
    }
    fn rmdir(&self, ctx: &Context, parent: u64, name: &CStr) -> io::Result<()> {
        self.rec("rmdir", Some(ctx), vec![n(parent), b(name.to_bytes())]);
        self.unit()
    }
    fn rename(&self, ctx: &Context, olddir: u64, oldname: &CStr, newdir: u64, newname: &CStr, flags: u32) -> io::Result<()> {
        self.rec("rename", Some(ctx), vec![n(olddir), b(oldname.to_bytes()), n(newdir), b(newname.to_bytes()), n(flags)]);
        self.unit()
    }
    fn link(&self, ctx: &Context, inode: u64, newparent: u64, newname: &CStr) -> io::Result<Entry> {
        self.rec("link", Some(ctx), vec![n(inode), n(newparent), b(newname.to_bytes())]);
        self.entry()
    }
    fn open(&self, ctx: &Context, inode: u64, flags: u32, fuse_flags: u32) -> io::Result<(Option<u64>, OpenOptions, Option<u32>)> {
        self.rec("open", Some(ctx), vec![n(inode), n(flags), n(fuse_flags)]);
        match &self.res {
            FsRes::Open(fh, opts, pt) => Ok((*fh, OpenOptions::from_bits_truncate(*opts), *pt)),
            _ => Err(self.err().unwrap()),
        }
    }
    fn create(&self, ctx: &Context, parent: u64, name: &CStr, args: CreateIn) -> io::Result<(Entry, Option<u64>, OpenOptions, Option<u32>)> {
        self.rec("create", Some(ctx), vec![n(parent), b(name.to_bytes()), n(args.flags), n(args.mode), n(args.umask), n(args.fuse_flags)]);
        match &self.res {
            FsRes::Create(e, fh, opts, pt) => Ok((mk_entry(e), *fh, OpenOptions::from_bits_truncate(*opts), *pt)),
            _ => Err(self.err().unwrap()),
        }
    }
    fn read(&self, ctx: &Context, inode: u64, handle: u64, w: &mut dyn ZeroCopyWriter, size: u32, offset: u64, lock_owner: Option<u64>, flags: u32) -> io::Result<usize> {
        self.rec("read", Some(ctx), vec![n(inode), n(handle), n(size), n(offset), o(lock_owner), n(flags)]);
        match &self.res {
            FsRes::Read(d) => {
                if !d.is_empty() { w.write_all(d)?; }
                Ok(d.len())
            }
            FsRes::ReadErr(en, d) => {
                if !d.is_empty() { w.write_all(d)?; }
                Err(io::Error::from_raw_os_error(*en))
            }
            _ => Err(self.err().unwrap()),
        }
    }
    fn write(&self, ctx: &Context, inode: u64, handle: u64, r: &mut dyn ZeroCopyReader, size: u32, offset: u64, lock_owner: Option<u64>, delayed_write: bool, flags: u32, fuse_flags: u32) -> io::Result<usize> {
        let mut buf = vec![0u8; (size as usize).min(4 << 20)];
        let mut got = 0;
        while got < buf.len() {
            let k = r.read(&mut buf[got..])?;
            if k == 0 { break; }
            got += k;
        }
        self.rec("write", Some(ctx), vec![n(inode), n(handle), b(&buf[..got]), n(size), n(offset), o(lock_owner), t(delayed_write), n(flags), n(fuse_flags)]);
        self.num().map(|x| x as usize)
    }
    fn flush(&self, ctx: &Context, inode: u64, handle: u64, lock_owner: u64) -> io::Result<()> {
        self.rec("flush", Some(ctx), vec![n(inode), n(handle), n(lock_owner)]);
        self.unit()
    }
    fn fsync(&self, ctx: &Context, inode: u64, datasync: bool, handle: u64) -> io::Result<()> {
        self.rec("fsync", Some(ctx), vec![n(inode), t(datasync), n(handle)]);
        self.unit()
    }
    fn fallocate(&self, ctx: &Context, inode: u64, handle: u64, mode: u32, offset: u64, length: u64) -> io::Result<()> {
        self.rec("fallocate", Some(ctx), vec![n(inode), n(handle), n(mode), n(offset), n(length)]);
        self.unit()
    }
    fn release(&self, ctx: &Context, inode: u64, flags: u32, handle: u64, flush: bool, flock_release: bool, lock_owner: Option<u64>) -> io::Result<()> {
        self.rec("release", Some(ctx), vec![n(inode), n(flags), n(handle), t(flush), t(flock_release), o(lock_owner)]);
        self.unit()
    }
    fn statfs(&self, ctx: &Context, inode: u64) -> io::Result<statvfs64> {
        self.rec("statfs", Some(ctx), vec![n(inode)]);
        match &self.res {
            FsRes::Statfs(v) => {
                let mut st: statvfs64 = unsafe { std::mem::zeroed() };
                st.f_blocks = v[0] as _; st.f_bfree = v[1] as _; st.f_bavail = v[2] as _; st.f_files = v[3] as _;
                st.f_ffree = v[4] as _; st.f_bsize = v[5] as _; st.f_namemax = v[6] as _; st.f_frsize = v[7] as _;
                Ok(st)
            }
            _ => Err(self.err().unwrap()),
        }
    }
    fn setxattr(&self, ctx: &Context, inode: u64, name: &CStr, value: &[u8], flags: u32) -> io::Result<()> {
        self.rec("setxattr", Some(ctx), vec![n(inode), b(name.to_bytes()), b(value), n(flags)]);
        self.unit()
    }
    fn getxattr(&self, ctx: &Context, inode: u64, name: &CStr, size: u32) -> io::Result<GetxattrReply> {
        self.rec("getxattr", Some(ctx), vec![n(inode), b(name.to_bytes()), n(size)]);
        match &self.res {
            FsRes::Bytes(v) => Ok(GetxattrReply::Value(v.clone())),
            FsRes::Count(c) => Ok(GetxattrReply::Count(*c as u32)),
            _ => Err(self.err().unwrap()),
        }
    }
    fn listxattr(&self, ctx: &Context, inode: u64, size: u32) -> io::Result<ListxattrReply> {
        self.rec("listxattr", Some(ctx), vec![n(inode), n(size)]);
        match &self.res {
            FsRes::Bytes(v) => Ok(ListxattrReply::Names(v.clone())),
            FsRes::Count(c) => Ok(ListxattrReply::Count(*c as u32)),
            _ => Err(self.err().unwrap()),
        }
    }
    fn removexattr(&self, ctx: &Context, inode: u64, name: &CStr) -> io::Result<()> {
        self.rec("removexattr", Some(ctx), vec![n(inode), b(name.to_bytes())]);
        self.unit()
    }
    fn opendir(&self, ctx: &Context, inode: u64, flags: u32) -> io::Result<(Option<u64>, OpenOptions)> {
        self.rec("opendir", Some(ctx), vec![n(inode), n(flags)]);
        match &self.res {
            FsRes::Open(fh, opts, _) => Ok((*fh, OpenOptions::from_bits_truncate(*opts))),
            _ => Err(self.err().unwrap()),
        }
    }
    fn readdir(&self, ctx: &Context, inode: u64, handle: u64, size: u32, offset: u64, add_entry: &mut dyn FnMut(DirEntry) -> io::Result<usize>) -> io::Result<()> {
        self.rec("readdir", Some(ctx), vec![n(inode), n(handle), n(size), n(offset)]);
        match &self.res {
            FsRes::Dirents(ds) => {
                for (ino, off, ty, name, _e) in ds {
                    match add_entry(DirEntry { ino: *ino, offset: *off, type_: *ty, name })? {
                        0 => break,
                        _ => {}
                    }
                }
                Ok(())
            }
            _ => Err(self.err().unwrap()),
        }
    }
    fn readdirplus(&self, ctx: &Context, inode: u64, handle: u64, size: u32, offset: u64, add_entry: &mut dyn FnMut(DirEntry, Entry) -> io::Result<usize>) -> io::Result<()> {
        self.rec("readdirplus", Some(ctx), vec![n(inode), n(handle), n(size), n(offset)]);
        match &self.res {
            FsRes::Dirents(ds) => {
                for (ino, off, ty, name, e) in ds {
                    match add_entry(DirEntry { ino: *ino, offset: *off, type_: *ty, name }, mk_entry(e))? {
                        0 => break,
                        _ => {}
                    }
                }
                Ok(())
            }
            _ => Err(self.err().unwrap()),
        }
    }
    fn fsyncdir(&self, ctx: &Context, inode: u64, datasync: bool, handle: u64) -> io::Result<()> {
        self.rec("fsyncdir", Some(ctx), vec![n(inode), t(datasync), n(handle)]);
        self.unit()
    }
    fn releasedir(&self, ctx: &Context, inode: u64, flags: u32, handle: u64) -> io::Result<()> {
        self.rec("releasedir", Some(ctx), vec![n(inode), n(flags), n(handle)]);
        self.unit()
    }
    fn setupmapping(&self, ctx: &Context, inode: u64, handle: u64, foffset: u64, len: u64, flags: u64, moffset: u64, _vu_req: &mut dyn FsCacheReqHandler) -> io::Result<()> {
        self.rec("setupmapping", Some(ctx), vec![n(inode), n(handle), n(foffset), n(len), n(flags), n(moffset)]);
        self.unit()
    }
    fn removemapping(&self, ctx: &Context, inode: u64, requests: Vec<RemovemappingOne>, _vu_req: &mut dyn FsCacheReqHandler) -> io::Result<()> {
        let p: Vec<String> = requests.iter().map(|r| format!("{}-{}", r.moffset, r.len)).collect();
        self.rec("removemapping", Some(ctx), vec![n(inode), format!("p:{}", p.join(","))]);
        self.unit()
    }
    fn access(&self, ctx: &Context, inode: u64, mask: u32) -> io::Result<()> {
        self.rec("access", Some(ctx), vec![n(inode), n(mask)]);
        self.unit()
    }
    fn lseek(&self, ctx: &Context, inode: u64, handle: u64, offset: u64, whence: u32) -> io::Result<u64> {
        self.rec("lseek", Some(ctx), vec![n(inode), n(handle), n(offset), n(whence)]);
        self.num()
    }
    fn getlk(&self, ctx: &Context, inode: u64, handle: u64, owner: u64, lock: FileLock, flags: u32) -> io::Result<FileLock> {
        self.rec("getlk", Some(ctx), vec![n(inode), n(handle), n(owner), n(lock.start), n(lock.end), n(lock.lock_type), n(lock.pid), n(flags)]);
        match &self.res {
            FsRes::Lock(v) => Ok(FileLock { start: v[0], end: v[1], lock_type: v[2] as u32, pid: v[3] as u32 }),
            _ => Err(self.err().unwrap()),
        }
    }
    fn setlk(&self, ctx: &Context, inode: u64, handle: u64, owner: u64, lock: FileLock, flags: u32) -> io::Result<()> {
        self.rec("setlk", Some(ctx), vec![n(inode), n(handle), n(owner), n(lock.start), n(lock.end), n(lock.lock_type), n(lock.pid), n(flags)]);
        self.unit()
    }
    fn setlkw(&self, ctx: &Context, inode: u64, handle: u64, owner: u64, lock: FileLock, flags: u32) -> io::Result<()> {
        self.rec("setlkw", Some(ctx), vec![n(inode), n(handle), n(owner), n(lock.start), n(lock.end), n(lock.lock_type), n(lock.pid), n(flags)]);
        self.unit()
    }
    fn ioctl(&self, ctx: &Context, inode: u64, handle: u64, flags: u32, cmd: u32, data: IoctlData, out_size: u32) -> io::Result<IoctlData<'_>> {
        self.rec("ioctl", Some(ctx), vec![n(inode), n(handle), n(flags), n(cmd), b(data.data.unwrap_or(&[])), n(out_size)]);
        match &self.res {
            FsRes::Ioctl(r, d) => Ok(IoctlData { result: *r as i32, data: if d.is_empty() { None } else { Some(d.as_slice()) } }),
            _ => Err(self.err().unwrap()),
        }
    }
    fn bmap(&self, ctx: &Context, inode: u64, block: u64, blocksize: u32) -> io::Result<u64> {
        self.rec("bmap", Some(ctx), vec![n(inode), n(block), n(blocksize)]);
        self.num()
    }
    fn poll(&self, ctx: &Context, inode: u64, handle: u64, khandle: u64, flags: u32, events: u32) -> io::Result<u32> {
        self.rec("poll", Some(ctx), vec![n(inode), n(handle), n(khandle), n(flags), n(events)]);
        self.num().map(|x| x as u32)
    }
    fn notify_reply(&self) -> io::Result<()> {
        self.rec("notify_reply", None, vec![]);
        self.unit()
    }
    fn id_remap_with_nodeid(&self, ctx: &mut Context, nodeid: u64) -> io::Result<()> {
        self.rec("id_remap", Some(ctx), vec![n(nodeid)]);
        if self.priming.load(std::sync::atomic::Ordering::SeqCst) { return Ok(()); }
        match self.remap {
            None => Err(io::Error::from_raw_os_error(libc::EPERM)),
            Some((du, dg)) => {
                ctx.uid = ctx.uid.wrapping_add(du);
                ctx.gid = ctx.gid.wrapping_add(dg);
                Ok(())
            }
        }
    }
}


// The same scripted filesystem behind the async trait: same log format, same answers.
// (async_open / async_create cannot return a passthrough backing id: the trait has no slot for it.)
#[async_trait]
impl AsyncFileSystem for ScriptFs {
    async fn async_lookup(&self, ctx: &Context, parent: u64, name: &CStr) -> io::Result<Entry> {
        if self.yield_once { YieldOnce(false).await; }
        self.rec("lookup", Some(ctx), vec![n(parent), b(name.to_bytes())]);
        self.entry()
    }
    async fn async_getattr(&self, ctx: &Context, inode: u64, handle: Option<u64>) -> io::Result<(stat64, Duration)> {
        if self.yield_once { YieldOnce(false).await; }
        self.rec("getattr", Some(ctx), vec![n(inode), o(handle)]);
        self.attr()
    }
    async fn async_setattr(&self, ctx: &Context, inode: u64, a: stat64, handle: Option<u64>, valid: SetattrValid) -> io::Result<(stat64, Duration)> {
        if self.yield_once { YieldOnce(false).await; }
        self.rec("setattr", Some(ctx), vec![n(inode), n(a.st_mode), n(a.st_uid), n(a.st_gid), n(a.st_size as u64),
            n(a.st_atime as u64), n(a.st_mtime as u64), n(a.st_ctime as u64), n(a.st_atime_nsec as u64),
            n(a.st_mtime_nsec as u64), n(a.st_ctime_nsec as u64), o(handle), n(valid.bits())]);
        self.attr()
    }
    async fn async_open(&self, ctx: &Context, inode: u64, flags: u32, fuse_flags: u32) -> io::Result<(Option<u64>, OpenOptions)> {
        if self.yield_once { YieldOnce(false).await; }
        self.rec("open", Some(ctx), vec![n(inode), n(flags), n(fuse_flags)]);
        match &self.res {
            FsRes::Open(fh, opts, _pt) => Ok((*fh, OpenOptions::from_bits_truncate(*opts))),
            _ => Err(self.err().unwrap()),
        }
    }
    async fn async_create(&self, ctx: &Context, parent: u64, name: &CStr, args: CreateIn) -> io::Result<(Entry, Option<u64>, OpenOptions)> {
        if self.yield_once { YieldOnce(false).await; }
        self.rec("create", Some(ctx), vec![n(parent), b(name.to_bytes()), n(args.flags), n(args.mode), n(args.umask), n(args.fuse_flags)]);
        match &self.res {
            FsRes::Create(e, fh, opts, _pt) => Ok((mk_entry(e), *fh, OpenOptions::from_bits_truncate(*opts))),
            _ => Err(self.err().unwrap()),
        }
    }
    async fn async_read(&self, ctx: &Context, inode: u64, handle: u64, w: &mut (dyn AsyncZeroCopyWriter + Send), size: u32, offset: u64, lock_owner: Option<u64>, flags: u32) -> io::Result<usize> {
        if self.yield_once { YieldOnce(false).await; }
        self.rec("read", Some(ctx), vec![n(inode), n(handle), n(size), n(offset), o(lock_owner), n(flags)]);
        match &self.res {
            FsRes::Read(d) => {
                if !d.is_empty() { w.write_all(d)?; }
                Ok(d.len())
            }
            FsRes::ReadErr(en, d) => {
                if !d.is_empty() { w.write_all(d)?; }
                Err(io::Error::from_raw_os_error(*en))
            }
            _ => Err(self.err().unwrap()),
        }
    }
    async fn async_write(&self, ctx: &Context, inode: u64, handle: u64, r: &mut (dyn AsyncZeroCopyReader + Send), size: u32, offset: u64, lock_owner: Option<u64>, delayed_write: bool, flags: u32, fuse_flags: u32) -> io::Result<usize> {
        if self.yield_once { YieldOnce(false).await; }
        let mut buf = vec![0u8; (size as usize).min(4 << 20)];
        let mut got = 0;
        while got < buf.len() {
            let k = r.read(&mut buf[got..])?;
            if k == 0 { break; }
            got += k;
        }
        self.rec("write", Some(ctx), vec![n(inode), n(handle), b(&buf[..got]), n(size), n(offset), o(lock_owner), t(delayed_write), n(flags), n(fuse_flags)]);
        self.num().map(|x| x as usize)
    }
    async fn async_fsync(&self, ctx: &Context, inode: u64, datasync: bool, handle: u64) -> io::Result<()> {
        if self.yield_once { YieldOnce(false).await; }
        self.rec("fsync", Some(ctx), vec![n(inode), t(datasync), n(handle)]);
        self.unit()
    }
    async fn async_fallocate(&self, ctx: &Context, inode: u64, handle: u64, mode: u32, offset: u64, length: u64) -> io::Result<()> {
        if self.yield_once { YieldOnce(false).await; }
        self.rec("fallocate", Some(ctx), vec![n(inode), n(handle), n(mode), n(offset), n(length)]);
        self.unit()
    }
    async fn async_fsyncdir(&self, ctx: &Context, inode: u64, datasync: bool, handle: u64) -> io::Result<()> {
        if self.yield_once { YieldOnce(false).await; }
        self.rec("fsyncdir", Some(ctx), vec![n(inode), t(datasync), n(handle)]);
        self.unit()
    }
}

struct NoCache;
impl FsCacheReqHandler for NoCache {
    fn map(&mut self, _foffset: u64, _moffset: u64, _len: u64, _flags: u64, _fd: std::os::unix::io::RawFd) -> io::Result<()> { Ok(()) }
    fn unmap(&mut self, _requests: Vec<RemovemappingOne>) -> io::Result<()> { Ok(()) }
}

fn res_str(r: &fuse_backend_rs::Result<usize>) -> String {
    use fuse_backend_rs::Error::*;
    match r {
        Ok(n) => format!("ok:{}", n),
        Err(e) => format!("err:{}", match e {
            DecodeMessage(_) => "DecodeMessage",
            EncodeMessage(_) => "EncodeMessage",
            InvalidHeaderLength => "InvalidHeaderLength",
            InvalidCString(_) => "InvalidCString",
            InvalidXattrSize(_) => "InvalidXattrSize",
            MissingParameter => "MissingParameter",
            InvalidMessage(_) => "InvalidMessage",
            FailedToRemapID(_) => "FailedToRemapID",
            FailedToWrite(_) => "FailedToWrite",
            FailedToSplitWriter(_) => "FailedToSplitWriter",
            #[allow(unreachable_patterns)]
            _ => "Other",
        }),
    }
}

const CANARY: u8 = 0xa5;

fn init_req(minor: u32) -> Vec<u8> {
    let mut v = vec![];
    v.extend_from_slice(&56u32.to_le_bytes());
    v.extend_from_slice(&26u32.to_le_bytes());
    v.extend_from_slice(&0u64.to_le_bytes());
    v.extend_from_slice(&0u64.to_le_bytes());
    v.extend_from_slice(&[0u8; 16]);
    v.extend_from_slice(&7u32.to_le_bytes());
    v.extend_from_slice(&minor.to_le_bytes());
    v.extend_from_slice(&[0u8; 8]);
    v
}

fn sockpair() -> (i32, i32) {
    let mut fds = [0i32; 2];
    let rc = unsafe { libc::socketpair(libc::AF_UNIX, libc::SOCK_SEQPACKET | libc::SOCK_NONBLOCK, 0, fds.as_mut_ptr()) };
    assert_eq!(rc, 0);
    let sz: i32 = 8 << 20;
    for fd in fds {
        unsafe {
            libc::setsockopt(fd, libc::SOL_SOCKET, libc::SO_SNDBUFFORCE, &sz as *const _ as *const _, 4);
            libc::setsockopt(fd, libc::SOL_SOCKET, libc::SO_RCVBUFFORCE, &sz as *const _ as *const _, 4);
        }
    }
    (fds[0], fds[1])
}

fn drain(fd: i32) -> Vec<Vec<u8>> {
    let mut out = vec![];
    let mut buf = vec![0u8; 4 << 20];
    loop {
        let k = unsafe { libc::recv(fd, buf.as_mut_ptr() as *mut _, buf.len(), 0) };
        if k < 0 { break; }
        out.push(buf[..k as usize].to_vec());
        if out.len() > 64 { break; }
    }
    out
}

struct Case {
    id: String,
    transport: String,
    cap: usize,
    req: Vec<u8>,
    fs: FsRes,
    remap: Option<(u32, u32)>,
    prior_minor: Option<u32>,
    vu: bool,
    rsegs: Vec<usize>,
    wsegs: Vec<usize>,
    fill: u8,
    yield_once: bool,
    hook: bool,
    fdfail: bool,
}

fn parse_case(line: &str) -> Case {
    let mut c = Case { id: String::new(), transport: "fusedev".into(), cap: 0, req: vec![], fs: FsRes::Unit, remap: Some((0, 0)), prior_minor: None, vu: false, rsegs: vec![], wsegs: vec![], fill: CANARY, yield_once: false, hook: false, fdfail: false };
    for tok in line.split_whitespace() {
        let (k, v) = tok.split_once('=').unwrap();
        match k {
            "id" => c.id = v.to_string(),
            "tr" => c.transport = v.to_string(),
            "cap" => c.cap = v.parse().unwrap(),
            "req" => c.req = unhex(v),
            "fs" => c.fs = parse_fs(v),
            "remap" => c.remap = if v == "fail" { None } else { let (a, b) = v.split_once(',').unwrap(); Some((a.parse().unwrap(), b.parse().unwrap())) },
            "minor" => c.prior_minor = if v == "-" { None } else { Some(v.parse().unwrap()) },
            "vu" => c.vu = v == "1",
            "rsegs" => c.rsegs = nums(v).iter().map(|x| *x as usize).collect(),
            "wsegs" => c.wsegs = nums(v).iter().map(|x| *x as usize).collect(),
            "fill" => c.fill = v.parse::<u32>().unwrap() as u8,
            "yield" => c.yield_once = v == "1",
            "hook" => c.hook = v == "1",
            "fdfail" => c.fdfail = v == "1",
            _ => panic!("bad key {}", k),
        }
    }
    c
}

fn run_fusedev(c: &Case, asyncmode: bool) -> String {
    let fs = new_fs(c);
    let server = Server::new(fs.clone());
    prior_init(&server, &fs, c.prior_minor);
    let (a, bfd) = sockpair();
    let pad = 64usize;
    let mut wbuf = vec![CANARY; c.cap + 2 * pad];
    for x in wbuf[pad..pad + c.cap].iter_mut() { *x = c.fill; }
    let mut rbuf = c.req.clone();
    HARNESS_FD.store(a, Ordering::SeqCst);
    PWRITES.store(0, Ordering::SeqCst);
    if c.fdfail { unsafe { libc::shutdown(a, libc::SHUT_WR); } }   // every write on the fake /dev/fuse now fails (EPIPE)
    let lh = LogHook(Mutex::new(vec![]));
    let hook: Option<&dyn fuse_backend_rs::api::server::MetricsHook> = if c.hook { Some(&lh) } else { None };
    let res;
    let panicked;
    {
        let wslice = &mut wbuf[pad..pad + c.cap];
        let r = std::panic::catch_unwind(std::panic::AssertUnwindSafe(|| {
            let reader: Reader<'_, ()> = Reader::from_fuse_buffer(FuseBuf::new(&mut rbuf)).unwrap();
            let writer: FuseDevWriter<'_, ()> = FuseDevWriter::new(a, wslice).unwrap();
            let mut nc = NoCache;
            let vu: Option<&mut dyn FsCacheReqHandler> = if c.vu { Some(&mut nc) } else { None };
            if asyncmode {
                block_on(async { unsafe { server.async_handle_message(reader, Writer::FuseDev(writer), vu, hook).await } })
            } else {
                server.handle_message(reader, Writer::FuseDev(writer), vu, hook)
            }
        }));
        HARNESS_FD.store(-1, Ordering::SeqCst);
        match r {
            Ok(v) => { res = res_str(&v); panicked = false; }
            Err(_) => { res = "panic".to_string(); panicked = true; }
        }
    }
    // after shutdown(SHUT_WR) nothing can have been written and recv() reports end-of-stream forever
    let packets = if c.fdfail { vec![] } else { drain(bfd) };
    unsafe { libc::close(a); libc::close(bfd); }
    let canary_ok = wbuf[..pad].iter().all(|x| *x == CANARY) && wbuf[pad + c.cap..].iter().all(|x| *x == CANARY);
    let log = fs.log.lock().unwrap().join(";");
    let hl = lh.0.lock().unwrap().join(";");
    format!("id={} mode={} res={} panic={} canary={} pwrites={} hooklog={} calls={} packets={} mem=",
        c.id, if asyncmode { "async" } else { "sync" }, res, panicked as u8, canary_ok as u8, PWRITES.load(Ordering::SeqCst), if hl.is_empty() { "-".to_string() } else { hl }, if log.is_empty() { "-".to_string() } else { log },
        if packets.is_empty() { "-".to_string() } else { packets.iter().map(|p| if p.is_empty() { "e".to_string() } else { hex(p) }).collect::<Vec<_>>().join(",") })
}

// Server.vers is private and only set by a successful INIT: send one (answered by the fs in
// "priming" mode, not logged) to put the server at the protocol minor the case asks for.
fn prior_init(server: &Server<Arc<ScriptFs>>, fs: &Arc<ScriptFs>, minor: Option<u32>) {
    if let Some(m) = minor {
        fs.priming.store(true, std::sync::atomic::Ordering::SeqCst);
        let (a, bfd) = sockpair();
        let mut rbuf = init_req(m);
        let mut wbuf = vec![0u8; 256];
        {
            let reader: Reader<'_, ()> = Reader::from_fuse_buffer(FuseBuf::new(&mut rbuf)).unwrap();
            let writer: FuseDevWriter<'_, ()> = FuseDevWriter::new(a, &mut wbuf).unwrap();
            let _ = server.handle_message(reader, Writer::FuseDev(writer), None, None);
        }
        unsafe { libc::close(a); libc::close(bfd); }
        fs.priming.store(false, std::sync::atomic::Ordering::SeqCst);
    }
}

fn run_virtio(c: &Case, asyncmode: bool) -> String {
    let fs = new_fs(c);
    let server = Server::new(fs.clone());
    prior_init(&server, &fs, c.prior_minor);
    let memsz = 0x100000 + c.req.len() + c.cap + 64 * (c.rsegs.len() + c.wsegs.len() + 2) + 0x1000;
    let mem: GuestMemoryMmap<()> = GuestMemoryMmap::from_ranges(&[(GuestAddress(0), memsz)]).unwrap();
    let vq = MockSplitQueue::new(&mem, 256);
    let mut descs: Vec<RawDescriptor> = vec![];
    let mut addr: u64 = 0x100000;
    // fill everything with canaries first
    let fill = vec![c.fill; memsz - 0x100000];
    mem.write_slice(&fill, GuestAddress(0x100000)).unwrap();
    let rsegs: Vec<usize> = if c.rsegs.is_empty() { vec![c.req.len()] } else { c.rsegs.clone() };
    let wsegs: Vec<usize> = if c.wsegs.is_empty() { vec![c.cap] } else { c.wsegs.clone() };
    assert_eq!(rsegs.iter().sum::<usize>(), c.req.len());
    assert_eq!(wsegs.iter().sum::<usize>(), c.cap);
    let mut off = 0;
    for l in &rsegs {
        addr += 37; // gaps (canaries) between segments, unaligned
        mem.write_slice(&c.req[off..off + l], GuestAddress(addr)).unwrap();
        descs.push(RawDescriptor::from(SplitDescriptor::new(addr, *l as u32, 0, 0)));
        off += l;
        addr += *l as u64;
    }
    let mut wlocs = vec![];
    for l in &wsegs {
        addr += 41;
        descs.push(RawDescriptor::from(SplitDescriptor::new(addr, *l as u32, 2 /* VRING_DESC_F_WRITE */, 0)));
        wlocs.push((addr, *l));
        addr += *l as u64;
    }
    let before: Vec<u8> = { let mut v = vec![0u8; memsz - 0x100000]; mem.read_slice(&mut v, GuestAddress(0x100000)).unwrap(); v };
    let chain = vq.build_desc_chain(&descs).unwrap();
    let lh = LogHook(Mutex::new(vec![]));
    let hook: Option<&dyn fuse_backend_rs::api::server::MetricsHook> = if c.hook { Some(&lh) } else { None };
    let r = std::panic::catch_unwind(std::panic::AssertUnwindSafe(|| {
        let reader = Reader::from_descriptor_chain(&mem, chain.clone()).unwrap();
        let writer = VirtioFsWriter::new(&mem, chain).unwrap();
        let mut nc = NoCache;
        let vu: Option<&mut dyn FsCacheReqHandler> = if c.vu { Some(&mut nc) } else { None };
        if asyncmode {
            block_on(async { unsafe { server.async_handle_message(reader, Writer::VirtioFs(writer), vu, hook).await } })
        } else {
            server.handle_message(reader, Writer::VirtioFs(writer), vu, hook)
        }
    }));
    let (res, panicked) = match r { Ok(v) => (res_str(&v), false), Err(_) => ("panic".to_string(), true) };
    let after: Vec<u8> = { let mut v = vec![0u8; memsz - 0x100000]; mem.read_slice(&mut v, GuestAddress(0x100000)).unwrap(); v };
    // memory outside the writable segments must be unchanged
    let mut canary_ok = true;
    let mut mask = vec![false; after.len()];
    for (a, l) in &wlocs { for i in 0..*l { mask[(*a as usize - 0x100000) + i] = true; } }
    for i in 0..after.len() { if !mask[i] && after[i] != before[i] { canary_ok = false; break; } }
    let mut wm = vec![];
    for (a, l) in &wlocs { wm.extend_from_slice(&after[(*a as usize - 0x100000)..(*a as usize - 0x100000 + *l)]); }
    let used = match res.strip_prefix("ok:") { Some(n) => n.parse::<usize>().unwrap().min(wm.len()), None => 0 };
    let log = fs.log.lock().unwrap().join(";");
    let hl = lh.0.lock().unwrap().join(";");
    format!("id={} mode={} res={} panic={} canary={} pwrites=0 hooklog={} calls={} packets=- mem={}", c.id, if asyncmode { "async" } else { "sync" }, res, panicked as u8, canary_ok as u8,
        if hl.is_empty() { "-".to_string() } else { hl },
        if log.is_empty() { "-".to_string() } else { log }, hex(&wm[..used]))
}

pub fn main() {
    std::panic::set_hook(Box::new(|_| {}));
    let stdin = io::stdin();
    let stdout = io::stdout();
    let mut out = stdout.lock();
    for line in stdin.lock().lines() {
        let line = line.unwrap();
        if line.trim().is_empty() { continue; }
        let c = parse_case(&line);
        for asyncmode in [false, true] {
            let r = if c.transport == "virtio" { run_virtio(&c, asyncmode) } else { run_fusedev(&c, asyncmode) };
            writeln!(out, "{}", r).unwrap();
        }
    }
}
} // mod imp
