// Raw FUSE message driver used by the C18 check (props/c18.py): the same program as `readdir`
// (build the real PassthroughFs/Vfs + Server from a `new ...` line - here with seal_size=1 - and
// pipe raw request bytes through Server::handle_message).  All encoding/decoding and all file-size
// observations are done by the python side.
include!("readdir.rs");
