// C04 / C17 harness: drives the real Reader / VirtioFsWriter / FuseDevWriter / FileVolatileSlice
// on cases written by props/c04.py / props/c17.py and prints one JSON line per case.
//
//   transport virtio  <casefile>     descriptor chains over GuestMemoryMmap<AtomicBitmap>
//   transport fusedev <casefile>     FuseDevWriter over a SOCK_SEQPACKET socketpair + fuse-buffer Reader
//   transport bytes   <casefile>     every Bytes<usize> method of FileVolatileSlice vs VolatileSlice
//
// Memory everywhere is pre-filled with pat(seed, model_address); results report only the bytes that
// differ from the pattern afterwards (address, hex run), so writes outside the buffers show up.
#![allow(clippy::all)]
use fuse_backend_rs::abi::fuse_abi::stat64;
use fuse_backend_rs::api::filesystem::{Context, DirEntry, FileSystem, GetxattrReply, ListxattrReply, ZeroCopyWriter};
use fuse_backend_rs::api::server::Server;
use fuse_backend_rs::file_buf::FileVolatileSlice;
use fuse_backend_rs::file_traits::FileReadWriteVolatile;
use fuse_backend_rs::transport::{Error as TError, FuseBuf, FuseDevWriter, Reader, VirtioFsWriter, Writer};
use std::fs::File;
use std::io::{self, IoSlice, Read, Seek, SeekFrom, Write};
use std::os::unix::io::{AsRawFd, FromRawFd, RawFd};
use std::panic::{catch_unwind, AssertUnwindSafe};
use std::sync::atomic::Ordering;
use virtio_queue::desc::{split::Descriptor as SplitDescriptor, RawDescriptor};
use virtio_queue::mock::MockSplitQueue;
use vm_memory::bitmap::{AtomicBitmap, Bitmap, BitmapSlice};
use vm_memory::{Bytes, GuestAddress, GuestMemory, GuestMemoryMmap, GuestMemoryRegion, VolatileSlice};

type GM = GuestMemoryMmap<AtomicBitmap>;

fn pat(seed: u64, a: u64) -> u8 {
    ((a.wrapping_mul(37).wrapping_add((a >> 8).wrapping_mul(11)).wrapping_add(seed)) & 0xff) as u8
}
fn hex(b: &[u8]) -> String {
    let mut s = String::with_capacity(b.len() * 2);
    for x in b {
        s.push_str(&format!("{:02x}", x));
    }
    s
}
fn unhex(s: &str) -> Vec<u8> {
    let s = if s == "-" { "" } else { s };
    (0..s.len() / 2).map(|i| u8::from_str_radix(&s[2 * i..2 * i + 2], 16).unwrap()).collect()
}
fn kv<'a>(line: &'a str, key: &str) -> &'a str {
    for tok in line.split_whitespace() {
        if let Some(rest) = tok.strip_prefix(key) {
            if let Some(v) = rest.strip_prefix('=') {
                return v;
            }
        }
    }
    ""
}
fn num(s: &str) -> u64 {
    s.parse::<u64>().unwrap_or_else(|_| panic!("bad number {:?}", s))
}

fn memfd(content: &[u8]) -> File {
    let fd = unsafe { libc::memfd_create(b"verif\0".as_ptr() as *const libc::c_char, 0) };
    assert!(fd >= 0);
    let mut f = unsafe { File::from_raw_fd(fd) };
    f.write_all(content).unwrap();
    f.seek(SeekFrom::Start(0)).unwrap();
    f
}
fn file_content(f: &mut File, from: u64) -> Vec<u8> {
    let mut v = Vec::new();
    f.seek(SeekFrom::Start(from)).unwrap();
    f.read_to_end(&mut v).unwrap();
    v
}
fn rdonly_file() -> File {
    File::open("/dev/null").unwrap() // opened read-only: writes fail with EBADF
}
fn wronly_file() -> File {
    std::fs::OpenOptions::new().write(true).open("/dev/null").unwrap() // reads fail with EBADF
}

// ---- a sink / source with a byte limit, and one that fails -------------------------------------
struct LimSink {
    lim: usize,
    got: Vec<u8>,
    fail: bool,
    intr: bool, // the next call fails with ErrorKind::Interrupted (EINTR), later ones work
}
struct LimSrc {
    data: Vec<u8>,
    pos: usize,
    fail: bool,
    intr: bool,
}
fn ferr() -> io::Error {
    io::Error::new(io::ErrorKind::Other, "verif-file-error")
}
impl FileReadWriteVolatile for LimSink {
    fn read_volatile(&mut self, _s: FileVolatileSlice) -> io::Result<usize> {
        Err(ferr())
    }
    fn write_volatile(&mut self, s: FileVolatileSlice) -> io::Result<usize> {
        self.write_vectored_volatile(&[s])
    }
    fn write_vectored_volatile(&mut self, bufs: &[FileVolatileSlice]) -> io::Result<usize> {
        if self.fail {
            return Err(ferr());
        }
        if self.intr {
            self.intr = false;
            return Err(io::Error::new(io::ErrorKind::Interrupted, "verif-eintr"));
        }
        let mut n = 0;
        for b in bufs {
            let take = std::cmp::min(self.lim - n, b.len());
            let sl = unsafe { std::slice::from_raw_parts(b.as_ptr() as *const u8, take) };
            self.got.extend_from_slice(sl);
            n += take;
        }
        Ok(n)
    }
    fn read_at_volatile(&mut self, _s: FileVolatileSlice, _o: u64) -> io::Result<usize> {
        Err(ferr())
    }
    fn write_at_volatile(&mut self, s: FileVolatileSlice, _o: u64) -> io::Result<usize> {
        self.write_vectored_volatile(&[s])
    }
    fn write_vectored_at_volatile(&mut self, bufs: &[FileVolatileSlice], _o: u64) -> io::Result<usize> {
        self.write_vectored_volatile(bufs)
    }
}
impl FileReadWriteVolatile for LimSrc {
    fn read_volatile(&mut self, s: FileVolatileSlice) -> io::Result<usize> {
        self.read_vectored_volatile(&[s])
    }
    fn read_vectored_volatile(&mut self, bufs: &[FileVolatileSlice]) -> io::Result<usize> {
        if self.fail {
            return Err(ferr());
        }
        if self.intr {
            self.intr = false;
            return Err(io::Error::new(io::ErrorKind::Interrupted, "verif-eintr"));
        }
        let mut n = 0;
        for b in bufs {
            let take = std::cmp::min(self.data.len() - self.pos, b.len());
            unsafe { std::ptr::copy_nonoverlapping(self.data.as_ptr().add(self.pos), b.as_ptr(), take) };
            self.pos += take;
            n += take;
        }
        Ok(n)
    }
    fn write_volatile(&mut self, _s: FileVolatileSlice) -> io::Result<usize> {
        Err(ferr())
    }
    fn read_at_volatile(&mut self, s: FileVolatileSlice, _o: u64) -> io::Result<usize> {
        self.read_vectored_volatile(&[s])
    }
    fn read_vectored_at_volatile(&mut self, bufs: &[FileVolatileSlice], _o: u64) -> io::Result<usize> {
        self.read_vectored_volatile(bufs)
    }
    fn write_at_volatile(&mut self, _s: FileVolatileSlice, _o: u64) -> io::Result<usize> {
        Err(ferr())
    }
}

// ---- a scripted source: the n-th call of ANY read method gets the n-th answer of the script:
//      <k> = deliver up to k bytes of the stream, e = fail, i = ErrorKind::Interrupted; calls beyond the script see end of file.
//      case syntax: source kind "s<k>.<k>.e.i..." (e.g. s4096.100.e)
struct ScriptSrc {
    script: Vec<String>,
    next: usize,
    data: Vec<u8>,
    pos: usize,
}
impl ScriptSrc {
    fn new(kind: &str, data: Vec<u8>) -> Self {
        ScriptSrc { script: kind[1..].split('.').filter(|x| !x.is_empty()).map(|x| x.to_string()).collect(), next: 0, data, pos: 0 }
    }
    fn call(&mut self, bufs: &[FileVolatileSlice]) -> io::Result<usize> {
        let step = self.script.get(self.next).cloned().unwrap_or_else(|| "0".to_string());
        self.next += 1;
        match step.as_str() {
            "e" => Err(ferr()),
            "i" => Err(io::Error::new(io::ErrorKind::Interrupted, "verif-eintr")),
            k => {
                let mut left = std::cmp::min(num(k) as usize, self.data.len() - self.pos);
                let mut n = 0;
                for b in bufs {
                    let take = std::cmp::min(left, b.len());
                    unsafe { std::ptr::copy_nonoverlapping(self.data.as_ptr().add(self.pos), b.as_ptr(), take) };
                    self.pos += take;
                    left -= take;
                    n += take;
                }
                Ok(n)
            }
        }
    }
}
impl FileReadWriteVolatile for ScriptSrc {
    fn read_volatile(&mut self, s: FileVolatileSlice) -> io::Result<usize> {
        self.call(&[s])
    }
    fn read_vectored_volatile(&mut self, bufs: &[FileVolatileSlice]) -> io::Result<usize> {
        self.call(bufs)
    }
    fn write_volatile(&mut self, _s: FileVolatileSlice) -> io::Result<usize> {
        Err(ferr())
    }
    fn read_at_volatile(&mut self, s: FileVolatileSlice, _o: u64) -> io::Result<usize> {
        self.call(&[s])
    }
    fn read_vectored_at_volatile(&mut self, bufs: &[FileVolatileSlice], _o: u64) -> io::Result<usize> {
        self.call(bufs)
    }
    fn write_at_volatile(&mut self, _s: FileVolatileSlice, _o: u64) -> io::Result<usize> {
        Err(ferr())
    }
}

// ---- async variants (feature async-io): executor, async sources/sinks, pwrite interposition ----------------
#[cfg(feature = "async-io")]
mod aio {
    use super::{ferr, File};
    use async_trait::async_trait;
    use fuse_backend_rs::async_file::{preadv, pwritev};
    use fuse_backend_rs::file_buf::FileVolatileBuf;
    use fuse_backend_rs::file_traits::AsyncFileReadWriteVolatile;
    use std::cell::RefCell;
    use std::io;
    use std::os::unix::io::AsRawFd;
    use std::sync::atomic::{AtomicI32, Ordering};

    // FuseDevWriter's async unbuffered path uses pwrite(fd, data, 0), which a socket refuses: the definitions
    // in the executable take precedence over libc's and forward to write(2) on the harness socket only.
    pub static HARNESS_FD: AtomicI32 = AtomicI32::new(-1);
    #[no_mangle]
    pub unsafe extern "C" fn pwrite(fd: libc::c_int, buf: *const libc::c_void, count: libc::size_t, offset: libc::off_t) -> libc::ssize_t {
        if fd >= 0 && fd == HARNESS_FD.load(Ordering::SeqCst) {
            return libc::syscall(libc::SYS_write, fd, buf, count) as libc::ssize_t;
        }
        libc::syscall(libc::SYS_pwrite64, fd, buf, count, offset) as libc::ssize_t
    }
    #[no_mangle]
    pub unsafe extern "C" fn pwrite64(fd: libc::c_int, buf: *const libc::c_void, count: libc::size_t, offset: libc::off64_t) -> libc::ssize_t {
        pwrite(fd, buf, count, offset as libc::off_t)
    }

    // the sources/sinks below are always ready
    pub fn block_on<F: std::future::Future>(f: F) -> F::Output {
        use std::task::{Context as TCx, Poll, RawWaker, RawWakerVTable, Waker};
        fn noop(_: *const ()) {}
        fn clone(_: *const ()) -> RawWaker {
            RawWaker::new(std::ptr::null(), &VT)
        }
        static VT: RawWakerVTable = RawWakerVTable::new(clone, noop, noop, noop);
        let waker = unsafe { Waker::from_raw(RawWaker::new(std::ptr::null(), &VT)) };
        let mut cx = TCx::from_waker(&waker);
        let mut f = Box::pin(f);
        let mut spins = 0u32;
        loop {
            match f.as_mut().poll(&mut cx) {
                Poll::Ready(v) => return v,
                Poll::Pending => {
                    spins += 1;
                    if spins > 1000 {
                        panic!("future never became ready");
                    }
                }
            }
        }
    }

    /// An asynchronous file: a real fd (through the crate's own preadv/pwritev helpers over FileVolatileBuf),
    /// or memory with a byte limit per call, or one that fails.
    pub struct AFile {
        pub file: Option<File>,
        pub data: Vec<u8>,          // memory source content
        pub lim: usize,             // memory sink/source: at most this many bytes per call
        pub fail: bool,
        pub got: RefCell<Vec<u8>>,  // memory sink: what it received
    }
    #[async_trait(?Send)]
    impl AsyncFileReadWriteVolatile for AFile {
        async fn async_read_at_volatile(&self, buf: FileVolatileBuf, offset: u64) -> (io::Result<usize>, FileVolatileBuf) {
            let (r, b) = self.async_read_vectored_at_volatile(vec![buf], offset).await;
            (r, b[0])
        }
        async fn async_read_vectored_at_volatile(&self, mut bufs: Vec<FileVolatileBuf>, offset: u64) -> (io::Result<usize>, Vec<FileVolatileBuf>) {
            if self.fail {
                return (Err(ferr()), bufs);
            }
            if let Some(f) = &self.file {
                let r = preadv(f.as_raw_fd(), &mut bufs, offset);
                return (r, bufs);
            }
            let mut pos = std::cmp::min(offset as usize, self.data.len());
            let mut n = 0;
            for b in bufs.iter_mut() {
                let mut dst = b.io_slice_mut();
                let take = std::cmp::min(std::cmp::min(self.data.len() - pos, dst.len()), self.lim - n);
                dst[..take].copy_from_slice(&self.data[pos..pos + take]);
                pos += take;
                n += take;
            }
            (Ok(n), bufs)
        }
        async fn async_write_at_volatile(&self, buf: FileVolatileBuf, offset: u64) -> (io::Result<usize>, FileVolatileBuf) {
            let (r, b) = self.async_write_vectored_at_volatile(vec![buf], offset).await;
            (r, b[0])
        }
        async fn async_write_vectored_at_volatile(&self, bufs: Vec<FileVolatileBuf>, offset: u64) -> (io::Result<usize>, Vec<FileVolatileBuf>) {
            if self.fail {
                return (Err(ferr()), bufs);
            }
            if let Some(f) = &self.file {
                let r = pwritev(f.as_raw_fd(), &bufs, offset);
                return (r, bufs);
            }
            let mut n = 0;
            for b in bufs.iter() {
                let src = b.io_slice();
                let take = std::cmp::min(src.len(), self.lim - n);
                self.got.borrow_mut().extend_from_slice(&src[..take]);
                n += take;
            }
            (Ok(n), bufs)
        }
    }
    pub fn afile(file: Option<File>, data: Vec<u8>, lim: usize, fail: bool) -> AFile {
        AFile { file, data, lim, fail, got: RefCell::new(vec![]) }
    }
}

fn io_err(e: &io::Error) -> String {
    let msg = format!("{}", e);
    if msg.contains("data out of range") {
        "nospace".into()
    } else if e.kind() == io::ErrorKind::UnexpectedEof {
        "eof".into()
    } else if e.kind() == io::ErrorKind::WriteZero {
        "writezero".into()
    } else if e.kind() == io::ErrorKind::Interrupted {
        "intr".into()
    } else if msg.contains("verif-file-error") || e.raw_os_error().is_some() {
        "file".into()
    } else if msg.contains("would overflow") {
        "overflow".into()
    } else {
        format!("other:{:?}:{}", e.kind(), msg.replace('"', "'"))
    }
}
fn t_err(e: &TError) -> String {
    match e {
        TError::SplitOutOfBounds(_) => "split".into(),
        TError::FindMemoryRegion => "findregion".into(),
        TError::GuestMemoryError(_) => "guestmem".into(),
        TError::DescriptorChainOverflow => "overflow".into(),
        other => format!("other:{}", format!("{}", other).replace('"', "'")),
    }
}

// one observation: result json, avail, consumed, avail2, consumed2
struct Obs {
    res: String,
    a: usize,
    c: usize,
    a2: usize,
    c2: usize,
    pk: Vec<Vec<u8>>,
}
fn ok(n: usize, data: &[u8]) -> String {
    format!("[\"ok\",{},\"{}\"]", n, hex(data))
}
fn er(k: &str) -> String {
    format!("[\"err\",\"{}\"]", k)
}
fn obs_json(o: &Obs) -> String {
    let pk: Vec<String> = o.pk.iter().map(|p| format!("\"{}\"", hex(p))).collect();
    format!("[{},{},{},{},{},[{}]]", o.res, o.a, o.c, o.a2, o.c2, pk.join(","))
}

// ---- reader ops, generic over the bitmap type (virtio chain or fuse buffer) ---------------------
fn reader_op<S: BitmapSlice>(rs: &mut Vec<Reader<'_, S>>, f: &[&str]) -> Obs {
    let i = num(f[1]) as usize;
    if i >= rs.len() {
        return Obs { res: er("noindex"), a: 0, c: 0, a2: 0, c2: 0, pk: vec![] };
    }
    let mut a2 = 0;
    let mut c2 = 0;
    let res = match f[0] {
        "r" => {
            let mut buf = vec![0xEEu8; num(f[2]) as usize];
            match rs[i].read(&mut buf) {
                Ok(n) => ok(n, &buf[..n]),
                Err(e) => er(&io_err(&e)),
            }
        }
        "x" => {
            let mut buf = vec![0xEEu8; num(f[2]) as usize];
            match rs[i].read_exact(&mut buf) {
                Ok(()) => ok(buf.len(), &buf),
                Err(e) => er(&io_err(&e)),
            }
        }
        "o" => match num(f[2]) {
            1 => rs[i].read_obj::<u8>().map(|v| v.to_le_bytes().to_vec()),
            2 => rs[i].read_obj::<u16>().map(|v| v.to_le_bytes().to_vec()),
            4 => rs[i].read_obj::<u32>().map(|v| v.to_le_bytes().to_vec()),
            8 => rs[i].read_obj::<u64>().map(|v| v.to_le_bytes().to_vec()),
            16 => rs[i].read_obj::<u128>().map(|v| v.to_le_bytes().to_vec()),
            w => panic!("width {}", w),
        }
        .map(|b| ok(b.len(), &b))
        .unwrap_or_else(|e| er(&io_err(&e))),
        "t" => {
            let count = num(f[2]) as usize;
            let lim = num(f[4]) as usize;
            match f[3] {
                "f" => {
                    let mut file = memfd(&[]);
                    match rs[i].read_to(&mut file, count) {
                        Ok(n) => ok(n, &file_content(&mut file, 0)),
                        Err(e) => er(&io_err(&e)),
                    }
                }
                "a" => {
                    let mut file = memfd(&[0x5a, 0x5a, 0x5a]);
                    match rs[i].read_to_at(&mut file, count, 3) {
                        Ok(n) => {
                            let all = file_content(&mut file, 0);
                            if all.len() < 3 || all[..3] != [0x5a, 0x5a, 0x5a] {
                                er("file-prefix-clobbered")
                            } else {
                                ok(n, &all[3..])
                            }
                        }
                        Err(e) => er(&io_err(&e)),
                    }
                }
                "b" => match rs[i].read_to(&mut rdonly_file(), count) {
                    Ok(n) => ok(n, &[]),
                    Err(e) => er(&io_err(&e)),
                },
                "l" | "e" => {
                    let mut s = LimSink { lim, got: vec![], fail: f[3] == "e", intr: f[3] == "i" };
                    match rs[i].read_to(&mut s, count) {
                        Ok(n) => ok(n, &s.got),
                        Err(e) => er(&io_err(&e)),
                    }
                }
                k => panic!("sink kind {}", k),
            }
        }
        "X" => {
            // read_exact_to: the sink sees everything the loop hands over
            let count = num(f[2]) as usize;
            let lim = num(f[4]) as usize;
            match f[3] {
                "f" => {
                    let mut file = memfd(&[]);
                    match rs[i].read_exact_to(&mut file, count) {
                        Ok(()) => {
                            let c = file_content(&mut file, 0);
                            ok(c.len(), &c)
                        }
                        Err(e) => er(&io_err(&e)),
                    }
                }
                "b" => match rs[i].read_exact_to(&mut rdonly_file(), count) {
                    Ok(()) => ok(0, &[]),
                    Err(e) => er(&io_err(&e)),
                },
                _ => {
                    let mut s = LimSink { lim, got: vec![], fail: f[3] == "e", intr: f[3] == "i" };
                    match rs[i].read_exact_to(&mut s, count) {
                        Ok(()) => ok(s.got.len(), &s.got),
                        Err(e) => er(&io_err(&e)),
                    }
                }
            }
        }
        #[cfg(feature = "async-io")]
        "T" => {
            // async_read_to_at: kinds f (real fd at offset 3, crate's pwritev helper), l (at most lim bytes), e (fails)
            let count = num(f[2]) as usize;
            let lim = num(f[4]) as usize;
            match f[3] {
                "f" => {
                    let mut file = memfd(&[0x5a, 0x5a, 0x5a]);
                    let af = aio::afile(Some(file.try_clone().unwrap()), vec![], 0, false);
                    match aio::block_on(rs[i].async_read_to_at(&af, count, 3)) {
                        Ok(n) => {
                            let all = file_content(&mut file, 0);
                            if all.len() < 3 || all[..3] != [0x5a, 0x5a, 0x5a] {
                                er("file-prefix-clobbered")
                            } else {
                                ok(n, &all[3..])
                            }
                        }
                        Err(e) => er(&io_err(&e)),
                    }
                }
                _ => {
                    let af = aio::afile(None, vec![], lim, f[3] == "e");
                    match aio::block_on(rs[i].async_read_to_at(&af, count, 0)) {
                        Ok(n) => ok(n, &af.got.borrow()),
                        Err(e) => er(&io_err(&e)),
                    }
                }
            }
        }
        "s" => match rs[i].split_at(num(f[2]) as usize) {
            Ok(r) => {
                a2 = r.available_bytes();
                c2 = r.bytes_read();
                rs.push(r);
                ok(0, &[])
            }
            Err(e) => er(&t_err(&e)),
        },
        k => panic!("reader op {}", k),
    };
    Obs { res, a: rs[i].available_bytes(), c: rs[i].bytes_read(), a2, c2, pk: vec![] }
}

fn split_datas(s: &str) -> Vec<Vec<u8>> {
    if s.is_empty() {
        vec![]
    } else {
        s.split('/').map(unhex).collect()
    }
}

// ---- a VirtioFsWriter used either directly or through the transport-neutral `Writer` enum (case key via=enum) ----
enum VW<'a, S: BitmapSlice> {
    D(VirtioFsWriter<'a, S>),
    E(Writer<'a, S>),
}
impl<'a, S: BitmapSlice> VW<'a, S> {
    fn new(w: VirtioFsWriter<'a, S>, via_enum: bool) -> Self {
        if via_enum {
            VW::E(Writer::VirtioFs(w))
        } else {
            VW::D(w)
        }
    }
    fn conc(&mut self) -> &mut VirtioFsWriter<'a, S> {
        match self {
            VW::D(w) => w,
            VW::E(Writer::VirtioFs(w)) => w,
            _ => unreachable!(),
        }
    }
    fn write(&mut self, b: &[u8]) -> io::Result<usize> {
        match self {
            VW::D(w) => w.write(b),
            VW::E(w) => w.write(b),
        }
    }
    fn write_vectored(&mut self, b: &[IoSlice<'_>]) -> io::Result<usize> {
        match self {
            VW::D(w) => w.write_vectored(b),
            VW::E(w) => w.write_vectored(b),
        }
    }
    fn flush(&mut self) -> io::Result<()> {
        match self {
            VW::D(w) => w.flush(),
            VW::E(w) => w.flush(),
        }
    }
    fn write_from<F: FileReadWriteVolatile>(&mut self, f: F, count: usize) -> io::Result<usize> {
        self.conc().write_from(f, count)
    }
    fn write_all_from<F: FileReadWriteVolatile>(&mut self, f: F, count: usize) -> io::Result<()> {
        self.conc().write_all_from(f, count)
    }
    fn write_from_at<F: FileReadWriteVolatile>(&mut self, f: F, count: usize, off: u64) -> io::Result<usize> {
        match self {
            VW::D(w) => w.write_from_at(f, count, off),
            VW::E(w) => w.write_from_at(f, count, off),
        }
    }
    fn split_at(&mut self, off: usize) -> Result<Self, TError> {
        match self {
            VW::D(w) => w.split_at(off).map(VW::D),
            VW::E(w) => w.split_at(off).map(VW::E),
        }
    }
    fn commit(&mut self) -> io::Result<usize> {
        match self {
            VW::D(w) => w.commit(None),
            VW::E(w) => w.commit(None),
        }
    }
    fn available_bytes(&self) -> usize {
        match self {
            VW::D(w) => w.available_bytes(),
            VW::E(w) => w.available_bytes(),
        }
    }
    fn bytes_written(&self) -> usize {
        match self {
            VW::D(w) => w.bytes_written(),
            VW::E(w) => w.bytes_written(),
        }
    }
}
#[cfg(feature = "async-io")]
impl<'a, S: BitmapSlice> VW<'a, S> {
    async fn async_write(&mut self, d: &[u8]) -> io::Result<usize> {
        match self {
            VW::D(w) => w.async_write(d).await,
            VW::E(w) => w.async_write(d).await,
        }
    }
    async fn async_write2(&mut self, d: &[u8], d2: &[u8]) -> io::Result<usize> {
        match self {
            VW::D(w) => w.async_write2(d, d2).await,
            VW::E(w) => w.async_write2(d, d2).await,
        }
    }
    async fn async_write3(&mut self, d: &[u8], d2: &[u8], d3: &[u8]) -> io::Result<usize> {
        match self {
            VW::D(w) => w.async_write3(d, d2, d3).await,
            VW::E(w) => w.async_write3(d, d2, d3).await,
        }
    }
    async fn async_write_all(&mut self, d: &[u8]) -> io::Result<()> {
        match self {
            VW::D(w) => w.async_write_all(d).await,
            VW::E(w) => w.async_write_all(d).await,
        }
    }
    async fn async_write_from_at(&mut self, f: &aio::AFile, count: usize, off: u64) -> io::Result<usize> {
        match self {
            VW::D(w) => w.async_write_from_at(f, count, off).await,
            VW::E(w) => w.async_write_from_at(f, count, off).await,
        }
    }
    async fn async_commit(&mut self) -> io::Result<usize> {
        match self {
            VW::D(w) => w.async_commit(None).await,
            VW::E(w) => w.async_commit(None).await,
        }
    }
}

// write_obj::<T>(val) for the integer type whose little-endian bytes are `d`
macro_rules! write_obj_of {
    ($w:expr, $d:expr) => {
        match $d.len() {
            1 => $w.write_obj($d[0]),
            2 => $w.write_obj(u16::from_le_bytes([$d[0], $d[1]])),
            4 => $w.write_obj(u32::from_le_bytes([$d[0], $d[1], $d[2], $d[3]])),
            8 => {
                let mut a = [0u8; 8];
                a.copy_from_slice(&$d);
                $w.write_obj(u64::from_le_bytes(a))
            }
            16 => {
                let mut a = [0u8; 16];
                a.copy_from_slice(&$d);
                $w.write_obj(u128::from_le_bytes(a))
            }
            n => panic!("write_obj width {}", n),
        }
    };
}

// ---- virtio ----------------------------------------------------------------------------------------
fn virtio_case(line: &str) -> String {
    let seed = num(kv(line, "seed"));
    let regions: Vec<(u64, u64)> = kv(line, "regions")
        .split(',')
        .map(|r| {
            let p: Vec<&str> = r.split(':').collect();
            (num(p[0]), num(p[1]))
        })
        .collect();
    let qaddr = num(kv(line, "queue"));
    let ranges: Vec<(GuestAddress, usize)> = regions.iter().map(|(b, z)| (GuestAddress(*b), *z as usize)).collect();
    let mem: GM = GuestMemoryMmap::from_ranges(&ranges).unwrap();
    // region 0 holds the virtqueue, the others hold data and are pattern filled
    for (b, z) in regions.iter().skip(1) {
        let v: Vec<u8> = (0..*z).map(|o| pat(seed, b + o)).collect();
        mem.write_slice(&v, GuestAddress(*b)).unwrap();
    }
    let descs: Vec<RawDescriptor> = kv(line, "descs")
        .split(',')
        .filter(|s| !s.is_empty())
        .map(|d| {
            let p: Vec<&str> = d.split(':').collect();
            let flags: u16 = if p[2] == "w" { 2 } else { 0 };
            RawDescriptor::from(SplitDescriptor::new(num(p[0]), num(p[1]) as u32, flags, 0))
        })
        .collect();
    // queue size (default 16) and, instead of `descs=`, the driver's tables verbatim: raw=idx:addr:len:flags:next,...
    // (slots of the descriptor table) and ind=gaddr:addr:len:flags:next,... (16-byte descriptors written straight
    // into guest memory: indirect tables); the chain starts at slot 0
    let qsize: u16 = if kv(line, "qsize").is_empty() { 16 } else { num(kv(line, "qsize")) as u16 };
    let vq = MockSplitQueue::create(&mem, GuestAddress(qaddr), qsize);
    let chain = if kv(line, "raw").is_empty() {
        vq.build_desc_chain(&descs).expect("build_desc_chain")
    } else {
        let mut first: Option<RawDescriptor> = None;
        for d in kv(line, "raw").split(',').filter(|s| !s.is_empty()) {
            let p: Vec<u64> = d.split(':').map(num).collect();
            let rd = RawDescriptor::from(SplitDescriptor::new(p[1], p[2] as u32, p[3] as u16, p[4] as u16));
            vq.desc_table().store(p[0] as u16, rd).expect("store raw descriptor");
            if p[0] == 0 {
                first = Some(rd);
            }
        }
        for d in kv(line, "ind").split(',').filter(|s| !s.is_empty()) {
            let p: Vec<u64> = d.split(':').map(num).collect();
            let mut b = [0u8; 16];
            b[..8].copy_from_slice(&p[1].to_le_bytes());
            b[8..12].copy_from_slice(&(p[2] as u32).to_le_bytes());
            b[12..14].copy_from_slice(&(p[3] as u16).to_le_bytes());
            b[14..16].copy_from_slice(&(p[4] as u16).to_le_bytes());
            mem.write_slice(&b, GuestAddress(p[0])).expect("write indirect descriptor");
        }
        vq.build_multiple_desc_chains(&[first.expect("raw slot 0")]).expect("build_multiple_desc_chains")
    };
    for r in mem.iter() {
        let mr: &vm_memory::MmapRegion<AtomicBitmap> = std::ops::Deref::deref(r);
        mr.bitmap().reset();
    }
    // initial state of the dirty log (a long-lived log is not empty when a request arrives)
    for pg in kv(line, "dirty0").split(',').filter(|s| !s.is_empty()) {
        let a = num(pg) * 4096;
        if let Some(reg) = mem.find_region(GuestAddress(a)) {
            reg.bitmap().mark_dirty((a - reg.start_addr().0) as usize, 1);
        }
    }
    let mut init = String::from("\"ok\"");
    let mut rs = Vec::new();
    let mut ws = Vec::new();
    match <Reader>::from_descriptor_chain(&mem, chain.clone()) {
        Ok(r) => rs.push(r),
        Err(e) => init = format!("\"r:{}\"", t_err(&e)),
    }
    match <VirtioFsWriter>::new(&mem, chain.clone()) {
        Ok(w) => ws.push(VW::new(w, kv(line, "via") == "enum")),
        Err(e) => {
            if init == "\"ok\"" {
                init = format!("\"w:{}\"", t_err(&e))
            }
        }
    }
    let mut out: Vec<String> = Vec::new();
    if init == "\"ok\"" {
        out.push(obs_json(&Obs { res: ok(0, &[]), a: rs[0].available_bytes(), c: rs[0].bytes_read(), a2: ws[0].available_bytes(), c2: ws[0].bytes_written(), pk: vec![] }));
        for op in kv(line, "ops").split(';').filter(|s| !s.is_empty()) {
            let f: Vec<&str> = op.split(',').collect();
            let o = match f[0] {
                "r" | "x" | "o" | "t" | "s" | "X" | "T" => reader_op(&mut rs, &f),
                _ if num(f[1]) as usize >= ws.len() => Obs { res: er("noindex"), a: 0, c: 0, a2: 0, c2: 0, pk: vec![] },
                _ => {
                    let i = num(f[1]) as usize;
                    let mut a2 = 0;
                    let mut c2 = 0;
                    let res = match f[0] {
                        "w" => match ws[i].write(&unhex(f[2])) {
                            Ok(n) => ok(n, &[]),
                            Err(e) => er(&io_err(&e)),
                        },
                        "O" => {
                            let d = unhex(f[2]);
                            let w = ws[i].conc();
                            match write_obj_of!(w, d) {
                                Ok(()) => ok(d.len(), &[]),
                                Err(e) => er(&io_err(&e)),
                            }
                        }
                        "F" => match ws[i].flush() {
                            Ok(()) => ok(0, &[]),
                            Err(e) => er(&io_err(&e)),
                        },
                        "v" => {
                            let ds = split_datas(f.get(2).copied().unwrap_or(""));
                            let ios: Vec<IoSlice> = ds.iter().map(|d| IoSlice::new(d)).collect();
                            match ws[i].write_vectored(&ios) {
                                Ok(n) => ok(n, &[]),
                                Err(e) => er(&io_err(&e)),
                            }
                        }
                        "f" => {
                            let count = num(f[2]) as usize;
                            let data = unhex(f.get(4).copied().unwrap_or(""));
                            let r = match f[3] {
                                "f" => ws[i].write_from(&mut memfd(&data), count),
                                "a" => {
                                    let mut c = vec![0xa5u8, 0xa5];
                                    c.extend_from_slice(&data);
                                    ws[i].write_from_at(&mut memfd(&c), count, 2)
                                }
                                "b" => ws[i].write_from(&mut wronly_file(), count),
                                "l" | "e" | "i" => ws[i].write_from(&mut LimSrc { data, pos: 0, fail: f[3] == "e", intr: f[3] == "i" }, count),
                                k if k.starts_with('s') => ws[i].write_from(&mut ScriptSrc::new(k, data), count),
                                k if k.starts_with('S') => ws[i].write_from_at(&mut ScriptSrc::new(k, data), count, 2),
                                k => panic!("src kind {}", k),
                            };
                            match r {
                                Ok(n) => ok(n, &[]),
                                Err(e) => er(&io_err(&e)),
                            }
                        }
                        "A" => {
                            let count = num(f[2]) as usize;
                            let data = unhex(f.get(4).copied().unwrap_or(""));
                            let r = match f[3] {
                                "f" => ws[i].write_all_from(&mut memfd(&data), count),
                                "b" => ws[i].write_all_from(&mut wronly_file(), count),
                                k if k.starts_with('s') => ws[i].write_all_from(&mut ScriptSrc::new(k, data), count),
                                _ => ws[i].write_all_from(&mut LimSrc { data, pos: 0, fail: f[3] == "e", intr: f[3] == "i" }, count),
                            };
                            match r {
                                Ok(()) => ok(0, &[]),
                                Err(e) => er(&io_err(&e)),
                            }
                        }
                        #[cfg(feature = "async-io")]
                        "a" | "b" | "d" | "e" | "g" | "h" => {
                            let ds = split_datas(f.get(2).copied().unwrap_or(""));
                            let emp: Vec<u8> = vec![];
                            let g = |k: usize| ds.get(k).unwrap_or(&emp);
                            let r: io::Result<usize> = match f[0] {
                                "a" => aio::block_on(ws[i].async_write(g(0))),
                                "b" => aio::block_on(ws[i].async_write2(g(0), g(1))),
                                "d" => aio::block_on(ws[i].async_write3(g(0), g(1), g(2))),
                                "e" => aio::block_on(ws[i].async_write_all(g(0))).map(|_| g(0).len()),
                                "h" => aio::block_on(ws[i].async_commit()),
                                _ => {
                                    let count = num(f[2]) as usize;
                                    let data = unhex(f.get(4).copied().unwrap_or(""));
                                    let af = match f[3] {
                                        "f" => {
                                            let mut c = vec![0xa5u8, 0xa5];
                                            c.extend_from_slice(&data);
                                            aio::afile(Some(memfd(&c)), vec![], 0, false)
                                        }
                                        k => {
                                            let mut c = vec![0xa5u8, 0xa5];
                                            c.extend_from_slice(&data);
                                            aio::afile(None, c, usize::MAX, k == "e")
                                        }
                                    };
                                    aio::block_on(ws[i].async_write_from_at(&af, count, 2))
                                }
                            };
                            match r {
                                Ok(n) => ok(n, &[]),
                                Err(e) => er(&io_err(&e)),
                            }
                        }
                        "p" => match ws[i].split_at(num(f[2]) as usize) {
                            Ok(w) => {
                                a2 = w.available_bytes();
                                c2 = w.bytes_written();
                                ws.push(w);
                                ok(0, &[])
                            }
                            Err(e) => er(&t_err(&e)),
                        },
                        "c" => match ws[i].commit() {
                            Ok(n) => ok(n, &[]),
                            Err(e) => er(&io_err(&e)),
                        },
                        k => panic!("writer op {}", k),
                    };
                    Obs { res, a: ws[i].available_bytes(), c: ws[i].bytes_written(), a2, c2, pk: vec![] }
                }
            };
            out.push(obs_json(&o));
        }
    }
    drop(rs);
    drop(ws);
    // memory diff vs pattern and dirty pages (global page number = guest address / 4096), data regions only
    let mut diffs: Vec<String> = Vec::new();
    let mut dirty: Vec<String> = Vec::new();
    for (ri, (b, z)) in regions.iter().enumerate() {
        if ri == 0 {
            continue;
        }
        let mut v = vec![0u8; *z as usize];
        mem.read_slice(&mut v, GuestAddress(*b)).unwrap();
        let mut o = 0usize;
        while o < v.len() {
            if v[o] != pat(seed, b + o as u64) {
                let s = o;
                while o < v.len() && v[o] != pat(seed, b + o as u64) {
                    o += 1;
                }
                diffs.push(format!("[{},\"{}\"]", b + s as u64, hex(&v[s..o])));
            } else {
                o += 1;
            }
        }
        let reg = mem.find_region(GuestAddress(*b)).unwrap();
        let mut off = 0u64;
        while off < *z {
            if reg.bitmap().dirty_at(off as usize) {
                dirty.push(format!("{}", (b + off) / 4096));
            }
            off += 4096;
        }
    }
    format!("{{\"init\":{},\"obs\":[{}],\"mem\":[{}],\"dirty\":[{}]}}", init, out.join(","), diffs.join(","), dirty.join(","))
}

// ---- whole requests through Server::handle_message on the virtio transport (C17) ---------------------
// A file system whose replies carry payloads of a chosen size: read (zero copy from a memfd), readdir,
// getxattr, listxattr, readlink, getattr.  Everything else answers ENOSYS (a 16-byte error reply).
struct PayloadFs {
    payload: Vec<u8>,
}
impl FileSystem for PayloadFs {
    type Inode = u64;
    type Handle = u64;
    fn getattr(&self, _ctx: &Context, _inode: u64, _handle: Option<u64>) -> io::Result<(stat64, std::time::Duration)> {
        let mut st: stat64 = unsafe { std::mem::zeroed() };
        st.st_ino = 7;
        st.st_size = self.payload.len() as i64;
        st.st_mode = 0o100644;
        Ok((st, std::time::Duration::from_secs(1)))
    }
    fn readlink(&self, _ctx: &Context, _inode: u64) -> io::Result<Vec<u8>> {
        Ok(self.payload.clone())
    }
    fn read(&self, _ctx: &Context, _inode: u64, _handle: u64, w: &mut dyn ZeroCopyWriter, size: u32, offset: u64, _lock_owner: Option<u64>, _flags: u32) -> io::Result<usize> {
        let mut f = memfd(&self.payload);
        w.write_from(&mut f, size as usize, offset)
    }
    fn readdir(&self, _ctx: &Context, _inode: u64, _handle: u64, _size: u32, offset: u64, add_entry: &mut dyn FnMut(DirEntry) -> io::Result<usize>) -> io::Result<()> {
        // one entry per 3 payload bytes, names of growing length
        let n = self.payload.len() / 3;
        let mut i = offset as usize;
        while i < n {
            let name: Vec<u8> = (0..(1 + i % 11)).map(|k| b'a' + ((i + k) % 26) as u8).collect();
            let r = add_entry(DirEntry { ino: 100 + i as u64, offset: (i + 1) as u64, type_: libc::DT_REG as u32, name: &name })?;
            if r == 0 {
                break;
            }
            i += 1;
        }
        Ok(())
    }
    fn getxattr(&self, _ctx: &Context, _inode: u64, _name: &std::ffi::CStr, size: u32) -> io::Result<GetxattrReply> {
        if size == 0 {
            Ok(GetxattrReply::Count(self.payload.len() as u32))
        } else {
            Ok(GetxattrReply::Value(self.payload.clone()))
        }
    }
    fn listxattr(&self, _ctx: &Context, _inode: u64, size: u32) -> io::Result<ListxattrReply> {
        if size == 0 {
            Ok(ListxattrReply::Count(self.payload.len() as u32))
        } else {
            Ok(ListxattrReply::Names(self.payload.clone()))
        }
    }
}

fn server_case(line: &str) -> String {
    let seed = num(kv(line, "seed"));
    let regions: Vec<(u64, u64)> = kv(line, "regions")
        .split(',')
        .map(|r| {
            let p: Vec<&str> = r.split(':').collect();
            (num(p[0]), num(p[1]))
        })
        .collect();
    let qaddr = num(kv(line, "queue"));
    let ranges: Vec<(GuestAddress, usize)> = regions.iter().map(|(b, z)| (GuestAddress(*b), *z as usize)).collect();
    let mem: GM = GuestMemoryMmap::from_ranges(&ranges).unwrap();
    for (b, z) in regions.iter().skip(1) {
        let v: Vec<u8> = (0..*z).map(|o| pat(seed, b + o)).collect();
        mem.write_slice(&v, GuestAddress(*b)).unwrap();
    }
    let req = unhex(kv(line, "req"));
    let payload = unhex(kv(line, "payload"));
    let mut descs: Vec<RawDescriptor> = Vec::new();
    let mut wflat: Vec<u64> = Vec::new();
    let mut pos = 0usize;
    for d in kv(line, "descs").split(',').filter(|s| !s.is_empty()) {
        let p: Vec<&str> = d.split(':').collect();
        let (a, l) = (num(p[0]), num(p[1]));
        let flags: u16 = if p[2] == "w" { 2 } else { 0 };
        if p[2] == "w" {
            wflat.extend((0..l).map(|i| a + i));
        } else {
            // the request bytes go into the readable descriptors, in order
            let take = std::cmp::min(l as usize, req.len() - pos);
            mem.write_slice(&req[pos..pos + take], GuestAddress(a)).unwrap();
            pos += take;
        }
        descs.push(RawDescriptor::from(SplitDescriptor::new(a, l as u32, flags, 0)));
    }
    let vq = MockSplitQueue::create(&mem, GuestAddress(qaddr), 16);
    let chain = vq.build_desc_chain(&descs).expect("build_desc_chain");
    // snapshot + clean bitmap: everything from here on is the server's doing
    let mut snap: Vec<Vec<u8>> = Vec::new();
    for (b, z) in regions.iter() {
        let mut v = vec![0u8; *z as usize];
        mem.read_slice(&mut v, GuestAddress(*b)).unwrap();
        snap.push(v);
    }
    for r in mem.iter() {
        let mr: &vm_memory::MmapRegion<AtomicBitmap> = std::ops::Deref::deref(r);
        mr.bitmap().reset();
    }
    let server = Server::new(PayloadFs { payload });
    let res = {
        let reader = <Reader>::from_descriptor_chain(&mem, chain.clone()).expect("reader");
        let writer = <VirtioFsWriter>::new(&mem, chain.clone()).expect("writer");
        match catch_unwind(AssertUnwindSafe(|| server.handle_message(reader, Writer::VirtioFs(writer), None, None))) {
            Ok(Ok(n)) => format!("[\"ok\",{}]", n),
            Ok(Err(e)) => format!("[\"err\",\"{}\"]", format!("{}", e).replace('"', "'")),
            Err(_) => "[\"panic\"]".to_string(),
        }
    };
    let mut diffs: Vec<String> = Vec::new();
    let mut dirty: Vec<String> = Vec::new();
    for (ri, (b, z)) in regions.iter().enumerate() {
        if ri == 0 {
            continue;
        }
        let mut v = vec![0u8; *z as usize];
        mem.read_slice(&mut v, GuestAddress(*b)).unwrap();
        let mut o = 0usize;
        while o < v.len() {
            if v[o] != snap[ri][o] {
                let s = o;
                while o < v.len() && v[o] != snap[ri][o] {
                    o += 1;
                }
                diffs.push(format!("[{},\"{}\"]", b + s as u64, hex(&v[s..o])));
            } else {
                o += 1;
            }
        }
        let reg = mem.find_region(GuestAddress(*b)).unwrap();
        let mut off = 0u64;
        while off < *z {
            if reg.bitmap().dirty_at(off as usize) {
                dirty.push(format!("{}", (b + off) / 4096));
            }
            off += 4096;
        }
    }
    let mut head = vec![0u8; std::cmp::min(16, wflat.len())];
    for (i, a) in wflat.iter().take(16).enumerate() {
        let mut one = [0u8; 1];
        mem.read_slice(&mut one, GuestAddress(*a)).unwrap();
        head[i] = one[0];
    }
    format!("{{\"res\":{},\"mem\":[{}],\"dirty\":[{}],\"head\":\"{}\"}}", res, diffs.join(","), dirty.join(","), hex(&head))
}

// ---- fusedev ---------------------------------------------------------------------------------------
const FBASE: u64 = 0x10000; // model address of the arena start (16-aligned); buffer starts 64 bytes later
const MARGIN: usize = 64;

fn drain(fd: RawFd) -> Vec<Vec<u8>> {
    let mut v = Vec::new();
    let mut buf = vec![0u8; 1 << 17];
    loop {
        let n = unsafe { libc::recv(fd, buf.as_mut_ptr() as *mut libc::c_void, buf.len(), libc::MSG_DONTWAIT) };
        if n < 0 {
            break;
        }
        v.push(buf[..n as usize].to_vec());
        if v.len() > 64 {
            break;
        }
    }
    v
}

fn fusedev_case(line: &str) -> String {
    let seed = num(kv(line, "seed"));
    let cap = num(kv(line, "cap")) as usize;
    let mode = kv(line, "mode");
    let mut arena: Vec<u8> = (0..(cap + 2 * MARGIN) as u64).map(|o| pat(seed, FBASE + o)).collect();
    let aptr = arena.as_mut_ptr();
    let alen = arena.len();
    let mut sv = [0i32; 2];
    assert_eq!(unsafe { libc::socketpair(libc::AF_UNIX, libc::SOCK_SEQPACKET, 0, sv.as_mut_ptr()) }, 0);
    #[cfg(feature = "async-io")]
    aio::HARNESS_FD.store(sv[0], Ordering::SeqCst);
    let mut out: Vec<String> = Vec::new();
    {
        let buf: &mut [u8] = unsafe { std::slice::from_raw_parts_mut(aptr.add(MARGIN), cap) };
        if mode == "reader" {
            let mut rs: Vec<Reader<'_, ()>> = vec![Reader::from_fuse_buffer(FuseBuf::new(buf)).unwrap()];
            out.push(obs_json(&Obs { res: ok(0, &[]), a: rs[0].available_bytes(), c: rs[0].bytes_read(), a2: 0, c2: 0, pk: vec![] }));
            for op in kv(line, "ops").split(';').filter(|s| !s.is_empty()) {
                let f: Vec<&str> = op.split(',').collect();
                out.push(obs_json(&reader_op(&mut rs, &f)));
            }
        } else {
            let mut ws: Vec<Writer<'_, ()>> = vec![Writer::FuseDev(FuseDevWriter::<()>::new(sv[0], buf).unwrap())];
            out.push(obs_json(&Obs { res: ok(0, &[]), a: ws[0].available_bytes(), c: ws[0].bytes_written(), a2: 0, c2: 0, pk: vec![] }));
            for op in kv(line, "ops").split(';').filter(|s| !s.is_empty()) {
                let f: Vec<&str> = op.split(',').collect();
                let i = num(f[1]) as usize;
                if i >= ws.len() || ((f[0] == "c" || f[0] == "h") && f[2].parse::<i64>().unwrap() >= ws.len() as i64) {
                    out.push(obs_json(&Obs { res: er("noindex"), a: 0, c: 0, a2: 0, c2: 0, pk: vec![] }));
                    continue;
                }
                let mut a2 = 0;
                let mut c2 = 0;
                let r = catch_unwind(AssertUnwindSafe(|| -> String {
                    match f[0] {
                        "w" => match ws[i].write(&unhex(f[2])) {
                            Ok(n) => ok(n, &[]),
                            Err(e) => er(&io_err(&e)),
                        },
                        "v" => {
                            let ds = split_datas(f.get(2).copied().unwrap_or(""));
                            let ios: Vec<IoSlice> = ds.iter().map(|d| IoSlice::new(d)).collect();
                            match ws[i].write_vectored(&ios) {
                                Ok(n) => ok(n, &[]),
                                Err(e) => er(&io_err(&e)),
                            }
                        }
                        "O" => {
                            let d = unhex(f[2]);
                            let w = match &mut ws[i] {
                                Writer::FuseDev(w) => w,
                                _ => unreachable!(),
                            };
                            match write_obj_of!(w, d) {
                                Ok(()) => ok(d.len(), &[]),
                                Err(e) => er(&io_err(&e)),
                            }
                        }
                        "F" => match ws[i].flush() {
                            Ok(()) => ok(0, &[]),
                            Err(_) => er("noflush"),
                        },
                        "A" => {
                            let count = num(f[2]) as usize;
                            let data = unhex(f.get(4).copied().unwrap_or(""));
                            let w = match &mut ws[i] {
                                Writer::FuseDev(w) => w,
                                _ => unreachable!(),
                            };
                            let r = match f[3] {
                                "f" => w.write_all_from(&mut memfd(&data), count),
                                "b" => w.write_all_from(&mut wronly_file(), count),
                                _ => w.write_all_from(&mut LimSrc { data, pos: 0, fail: f[3] == "e", intr: f[3] == "i" }, count),
                            };
                            match r {
                                Ok(()) => ok(0, &[]),
                                Err(e) => er(&io_err(&e)),
                            }
                        }
                        "f" if f[3] == "a" => {
                            // write_from_at through the transport-neutral Writer enum
                            let count = num(f[2]) as usize;
                            let mut c = vec![0xa5u8, 0xa5];
                            c.extend_from_slice(&unhex(f.get(4).copied().unwrap_or("")));
                            match ws[i].write_from_at(&mut memfd(&c), count, 2) {
                                Ok(n) => ok(n, &[]),
                                Err(e) => er(&io_err(&e)),
                            }
                        }
                        "f" => {
                            let count = num(f[2]) as usize;
                            let data = unhex(f.get(4).copied().unwrap_or(""));
                            let w = match &mut ws[i] {
                                Writer::FuseDev(w) => w,
                                _ => unreachable!(),
                            };
                            let r = match f[3] {
                                "f" => w.write_from(&mut memfd(&data), count),
                                "a" => {
                                    let mut c = vec![0xa5u8, 0xa5];
                                    c.extend_from_slice(&data);
                                    w.write_from_at(&mut memfd(&c), count, 2)
                                }
                                "b" => w.write_from(&mut wronly_file(), count),
                                "l" | "e" => w.write_from(&mut LimSrc { data, pos: 0, fail: f[3] == "e", intr: f[3] == "i" }, count),
                                k => panic!("src kind {}", k),
                            };
                            match r {
                                Ok(n) => ok(n, &[]),
                                Err(e) => er(&io_err(&e)),
                            }
                        }
                        #[cfg(feature = "async-io")]
                        "a" | "b" | "d" | "e" | "g" => {
                            let ds = split_datas(f.get(2).copied().unwrap_or(""));
                            let emp: Vec<u8> = vec![];
                            let g = |k: usize| ds.get(k).unwrap_or(&emp);
                            let r: io::Result<usize> = match f[0] {
                                "a" => aio::block_on(ws[i].async_write(g(0))),
                                "b" => aio::block_on(ws[i].async_write2(g(0), g(1))),
                                "d" => aio::block_on(ws[i].async_write3(g(0), g(1), g(2))),
                                "e" => aio::block_on(ws[i].async_write_all(g(0))).map(|_| g(0).len()),
                                _ => {
                                    let count = num(f[2]) as usize;
                                    let data = unhex(f.get(4).copied().unwrap_or(""));
                                    let mut c = vec![0xa5u8, 0xa5];
                                    c.extend_from_slice(&data);
                                    let af = match f[3] {
                                        "f" => aio::afile(Some(memfd(&c)), vec![], 0, false),
                                        k => aio::afile(None, c, usize::MAX, k == "e"),
                                    };
                                    aio::block_on(ws[i].async_write_from_at(&af, count, 2))
                                }
                            };
                            match r {
                                Ok(n) => ok(n, &[]),
                                Err(e) => er(&io_err(&e)),
                            }
                        }
                        #[cfg(feature = "async-io")]
                        "h" => {
                            let j: i64 = f[2].parse().unwrap();
                            let r = if j < 0 || j as usize == i {
                                aio::block_on(ws[i].async_commit(None))
                            } else {
                                let o: *const Writer<'_, ()> = &ws[j as usize];
                                aio::block_on(ws[i].async_commit(Some(unsafe { &*o })))
                            };
                            match r {
                                Ok(n) => ok(n, &[]),
                                Err(e) => er(&io_err(&e)),
                            }
                        }
                        "p" => match ws[i].split_at(num(f[2]) as usize) {
                            Ok(w) => {
                                a2 = w.available_bytes();
                                c2 = w.bytes_written();
                                ws.push(w);
                                ok(0, &[])
                            }
                            Err(e) => er(&t_err(&e)),
                        },
                        "c" => {
                            let j: i64 = f[2].parse().unwrap();
                            let r = if j < 0 || j as usize == i {
                                ws[i].commit(None)
                            } else {
                                let o: *const Writer<'_, ()> = &ws[j as usize];
                                ws[i].commit(Some(unsafe { &*o }))
                            };
                            match r {
                                Ok(n) => ok(n, &[]),
                                Err(e) => er(&io_err(&e)),
                            }
                        }
                        k => panic!("fusedev op {}", k),
                    }
                }));
                let res = match r {
                    Ok(s) => s,
                    Err(_) => "[\"panic\"]".to_string(),
                };
                out.push(obs_json(&Obs { res, a: ws[i].available_bytes(), c: ws[i].bytes_written(), a2, c2, pk: drain(sv[1]) }));
            }
        }
    }
    unsafe {
        libc::close(sv[0]);
        libc::close(sv[1]);
    }
    let v: &[u8] = unsafe { std::slice::from_raw_parts(aptr, alen) };
    let mut diffs: Vec<String> = Vec::new();
    let mut o = 0usize;
    while o < v.len() {
        if v[o] != pat(seed, FBASE + o as u64) {
            let s = o;
            while o < v.len() && v[o] != pat(seed, FBASE + o as u64) {
                o += 1;
            }
            diffs.push(format!("[{},\"{}\"]", FBASE + s as u64, hex(&v[s..o])));
        } else {
            o += 1;
        }
    }
    drop(arena);
    format!("{{\"init\":\"ok\",\"obs\":[{}],\"mem\":[{}],\"dirty\":[]}}", out.join(","), diffs.join(","))
}

// ---- Bytes<usize> for FileVolatileSlice --------------------------------------------------------------
const BBASE: u64 = 0x20000;

fn vm_err(e: &vm_memory::VolatileMemoryError) -> String {
    use vm_memory::VolatileMemoryError as V;
    match e {
        V::OutOfBounds { .. } => "oob".into(),
        V::PartialBuffer { .. } => "partial".into(),
        V::Misaligned { .. } => "misaligned".into(),
        V::IOError(_) => "io".into(),
        other => format!("other:{}", format!("{}", other).replace('"', "'")),
    }
}

// run one method on any Bytes<usize, E = VolatileMemoryError>; returns (result json, caller buffer afterwards)
fn bytes_call<B: Bytes<usize, E = vm_memory::VolatileMemoryError>>(s: &B, method: &str, addr: usize, count: usize, buf0: &[u8]) -> (String, Vec<u8>) {
    let mut buf = buf0.to_vec();
    let r: Result<usize, vm_memory::VolatileMemoryError> = match method {
        "write" => s.write(&buf, addr),
        "read" => s.read(&mut buf, addr),
        "write_slice" => s.write_slice(&buf, addr).map(|_| 0),
        "read_slice" => s.read_slice(&mut buf, addr).map(|_| 0),
        "read_volatile_from" => {
            let mut src: &[u8] = &buf;
            s.read_volatile_from(addr, &mut src, count)
        }
        "read_exact_volatile_from" => {
            let mut src: &[u8] = &buf;
            s.read_exact_volatile_from(addr, &mut src, count).map(|_| 0)
        }
        "write_volatile_to" => {
            let mut dst: &mut [u8] = &mut buf;
            s.write_volatile_to(addr, &mut dst, count)
        }
        "write_all_volatile_to" => {
            let mut dst: &mut [u8] = &mut buf;
            s.write_all_volatile_to(addr, &mut dst, count).map(|_| 0)
        }
        "store" => match buf.len() {
            1 => s.store(buf[0], addr, Ordering::SeqCst),
            2 => s.store(u16::from_le_bytes([buf[0], buf[1]]), addr, Ordering::SeqCst),
            4 => s.store(u32::from_le_bytes([buf[0], buf[1], buf[2], buf[3]]), addr, Ordering::SeqCst),
            8 => s.store(u64::from_le_bytes([buf[0], buf[1], buf[2], buf[3], buf[4], buf[5], buf[6], buf[7]]), addr, Ordering::SeqCst),
            w => panic!("store width {}", w),
        }
        .map(|_| 0),
        "load" => match buf.len() {
            1 => s.load::<u8>(addr, Ordering::SeqCst).map(|v| buf.copy_from_slice(&v.to_le_bytes())),
            2 => s.load::<u16>(addr, Ordering::SeqCst).map(|v| buf.copy_from_slice(&v.to_le_bytes())),
            4 => s.load::<u32>(addr, Ordering::SeqCst).map(|v| buf.copy_from_slice(&v.to_le_bytes())),
            8 => s.load::<u64>(addr, Ordering::SeqCst).map(|v| buf.copy_from_slice(&v.to_le_bytes())),
            w => panic!("load width {}", w),
        }
        .map(|_| 0),
        m => panic!("method {}", m),
    };
    match r {
        Ok(n) => (format!("[\"ok\",{},\"{}\"]", n, hex(&buf)), buf),
        Err(e) => (er(&vm_err(&e)), buf),
    }
}

fn arena16(seed: u64, size: usize) -> (Vec<u8>, usize) {
    let mut v = vec![0u8; size + 2 * MARGIN + 16];
    let off = (16 - (v.as_ptr() as usize % 16)) % 16;
    for o in 0..size + 2 * MARGIN {
        v[off + o] = pat(seed, BBASE + o as u64);
    }
    (v, off)
}
fn arena_diffs(seed: u64, v: &[u8], off: usize, size: usize) -> String {
    let mut diffs: Vec<String> = Vec::new();
    let n = size + 2 * MARGIN;
    let mut o = 0usize;
    while o < n {
        if v[off + o] != pat(seed, BBASE + o as u64) {
            let s = o;
            while o < n && v[off + o] != pat(seed, BBASE + o as u64) {
                o += 1;
            }
            diffs.push(format!("[{},\"{}\"]", BBASE + s as u64, hex(&v[off + s..off + o])));
        } else {
            o += 1;
        }
    }
    diffs.join(",")
}

fn bytes_case(line: &str) -> String {
    let seed = num(kv(line, "seed"));
    let size = num(kv(line, "size")) as usize;
    let addr = num(kv(line, "addr")) as usize;
    let count = num(kv(line, "count")) as usize;
    let method = kv(line, "method");
    let buf = unhex(kv(line, "buf"));
    // the adapter under test
    let (mut a1, off1) = arena16(seed, size);
    let fvs = unsafe { FileVolatileSlice::from_raw_ptr(a1.as_mut_ptr().add(off1 + MARGIN), size) };
    if method == "offset" {
        // not a Bytes method: FileVolatileSlice::offset(count) must be the view [count, size)
        let r = match fvs.offset(count) {
            Ok(s2) => format!("[\"ok\",{},\"{}\"]", s2.len(), hex(&((s2.as_ptr() as usize - fvs.as_ptr() as usize) as u64).to_le_bytes())),
            Err(fuse_backend_rs::file_buf::Error::OutOfBounds { .. }) => er("oob"),
            Err(_) => er("overflow"),
        };
        let vs = fvs.as_volatile_slice();
        let same = vs.len() == fvs.len() && vs.ptr_guard().as_ptr() as usize == fvs.as_ptr() as usize && fvs.is_empty() == (size == 0);
        let r = if same { r } else { er("view-mismatch") };
        return format!("{{\"res\":{},\"mem\":[{}],\"ref_res\":{},\"ref_mem\":[]}}", r, arena_diffs(seed, &a1, off1, size), r);
    }
    let (r1, _) = bytes_call(&fvs, method, addr, count, &buf);
    // the reference: vm-memory's VolatileSlice over an identical arena
    let (mut a2, off2) = arena16(seed, size);
    let vs = unsafe { VolatileSlice::new(a2.as_mut_ptr().add(off2 + MARGIN), size) };
    let (r2, _) = bytes_call(&vs, method, addr, count, &buf);
    format!(
        "{{\"res\":{},\"mem\":[{}],\"ref_res\":{},\"ref_mem\":[{}]}}",
        r1,
        arena_diffs(seed, &a1, off1, size),
        r2,
        arena_diffs(seed, &a2, off2, size)
    )
}

// ---- FileReadWriteVolatile for File (and for &mut File): every method against POSIX semantics -------------
fn ft_call<F: FileReadWriteVolatile>(f: &mut F, method: &str, sl: &[FileVolatileSlice], off: u64) -> io::Result<usize> {
    let first = if sl.is_empty() { unsafe { FileVolatileSlice::from_raw_ptr(std::ptr::NonNull::<u8>::dangling().as_ptr(), 0) } } else { sl[0] };
    match method {
        "read_volatile" => f.read_volatile(first),
        "read_vectored_volatile" => f.read_vectored_volatile(sl),
        "read_exact_volatile" => f.read_exact_volatile(first).map(|_| 0),
        "write_volatile" => f.write_volatile(first),
        "write_vectored_volatile" => f.write_vectored_volatile(sl),
        "write_all_volatile" => f.write_all_volatile(first).map(|_| 0),
        "read_at_volatile" => f.read_at_volatile(first, off),
        "read_vectored_at_volatile" => f.read_vectored_at_volatile(sl, off),
        "read_exact_at_volatile" => f.read_exact_at_volatile(first, off).map(|_| 0),
        "write_at_volatile" => f.write_at_volatile(first, off),
        "write_vectored_at_volatile" => f.write_vectored_at_volatile(sl, off),
        "write_all_at_volatile" => f.write_all_at_volatile(first, off).map(|_| 0),
        m => panic!("ft method {}", m),
    }
}
fn ft_case(line: &str) -> String {
    let seed = num(kv(line, "seed"));
    let method = kv(line, "method");
    let content = unhex(kv(line, "content"));
    let pos = num(kv(line, "pos"));
    let off = num(kv(line, "off"));
    let lens: Vec<usize> = kv(line, "slices").split(',').filter(|x| !x.is_empty()).map(|x| num(x) as usize).collect();
    let mut file = memfd(&content);
    file.seek(SeekFrom::Start(pos)).unwrap();
    // one arena, slices 8 bytes apart, pattern filled
    let total: usize = lens.iter().sum::<usize>() + 8 * (lens.len() + 1);
    let mut arena: Vec<u8> = (0..total as u64).map(|o| pat(seed, BBASE + o)).collect();
    let mut offs = Vec::new();
    let mut o = 8usize;
    for l in &lens {
        offs.push(o);
        o += l + 8;
    }
    let sl: Vec<FileVolatileSlice> = offs.iter().zip(&lens).map(|(o, l)| unsafe { FileVolatileSlice::from_raw_ptr(arena.as_mut_ptr().add(*o), *l) }).collect();
    let r = if kv(line, "wrap") == "1" {
        let mut fr: &mut File = &mut file;
        ft_call(&mut fr, method, &sl, off)
    } else {
        ft_call(&mut file, method, &sl, off)
    };
    let res = match r {
        Ok(n) => format!("[\"ok\",{}]", n),
        Err(e) => er(&io_err(&e)),
    };
    let newpos = file.stream_position().unwrap();
    let fc = file_content(&mut file, 0);
    let slices: Vec<String> = offs.iter().zip(&lens).map(|(o, l)| format!("\"{}\"", hex(&arena[*o..*o + *l]))).collect();
    // gaps between the slices must still hold the pattern
    let mut canary = true;
    let mut covered = vec![false; total];
    for (o, l) in offs.iter().zip(&lens) {
        for k in *o..*o + *l {
            covered[k] = true;
        }
    }
    for k in 0..total {
        if !covered[k] && arena[k] != pat(seed, BBASE + k as u64) {
            canary = false;
        }
    }
    format!("{{\"res\":{},\"slices\":[{}],\"file\":\"{}\",\"pos\":{},\"canary\":{}}}", res, slices.join(","), hex(&fc), newpos, canary)
}

// ---- FileVolatileBuf / borrow_as_buf / from_mut_slice: plain bookkeeping views ---------------------------------
fn fvbuf_case(line: &str) -> String {
    use fuse_backend_rs::file_buf::FileVolatileBuf;
    let seed = num(kv(line, "seed"));
    let cap = num(kv(line, "size")) as usize;
    let init = num(kv(line, "addr")) as usize;
    let newsize = num(kv(line, "count")) as usize;
    let mut buf: Vec<u8> = (0..cap as u64).map(|o| pat(seed, BBASE + o)).collect();
    let r = catch_unwind(AssertUnwindSafe(|| {
        let a = unsafe { FileVolatileBuf::new(&mut buf) };
        let mut b = unsafe { FileVolatileBuf::new_with_data(&mut buf, init) };
        let c = unsafe { FileVolatileBuf::from_raw_ptr(buf.as_mut_ptr(), init, cap) };
        let head = b.io_slice().to_vec();
        let tail_len = b.io_slice_mut().len();
        unsafe { b.set_size(newsize) };
        let s = unsafe { FileVolatileSlice::from_mut_slice(&mut buf) };
        let bt = unsafe { s.borrow_as_buf(true) };
        let bf = unsafe { s.borrow_as_buf(false) };
        let nums = [a.len(), a.cap(), a.is_empty() as usize, c.len(), c.cap(), head.len(), tail_len, b.len(), s.len(), s.is_empty() as usize, bt.len(), bt.cap(), bf.len(), bf.cap(),
                    (c.io_slice_mut().as_ptr() as usize) - (buf.as_ptr() as usize)];
        let l: Vec<String> = nums.iter().map(|x| x.to_string()).collect();
        format!("[\"ok\",[{}],\"{}\"]", l.join(","), hex(&head))
    }));
    match r {
        Ok(s) => format!("{{\"res\":{}}}", s),
        Err(_) => "{\"res\":[\"panic\"]}".to_string(),
    }
}

// ---- fixed probes: Writer::Noop, Reader::default, flush, Clone ----------------------------------------------------
fn misc_case(_line: &str) -> String {
    let mut o: Vec<String> = Vec::new();
    let e = |r: io::Result<usize>| match r {
        Ok(n) => format!("ok{}", n),
        Err(e) => format!("err{}", e.raw_os_error().unwrap_or(-1)),
    };
    let mut nw: Writer<'_, ()> = Writer::Noop(std::marker::PhantomData);
    o.push(format!("\"noop_write\":\"{}\"", e(nw.write(&[1, 2]))));
    o.push(format!("\"noop_write_vectored\":\"{}\"", e(nw.write_vectored(&[IoSlice::new(&[1])]))));
    o.push(format!("\"noop_flush\":\"{}\"", e(nw.flush().map(|_| 0))));
    o.push(format!("\"noop_write_from_at\":\"{}\"", e(nw.write_from_at(&mut memfd(&[1, 2, 3]), 2, 0))));
    o.push(format!("\"noop_split\":\"{}\"", if nw.split_at(0).is_err() { "err" } else { "ok" }));
    o.push(format!("\"noop_avail\":{}", nw.available_bytes()));
    o.push(format!("\"noop_written\":{}", nw.bytes_written()));
    o.push(format!("\"noop_commit\":\"{}\"", e(nw.commit(None))));
    #[cfg(feature = "async-io")]
    {
        o.push(format!("\"noop_async_write\":\"{}\"", e(aio::block_on(nw.async_write(&[1])))));
        o.push(format!("\"noop_async_write2\":\"{}\"", e(aio::block_on(nw.async_write2(&[1], &[2])))));
        o.push(format!("\"noop_async_write3\":\"{}\"", e(aio::block_on(nw.async_write3(&[1], &[2], &[3])))));
        o.push(format!("\"noop_async_write_all\":\"{}\"", e(aio::block_on(nw.async_write_all(&[1])).map(|_| 0))));
        o.push(format!("\"noop_async_commit\":\"{}\"", e(aio::block_on(nw.async_commit(None)))));
        let af = aio::afile(None, vec![1, 2, 3], usize::MAX, false);
        o.push(format!("\"noop_async_write_from_at\":\"{}\"", e(aio::block_on(nw.async_write_from_at(&af, 2, 0)))));
    }
    let mut dr: Reader<'_, ()> = Reader::default();
    let mut b1 = [0u8; 1];
    o.push(format!("\"default_reader\":[{},{},\"{}\",\"{}\",\"{}\",\"{}\"]", dr.available_bytes(), dr.bytes_read(), e(dr.read(&mut b1)),
        if dr.read_exact(&mut b1).is_err() { "eof" } else { "ok" }, if dr.split_at(0).is_ok() { "ok" } else { "err" }, if dr.split_at(1).is_ok() { "ok" } else { "err" }));
    // Clone: independent cursors over the same memory
    let mut buf: Vec<u8> = (0..8u8).collect();
    let mut r1: Reader<'_, ()> = Reader::from_fuse_buffer(FuseBuf::new(&mut buf)).unwrap();
    let mut t = [0u8; 3];
    r1.read_exact(&mut t).unwrap();
    let mut r2 = r1.clone();
    let mut u = [0u8; 2];
    r1.read_exact(&mut u).unwrap();
    let mut v = [0u8; 4];
    r2.read_exact(&mut v).unwrap();
    o.push(format!("\"reader_clone\":[\"{}\",\"{}\",{},{},{},{}]", hex(&u), hex(&v), r1.available_bytes(), r1.bytes_read(), r2.available_bytes(), r2.bytes_read()));
    // flush on a real FuseDevWriter refuses; on VirtioFsWriter it is covered by the F op of the virtio cases
    let mut fb = vec![0u8; 8];
    let mut fw = FuseDevWriter::<()>::new(-1, &mut fb).unwrap();
    o.push(format!("\"fusedev_flush\":\"{}\"", if fw.flush().is_err() { "err" } else { "ok" }));
    format!("{{{}}}", o.join(","))
}

fn main() {
    let args: Vec<String> = std::env::args().collect();
    if args.len() < 3 {
        eprintln!("usage: transport virtio|fusedev|bytes <casefile>");
        std::process::exit(2);
    }
    std::panic::set_hook(Box::new(|_| {}));
    let text = std::fs::read_to_string(&args[2]).expect("case file");
    let stdout = io::stdout();
    let mut lock = stdout.lock();
    for line in text.lines() {
        if line.trim().is_empty() {
            continue;
        }
        let r = catch_unwind(AssertUnwindSafe(|| match args[1].as_str() {
            "virtio" => virtio_case(line),
            "fusedev" => fusedev_case(line),
            "bytes" => bytes_case(line),
            "server" => server_case(line),
            "ft" => ft_case(line),
            "fvbuf" => fvbuf_case(line),
            "misc" => misc_case(line),
            k => panic!("subcommand {}", k),
        }));
        match r {
            Ok(s) => writeln!(lock, "{}", s).unwrap(),
            Err(_) => writeln!(lock, "{{\"harness_panic\":true}}").unwrap(),
        }
    }
    let _ = std::io::stdout().as_raw_fd();
}
