// Prints what rustc actually lays out / evaluates for the ABI items the translator read.
// The list of items is generated (src/gen/abi_probe_gen.rs) from the translator's tables.
#![allow(unused_imports, clippy::all)]
use fuse_backend_rs::abi::fuse_abi::*;
use fuse_backend_rs::abi::virtio_fs::*;
use std::mem::{align_of, offset_of, size_of, size_of_val, zeroed};

fn stat_with(vals: &[(&str, u64)]) -> libc::stat64 {
    let mut st: libc::stat64 = unsafe { zeroed() };
    for (k, v) in vals {
        match *k {
            "st_ino" => st.st_ino = *v as _,
            "st_size" => st.st_size = *v as _,
            "st_blocks" => st.st_blocks = *v as _,
            "st_atime" => st.st_atime = *v as _,
            "st_mtime" => st.st_mtime = *v as _,
            "st_ctime" => st.st_ctime = *v as _,
            "st_atime_nsec" => st.st_atime_nsec = *v as _,
            "st_mtime_nsec" => st.st_mtime_nsec = *v as _,
            "st_ctime_nsec" => st.st_ctime_nsec = *v as _,
            "st_mode" => st.st_mode = *v as _,
            "st_nlink" => st.st_nlink = *v as _,
            "st_uid" => st.st_uid = *v as _,
            "st_gid" => st.st_gid = *v as _,
            "st_rdev" => st.st_rdev = *v as _,
            "st_blksize" => st.st_blksize = *v as _,
            _ => panic!("unknown stat field {}", k),
        }
    }
    st
}

fn print_stat(tag: &str, st: &libc::stat64) {
    println!(
        "{} st_ino={} st_size={} st_blocks={} st_atime={} st_mtime={} st_ctime={} st_atime_nsec={} st_mtime_nsec={} st_ctime_nsec={} st_mode={} st_nlink={} st_uid={} st_gid={} st_rdev={} st_blksize={}",
        tag, st.st_ino as u64, st.st_size as u64, st.st_blocks as u64, st.st_atime as u64, st.st_mtime as u64,
        st.st_ctime as u64, st.st_atime_nsec as u64, st.st_mtime_nsec as u64, st.st_ctime_nsec as u64,
        st.st_mode as u64, st.st_nlink as u64, st.st_uid as u64, st.st_gid as u64, st.st_rdev as u64,
        st.st_blksize as u64
    );
}

fn print_attr(tag: &str, a: &Attr) {
    println!(
        "{} ino={} size={} blocks={} atime={} mtime={} ctime={} atimensec={} mtimensec={} ctimensec={} mode={} nlink={} uid={} gid={} rdev={} blksize={} flags={}",
        tag, a.ino, a.size, a.blocks, a.atime, a.mtime, a.ctime, a.atimensec, a.mtimensec, a.ctimensec,
        a.mode, a.nlink, a.uid, a.gid, a.rdev, a.blksize, a.flags
    );
}

include!("../gen/abi_probe_gen.rs");

fn main() {
    gen_layout();
    gen_consts();
    // Opcode::from over a dense prefix and assorted large values
    let mut ns: Vec<u32> = (0u32..5000).collect();
    for k in 0..32 {
        for d in [-1i64, 0, 1] {
            let v = (1i64 << k) + d;
            if v >= 0 && v <= u32::MAX as i64 { ns.push(v as u32); }
        }
    }
    ns.extend_from_slice(&[u32::MAX, u32::MAX - 1, 436_207_616, 1_048_576, 4096]);
    for n in ns {
        println!("opfrom {} {}", n, Opcode::from(n) as u32);
    }
    // conversions on probe values: each stat field set to distinct boundary values
    let probes: [u64; 9] = [0, 1, 0x7fff_ffff, 0x8000_0000, 0xffff_ffff, 0x1_0000_0000, 0x7fff_ffff_ffff_ffff, 0x8000_0000_0000_0000, 0xffff_ffff_ffff_ffff];
    let fields = ["st_ino","st_size","st_blocks","st_atime","st_mtime","st_ctime","st_atime_nsec","st_mtime_nsec","st_ctime_nsec","st_mode","st_nlink","st_uid","st_gid","st_rdev","st_blksize"];
    for (pi, p) in probes.iter().enumerate() {
        // all fields pairwise distinct: p XOR (index * golden)
        let vals: Vec<(&str, u64)> = fields.iter().enumerate().map(|(i, f)| (*f, p ^ ((i as u64 + 1).wrapping_mul(0x0101_0101_0101_0101) & if pi == 0 {0} else {0x0f0f_0f0f_0f0f_0f0f}))).collect();
        let st = stat_with(&vals);
        print_stat(&format!("conv {} stat_in", pi), &st);
        let a = Attr::with_flags(st, 0xabcd_0000 + pi as u32);
        print_attr(&format!("conv {} attr_of_stat", pi), &a);
        let st2: libc::stat64 = a.into();
        print_stat(&format!("conv {} stat_of_attr", pi), &st2);
        let a2 = Attr::with_flags(st2, a.flags);
        print_attr(&format!("conv {} attr_roundtrip", pi), &a2);
        // twin entry points of the attribute conversion: From<stat64> for Attr (GETATTR / SETATTR replies) and
        // From<Entry> for EntryOut (LOOKUP / CREATE / MKNOD / READDIRPLUS ... replies)
        let a3: Attr = st.into();
        print_attr(&format!("conv {} attr_from_stat", pi), &a3);
        {
            use fuse_backend_rs::api::filesystem::Entry;
            use std::time::Duration;
            let e = Entry {
                inode: vals[1].1 ^ 0x5a5a,
                generation: vals[2].1 ^ 0xa5a5,
                attr: st,
                attr_flags: 0xabcd_0000 + pi as u32,
                attr_timeout: Duration::new(vals[3].1 ^ 0x33, (vals[4].1 % 1_000_000_000) as u32),
                entry_timeout: Duration::new(vals[5].1 ^ 0x77, (vals[6].1 % 999_999_937) as u32),
            };
            println!("conv {} entry_in inode={} generation={} attr_flags={} attr_timeout.secs={} attr_timeout.nsec={} entry_timeout.secs={} entry_timeout.nsec={}", pi,
                e.inode, e.generation, e.attr_flags, e.attr_timeout.as_secs(), e.attr_timeout.subsec_nanos(), e.entry_timeout.as_secs(), e.entry_timeout.subsec_nanos());
            let o: EntryOut = e.into();
            println!("conv {} entry_out nodeid={} generation={} entry_valid={} attr_valid={} entry_valid_nsec={} attr_valid_nsec={}", pi,
                o.nodeid, o.generation, o.entry_valid, o.attr_valid, o.entry_valid_nsec, o.attr_valid_nsec);
            print_attr(&format!("conv {} entry_out_attr", pi), &o.attr);
        }
        // the remaining From impls of the ABI files: FileLock both ways, Context from InHeader
        {
            use fuse_backend_rs::api::filesystem::{Context, FileLock as ApiLock};
            let w = FileLock { start: vals[0].1, end: vals[1].1, type_: vals[9].1 as u32, pid: vals[11].1 as u32 };
            let l: ApiLock = w.into();
            let w2: FileLock = l.into();
            println!("conv {} filelock in_start={} in_end={} in_type={} in_pid={} start={} end={} lock_type={} pid={} back_start={} back_end={} back_type={} back_pid={}", pi,
                w.start, w.end, w.type_, w.pid, l.start, l.end, l.lock_type, l.pid, w2.start, w2.end, w2.type_, w2.pid);
            let mut h: InHeader = unsafe { zeroed() };
            h.uid = vals[11].1 as u32; h.gid = vals[12].1 as u32; h.pid = vals[13].1 as u32;
            h.len = 40; h.opcode = 3; h.unique = vals[0].1; h.nodeid = vals[1].1;
            let c = Context::from(&h);
            println!("conv {} context in_uid={} in_gid={} in_pid={} uid={} gid={} pid={}", pi, h.uid, h.gid, h.pid, c.uid as u64, c.gid as u64, c.pid as u32 as u64);
        }
        // SetattrIn -> stat64
        let mut s: SetattrIn = unsafe { zeroed() };
        s.mode = a.mode; s.uid = a.uid; s.gid = a.gid; s.size = a.size; s.atime = a.atime; s.mtime = a.mtime;
        s.ctime = a.ctime; s.atimensec = a.atimensec; s.mtimensec = a.mtimensec; s.ctimensec = a.ctimensec;
        let st3: libc::stat64 = s.into();
        print_stat(&format!("conv {} stat_of_setattr", pi), &st3);
        // statvfs64 -> Kstatfs
        let mut sv: libc::statvfs64 = unsafe { zeroed() };
        sv.f_blocks = vals[0].1 as _; sv.f_bfree = vals[1].1 as _; sv.f_bavail = vals[2].1 as _; sv.f_files = vals[3].1 as _;
        sv.f_ffree = vals[4].1 as _; sv.f_bsize = vals[5].1 as _; sv.f_namemax = vals[6].1 as _; sv.f_frsize = vals[7].1 as _;
        println!("conv {} statvfs_in f_blocks={} f_bfree={} f_bavail={} f_files={} f_ffree={} f_bsize={} f_namemax={} f_frsize={}", pi,
            sv.f_blocks as u64, sv.f_bfree as u64, sv.f_bavail as u64, sv.f_files as u64, sv.f_ffree as u64, sv.f_bsize as u64, sv.f_namemax as u64, sv.f_frsize as u64);
        let k: Kstatfs = sv.into();
        println!("conv {} kstatfs blocks={} bfree={} bavail={} files={} ffree={} bsize={} namelen={} frsize={} padding={} spare={}", pi,
            k.blocks, k.bfree, k.bavail, k.files, k.ffree, k.bsize, k.namelen, k.frsize, k.padding, k.spare.iter().map(|x| *x as u64).sum::<u64>());
    }
}
