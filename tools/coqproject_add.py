#!/usr/bin/env python3
"""Append .v files to coq/_CoqProject (under a lock, no duplicates): tools/coqproject_add.py Model/X.v Proofs/X.v Props/C04.v"""
import sys, os, fcntl
ROOT = os.path.dirname(os.path.dirname(os.path.abspath(__file__)))
p = os.path.join(ROOT, 'coq/_CoqProject')
with open(p, 'r+') as f:
    fcntl.flock(f, fcntl.LOCK_EX)
    lines = f.read().split('\n')
    have = set(l.strip() for l in lines)
    add = [a for a in sys.argv[1:] if a not in have]
    if add:
        f.seek(0); f.write('\n'.join([l for l in lines if l.strip()] + add) + '\n'); f.truncate()
print('added', add)
