#!/usr/bin/env python3
"""setup: build what the registered checks need (their Props/*.vo cones and harness bins)."""
import os, sys, json, glob
ROOT = os.path.dirname(os.path.dirname(os.path.abspath(__file__)))
sys.path.insert(0, os.path.join(ROOT, 'lib')); sys.path.insert(0, os.path.join(ROOT, 'props')); sys.path.insert(0, os.path.join(ROOT, 'translator'))
from vlib import *
import gen_all
for e in gen_all.generate_all(): log('translator:', e)
targets = []; bins = set(); feats = {}
for f in sorted(glob.glob(os.path.join(ROOT, 'manifest.d', 'C*.json'))):
    c = json.load(open(f))
    targets.append('Props/%s.vo' % c['property_id'])
    for b in c.get('_bins', []): feats.setdefault(tuple(c.get('_features', [])), set()).add(b)
ok, out = coq_make(targets, timeout=3000)
log(out[-3000:])
rc = 0 if ok else 1
for fs, bs in feats.items():
    ok, out, _ = cargo_build(sorted(bs), list(fs) or None)
    log(out[-2000:])
    if not ok: rc = 1
sys.exit(rc)
