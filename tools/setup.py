#!/usr/bin/env python3
import os, sys
ROOT = os.path.dirname(os.path.dirname(os.path.abspath(__file__)))
sys.path.insert(0, os.path.join(ROOT, 'lib')); sys.path.insert(0, os.path.join(ROOT, 'props')); sys.path.insert(0, os.path.join(ROOT, 'translator'))
from vlib import *
import gen_all
errs = gen_all.generate_all()
for e in errs: log('translator:', e)
ok, out = coq_make([], timeout=3000)
log(out[-3000:])
if not ok: sys.exit(1)
ok, out, _ = cargo_build()
log(out[-3000:])
sys.exit(0 if ok else 1)
