#!/usr/bin/env python3
"""setup: build what the registered checks need (their Props/*.vo cones and harness bins)."""
import os, sys, json, glob
ROOT = os.path.dirname(os.path.dirname(os.path.abspath(__file__)))
sys.path.insert(0, os.path.join(ROOT, 'lib')); sys.path.insert(0, os.path.join(ROOT, 'props')); sys.path.insert(0, os.path.join(ROOT, 'translator'))
from vlib import *
import gen_all
for e in gen_all.generate_all(): log('translator:', e)
targets = ['Lib/Hex.vo']; bins = set(); feats = {}
for f in sorted(glob.glob(os.path.join(ROOT, 'manifest.d', 'C*.json'))):
    c = json.load(open(f))
    targets.append('Props/%s.vo' % c['property_id'])
    for b in c.get('_bins', []): feats.setdefault(tuple(c.get('_features', [])), set()).add(b)
# -k: a property whose cone does not build must not stop the others from being prepared;
# its own check rebuilds the cone and reports the broken obligation itself
ok, out = coq_make(['-k'] + targets, timeout=3000)
log(out[-3000:])
if not ok: log('setup: some Coq targets failed to build (their checks will report it)')
rc = 0
for fs, bs in feats.items():
    ok, out, _ = cargo_build(sorted(bs), list(fs) or None)
    log(out[-2000:])
    if not ok:
        # retry bin by bin so that one broken harness bin does not leave the others unbuilt
        for b in sorted(bs):
            ok1, out1, _ = cargo_build([b], list(fs) or None)
            if not ok1: log('setup: harness bin %s failed to build (its check will report it)' % b)
sys.exit(rc)
