#!/usr/bin/env python3
"""Print the markdown tables of DESIGN.md section 8 from seeded/*/meta.json and known_findings.json."""
import json, glob, os
ROOT = os.path.dirname(os.path.dirname(os.path.abspath(__file__)))
print('| property | seeded change (by an independent sub-agent that saw only the property text) | needs to manifest | result of our check(s) |')
print('|---|---|---|---|')
for d in sorted(glob.glob(os.path.join(ROOT, 'seeded', 'C*'))):
    try: m = json.load(open(os.path.join(d, 'meta.json')))
    except Exception: continue
    r = m.get('confirmed_by_lead', {})
    res = []
    for c, v in (r.get('checks') or {}).items():
        if v.get('violation_lines'):
            nf = 'no-failing-input-found' in v['violation_lines'][0]
            ff = v.get('first_failing') or {}
            what = (ff.get('what') if isinstance(ff, dict) else '') or ''
            res.append('%s: VIOLATION%s — %s' % (c, ' (no concrete input)' if nf else '', what[:110].replace('|', '/')))
        else: res.append('%s: not caught' % c)
    note = m.get('lead_note', '')
    if note: note = '— ' + note[:420]
    print('| %s | %s | %s | %s %s |' % (os.path.basename(d), (m.get('what_changed') or '')[:200].replace('|', '/').replace('\n', ' '),
          (m.get('needs_to_manifest') or '')[:140].replace('|', '/').replace('\n', ' '), '; '.join(res), note))
print()
print('| property | status | finding |')
print('|---|---|---|')
for k in json.load(open(os.path.join(ROOT, 'known_findings.json'))):
    print('| %s | %s%s | %s |' % (k['property'], k['status'], (' ' + k.get('commit', '')) if k.get('commit') else '', k['what'][:300].replace('|', '/')))
