#!/usr/bin/env python3
"""Print the markdown tables of DESIGN.md section 8 from seeded/*/meta.json and known_findings.json.
With --section8: print the whole section (prose parts from tools/design/sec8_*.md + the generated tables);
with --write: replace section 8 of DESIGN.md by it."""
import json, glob, os, sys
ROOT = os.path.dirname(os.path.dirname(os.path.abspath(__file__)))
def part(n): return open(os.path.join(ROOT, 'tools', 'design', n)).read()
seeds = ['| tag | seeded change (by an independent sub-agent that saw only the property text) | needs to manifest | result of our check(s) |', '|---|---|---|---|']
for d in sorted(glob.glob(os.path.join(ROOT, 'seeded', 'C*'))):
    try: m = json.load(open(os.path.join(d, 'meta.json')))
    except Exception: continue
    r = m.get('confirmed_by_lead', {})
    res = []
    for c, v in (r.get('checks') or {}).items():
        if v.get('violation_lines'):
            nf = 'no-failing-input-found' in v['violation_lines'][0]
            ff = v.get('first_failing') or {}
            what = (ff.get('what') if isinstance(ff, dict) else '') or ''
            res.append('%s: VIOLATION%s — %s' % (c, ' (no concrete input)' if nf else '', what[:110].replace('|', '/')))
        else: res.append('%s: not caught' % c)
    note = m.get('lead_note', '')
    if note: note = '— ' + note[:420]
    seeds.append('| %s | %s | %s | %s %s |' % (os.path.basename(d), (m.get('what_changed') or '')[:200].replace('|', '/').replace('\n', ' '),
                 (m.get('needs_to_manifest') or '')[:140].replace('|', '/').replace('\n', ' '), '; '.join(res), note.replace('|', '/')))
finds = ['| property | status | finding |', '|---|---|---|']
for k in json.load(open(os.path.join(ROOT, 'known_findings.json'))):
    finds.append('| %s | %s%s | %s |' % (k['property'], k['status'], (' ' + k.get('commit', '')[:7]) if k.get('commit') else '', k['what'][:300].replace('|', '/').replace('\n', ' ')))
if '--section8' in sys.argv or '--write' in sys.argv:
    out = '\n'.join([part('sec8_head.md'), part('sec8_findings.md'), '\n'.join(finds), part('sec8_why.md'), part('sec8_seeds.md'), '\n'.join(seeds), part('sec8_tail.md')])
    if '--write' in sys.argv:
        p = os.path.join(ROOT, 'DESIGN.md'); s = open(p).read()
        i = s.index('## 8. Status as built')
        open(p, 'w').write(s[:i] + out)
        print('DESIGN.md section 8 rewritten (%d chars)' % len(out))
    else: print(out)
else:
    print('\n'.join(seeds)); print(); print('\n'.join(finds))
