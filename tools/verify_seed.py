#!/usr/bin/env python3
"""tools/verify_seed.py <Cxx> [check ids...]: confirm a seeded change produced by an independent sub-agent
(worktree /tmp/seed-<id>-wt, deliverables /tmp/seed-<id>-out) and run our check(s) against it.
Writes /verif/seeded/<id>/{patch.diff, demo/, meta.json}."""
import os, sys, json, subprocess, shutil, re, time
pid = sys.argv[1]; checks = sys.argv[2:] or [pid]
tag = sys.argv[1] if not os.environ.get('SEED_TAG') else os.environ['SEED_TAG']
orig_wt = '/tmp/seed-%s-wt' % tag; out = '/tmp/seed-%s-out' % tag
# verify on a FRESH worktree of /repo's current HEAD (the agent's worktree may predate later fix: commits)
wt = '/tmp/seedv-%s-wt' % tag
subprocess.run('git -C /repo worktree remove --force %s 2>/dev/null; rm -rf %s; git -C /repo worktree add -q --detach %s HEAD' % (wt, wt, wt), shell=True)
for root, ds, fs in os.walk(orig_wt):
    if '/target' in root or '/.git' in root: continue
    for f in fs:
        if f.startswith('seeded_demo'):
            rel = os.path.relpath(os.path.join(root, f), orig_wt); os.makedirs(os.path.dirname(os.path.join(wt, rel)), exist_ok=True); shutil.copy(os.path.join(root, f), os.path.join(wt, rel))
# the demonstration file itself (all demos are tests/seeded_demo.rs): take it from the deliverables if the agent's worktree is gone
if not os.path.exists(out) and os.path.isdir('/verif/seeded/%s' % tag):
    shutil.copytree('/verif/seeded/%s' % tag, out)
for _f in sorted(os.listdir(os.path.join(out, 'demo'))):
    if _f.startswith('seeded_demo') and not os.path.exists(os.path.join(wt, 'tests', _f)):
        os.makedirs(os.path.join(wt, 'tests'), exist_ok=True); shutil.copy(os.path.join(out, 'demo', _f), os.path.join(wt, 'tests', _f))
def sh(cmd, cwd=None, timeout=3600):
    p = subprocess.run(cmd, shell=True, cwd=cwd, stdout=subprocess.PIPE, stderr=subprocess.STDOUT, text=True, timeout=timeout)
    return p.returncode, p.stdout
res = {'property': pid, 'ran': []}
patch = os.path.join(out, 'patch.diff')
# normalise: worktree = HEAD + patch (source only)
sh('git checkout -- src', cwd=wt)
rc, o = sh('git apply %s' % patch, cwd=wt); res['patch_applies'] = rc == 0
if rc != 0 and os.path.exists('/verif/seeded/%s/patch-rebased.diff' % tag):
    # the agent's worktree predates a later hook/fix commit touching the same lines: use the rebased patch (same change)
    patch = '/verif/seeded/%s/patch-rebased.diff' % tag
    rc, o = sh('git apply %s' % patch, cwd=wt); res['patch_applies'] = rc == 0; res['used_rebased_patch'] = True
# run the agent's run.sh as a script (from the worktree root), with its worktree path replaced by the fresh one
_rs = open(os.path.join(out, 'demo/run.sh')).read().replace(orig_wt, wt)
_tmp = os.path.join(out, 'demo', 'run_fresh.sh'); open(_tmp, 'w').write(_rs)
runsh = 'cd %s && %s bash %s' % (wt, os.environ.get('SEED_DEMO_ENV', ''), _tmp)
res['demo_cmd'] = runsh
rc, o = sh('cargo build --offline -j6 2>&1 | tail -3', cwd=wt); res['builds_with_change'] = 'error' not in o
rc, o = sh('cargo test --workspace --no-fail-fast --offline -j6 -- --test-threads 4 2>&1 | grep -E "^test result|FAILED|panicked" | head -20', cwd=wt)
tests_in_demo = os.path.exists(os.path.join(wt, 'tests/seeded_demo.rs'))
res['suite_with_change'] = o
m = re.search(r'test result: \w+\. (\d+) passed; (\d+) failed', o)
res['baseline_134_pass_with_change'] = bool(m and int(m.group(1)) >= 134 and int(m.group(2)) == 0)
res['ran'].append('cargo test --workspace --no-fail-fast --offline (with change)')
rc1, o1 = sh(runsh + ' 2>&1 | tail -25', timeout=3600)
res['demo_with_change_tail'] = o1[-1500:]; res['demo_ran'] = 'no test target' not in o1 and ('test result:' in o1 or 'panicked' in o1)
res['demo_fails_with_change'] = res['demo_ran'] and ('test result: FAILED' in o1 or 'panicked' in o1) and 'test result: ok' not in o1.split('Running')[-1]
sh('git apply -R %s' % patch, cwd=wt)
rc2, o2 = sh(runsh + ' 2>&1 | tail -15', timeout=3600)
res['demo_without_change_tail'] = o2[-800:]; res['demo_passes_without_change'] = 'test result: ok' in o2 and 'FAILED' not in o2 and 'no test target' not in o2
sh('git apply %s' % patch, cwd=wt)
res['ran'] += [runsh + ' (with change: must fail)', runsh + ' (without change: must pass)']
# our checks: only the source change is in play (remove demo files from the worktree view: they are untracked, harmless)
res['checks'] = {}
_prev = {}
try: _prev = json.load(open('/verif/seeded/%s/meta.json' % tag)).get('confirmed_by_lead', {}).get('checks', {})
except Exception: pass
if os.environ.get('SEED_DEMO_ONLY'):
    res['checks'] = _prev; checks = []
elif os.environ.get('SEED_KEEP_OTHER_CHECKS'):
    res['checks'] = {k: v for k, v in _prev.items() if k not in checks}
for c in checks:
    t = time.time()
    rc, o = sh('VERIF_REPO=%s ./check %s 2>&1 | tail -5' % (wt, c), cwd='/verif', timeout=5400)
    viol = [l for l in o.split('\n') if l.startswith('VIOLATION')]
    res['checks'][c] = {'violation_lines': viol, 'tail': o[-600:], 'wall_s': round(time.time() - t)}
    res['ran'].append('VERIF_REPO=%s ./check %s' % (wt, c))
    for v in viol:
        mm = re.search(r'replay=(\S+)', v)
        if mm and os.path.exists(mm.group(1)):
            d = json.load(open(mm.group(1)))
            res['checks'][c]['replay_kind'] = d.get('kind'); res['checks'][c]['first_failing'] = (d.get('failing') or d.get('broken') or [None])[0]
dst = '/verif/seeded/%s' % tag
os.makedirs(dst, exist_ok=True)
shutil.copy(os.path.join(out, 'patch.diff'), os.path.join(dst, 'patch.diff'))
shutil.rmtree(os.path.join(dst, 'demo'), ignore_errors=True); shutil.copytree(os.path.join(out, 'demo'), os.path.join(dst, 'demo'))
agent_meta = json.load(open(os.path.join(out, 'meta.json'))) if os.path.exists(os.path.join(out, 'meta.json')) else {}
_old = {}
try: _old = json.load(open(os.path.join(dst, 'meta.json')))
except Exception: pass
meta = {'lead_note': _old.get('lead_note', ''), 'breaks_property': pid, 'author': 'independent sub-agent given only the property text and a scratch worktree',
        'what_changed': agent_meta.get('what_changed'), 'why_it_breaks_the_property': agent_meta.get('why_it_breaks_the_property'),
        'needs_to_manifest': agent_meta.get('what_it_needs_to_manifest'), 'confirmed_by_lead': res}
def trim(x):
    if isinstance(x, str) and len(x) > 3000: return x[:300] + '...(%d chars)' % len(x)
    if isinstance(x, list): return [trim(i) for i in x]
    if isinstance(x, dict): return {k: trim(v) for k, v in x.items()}
    return x
json.dump(trim(meta), open(os.path.join(dst, 'meta.json'), 'w'), indent=1, default=str)
subprocess.run('git -C /repo worktree remove --force %s' % wt, shell=True)
import hashlib
shutil.rmtree('/verif/.cache/alt-' + hashlib.sha1(os.path.abspath(wt).encode()).hexdigest()[:8], ignore_errors=True)
print(json.dumps({k: v for k, v in res.items() if k not in ('suite_with_change', 'demo_with_change_tail', 'demo_without_change_tail')}, indent=1, default=str)[:3000])
