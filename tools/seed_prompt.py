#!/usr/bin/env python3
"""tools/seed_prompt.py <Cxx> <suffix>  — prepare a scratch worktree /tmp/seed-<Cxx><suffix>-wt of /repo HEAD and
print the prompt for an independent seeding sub-agent (which gets ONLY the property text, the worktree, and a
one-line description of earlier seeded changes for the same property so that it picks a different mechanism).
Nothing from /verif is given to the agent."""
import sys, os, json, subprocess, glob
pid, suf = sys.argv[1], sys.argv[2]
tag = pid + suf
wt, out = '/tmp/seed-%s-wt' % tag, '/tmp/seed-%s-out' % tag
props = {json.loads(l)['id']: json.loads(l) for l in open('/verif/properties.jsonl') if l.strip()}
p = props[pid]
subprocess.run('git -C /repo worktree remove --force %s 2>/dev/null; rm -rf %s %s; git -C /repo worktree add -q --detach %s HEAD; mkdir -p %s/demo' % (wt, wt, out, wt, out), shell=True, check=True)
earlier = []
for d in sorted(glob.glob('/verif/seeded/%s*' % pid)):
    try:
        m = json.load(open(d + '/meta.json'))
        earlier.append('- ' + str(m.get('what_changed', ''))[:260].replace('\n', ' '))
    except Exception:
        pass
TMPL = open(os.path.join(os.path.dirname(os.path.abspath(__file__)), 'seed_prompt.txt')).read()
txt = (TMPL.replace('@@WT@@', wt).replace('@@OUT@@', out).replace('@@TITLE@@', p['title']).replace('@@STATEMENT@@', p['statement'])
       .replace('@@QUANT@@', p['quantifier']['text']).replace('@@EARLIER@@', '\n'.join(earlier) if earlier else '- (none)'))
txt += '\nAlso note: if `cargo test` reports `test_new_channel` failing with EPERM, that is an artefact of running with stdout redirected to a regular file (epoll); run the tests with output to a pipe/tty.\n' if 'test_new_channel' not in txt else ''
open('/tmp/seed-%s-prompt.txt' % tag, 'w').write(txt)
print(txt)
