#!/usr/bin/env python3
"""tools/soak.py [--tier quick|thorough] [--seeds 2,3,4] [ids...]: run registered checks on the unchanged tree with several
seeds and report every run that exits non-zero or prints VIOLATION (such a run is either a genuine finding or a false
alarm to be repaired).  Evidence files are rewritten by each run; finish with a default-seed run (./check Cxx) before committing."""
import sys, subprocess, time, json, os
args = sys.argv[1:]; tier = 'quick'; seeds = [2, 3, 4]
if '--tier' in args: i = args.index('--tier'); tier = args[i + 1]; del args[i:i + 2]
if '--seeds' in args: i = args.index('--seeds'); seeds = [int(x) for x in args[i + 1].split(',')]; del args[i:i + 2]
ids = args or ['C%02d' % i for i in range(1, 21)]
os.chdir(os.path.join(os.path.dirname(os.path.abspath(__file__)), '..'))
bad = []
for s in seeds:
    for c in ids:
        t = time.time()
        p = subprocess.run(['./check', c, '--tier', tier, '--seed', str(s)], stdout=subprocess.PIPE, stderr=subprocess.STDOUT, text=True)
        viol = [l for l in p.stdout.split('\n') if l.startswith('VIOLATION')]
        st = 'ok' if p.returncode == 0 and not viol else 'ALARM'
        print('%s seed=%d tier=%s rc=%d %ds %s' % (c, s, tier, p.returncode, time.time() - t, st), flush=True)
        if st != 'ok':
            bad.append((c, s)); print(p.stdout[-3000:], flush=True)
print('ALARMS:', bad)
