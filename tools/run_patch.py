#!/usr/bin/env python3
"""tools/run_patch.py <patch.diff> <tag> <check ids...>: apply a patch to a fresh scratch worktree of /repo HEAD and run the
named checks against it (alternate-repo mode); print one line per check: ok / VIOLATION (+ whether a concrete input was found).
Used for seeded changes (must alarm) and for behaviour-preserving refactorings (should not alarm)."""
import sys, os, subprocess, hashlib, shutil, json, re, time
patch, tag, checks = sys.argv[1], sys.argv[2], sys.argv[3:]
wt = '/tmp/runpatch-%s-wt' % tag
subprocess.run('git -C /repo worktree remove --force %s 2>/dev/null; rm -rf %s; git -C /repo worktree add -q --detach %s HEAD' % (wt, wt, wt), shell=True, check=True)
r = subprocess.run(['git', '-C', wt, 'apply', patch])
if r.returncode != 0:
    print(tag, 'PATCH DOES NOT APPLY'); sys.exit(2)
alt = '/verif/.cache/alt-' + hashlib.sha1(os.path.abspath(wt).encode()).hexdigest()[:8]
for c in checks:
    t = time.time()
    p = subprocess.run('VERIF_REPO=%s ./check %s' % (wt, c), shell=True, cwd='/verif', stdout=subprocess.PIPE, stderr=subprocess.STDOUT, text=True)
    viol = [l for l in p.stdout.split('\n') if l.startswith('VIOLATION')]
    what = ''
    for v in viol:
        m = re.search(r'replay=(\S+)', v)
        if m and os.path.exists(m.group(1)):
            d = json.load(open(m.group(1)))
            ff = (d.get('failing') or [None])[0]; bb = (d.get('broken_obligations') or d.get('broken') or [None])[0]
            what = json.dumps(ff.get('what') if isinstance(ff, dict) else bb, default=str)[:600]
    print('%s %s rc=%d %ds %s %s' % (tag, c, p.returncode, time.time() - t, 'ALARM ' + ('(no input) ' if viol and 'no-failing-input-found' in viol[0] else '(concrete) ') if viol or p.returncode else 'ok', what), flush=True)
subprocess.run('git -C /repo worktree remove --force %s' % wt, shell=True)
shutil.rmtree(alt, ignore_errors=True)
