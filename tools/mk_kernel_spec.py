#!/usr/bin/env python3
"""One-off transcription helper: reads the installed uapi headers and writes
spec/kernel_abi.json (committed).  The check never runs this; the check runs
the C probe (tools/cprobe.py) which re-derives sizes/offsets/values with gcc
and compares them with the committed JSON.  Items newer than the installed
header (7.38) are appended by hand at the bottom with their upstream values."""
import re, json, sys
def strip_comments(s):
    s = re.sub(r'/\*.*?\*/', '', s, flags=re.S)
    s = re.sub(r'//[^\n]*', '', s)
    return s
def parse(path):
    s = strip_comments(open(path).read())
    structs = {}
    for m in re.finditer(r'struct\s+(\w+)\s*\{(.*?)\};', s, flags=re.S):
        name, body = m.group(1), m.group(2)
        fields = []
        for line in body.split(';'):
            line = ' '.join(line.split())
            if not line: continue
            mm = re.match(r'(struct\s+\w+|\w+)\s+(\w+)(\[(\w*)\])?$', line)
            if not mm: raise SystemExit('cannot parse field %r in %s' % (line, name))
            t, f, arr = mm.group(1), mm.group(2), mm.group(4)
            t = t.replace('struct ', 'struct:')
            t = {'__le64':'uint64_t','__le32':'uint32_t','__u8':'uint8_t'}.get(t,t)
            fields.append([f, t, None if mm.group(3) is None else (0 if arr=='' else int(arr))])
        structs[name] = fields
    consts = {}
    for m in re.finditer(r'^#define\s+(\w+)[ \t]+(.+)$', s, flags=re.M):
        n, v = m.group(1), m.group(2).strip()
        if n.startswith('_'): continue
        v2 = re.sub(r'(\d)(ULL|UL|U|LL|L)\b', r'\1', v, flags=re.I)
        try:
            consts[n] = int(eval(v2, {"__builtins__": {}}, dict(consts)))
        except Exception:
            pass
    enums = {}
    for m in re.finditer(r'enum\s+(\w+)\s*\{(.*?)\};', s, flags=re.S):
        cur = -1; d = {}
        for item in m.group(2).split(','):
            item = item.strip()
            if not item: continue
            if '=' in item:
                k, v = [x.strip() for x in item.split('=')]
                cur = int(eval(v, {"__builtins__": {}}, dict(d)))
            else:
                k = item; cur += 1
            d[k] = cur
        enums[m.group(1)] = d
    return structs, consts, enums
s1, c1, e1 = parse('/usr/include/linux/fuse.h')
s2, c2, e2 = parse('/usr/include/linux/virtio_fs.h')
out = {
 "source": "include/uapi/linux/fuse.h 7.38 and virtio_fs.h as installed under /usr/include/linux; later additions listed under 'newer'",
 "structs": {**s1, **s2}, "consts": {**c1, **c2}, "enums": {**e1, **e2},
 # upstream values newer than the installed header (fuse.h 7.40/7.41): hand transcription
 "newer": {
   "consts": {"FUSE_HAS_RESEND": 1 << 39, "FUSE_PASSTHROUGH": 1 << 37},
   "enums": {"fuse_notify_code": {"FUSE_NOTIFY_RESEND": 7, "FUSE_NOTIFY_CODE_MAX": 8}}
 }
}
json.dump(out, open('/verif/spec/kernel_abi.json','w'), indent=1, sort_keys=True)
print(len(out['structs']), 'structs', len(out['consts']), 'consts')
