#!/usr/bin/env python3
"""Assemble MANIFEST.json from manifest.d/Cxx.json (one finished check each) and
known_findings.json from known_findings.d/*.json.  Keys starting with '_' in a
manifest.d entry are private to our tooling (bins/features to build) and are dropped."""
import json, os, glob, subprocess
ROOT = os.path.dirname(os.path.dirname(os.path.abspath(__file__)))
props = [json.loads(l) for l in open(os.path.join(ROOT, 'properties.jsonl'))]
checks = []
for p in props:
    f = os.path.join(ROOT, 'manifest.d', p['id'] + '.json')
    if os.path.exists(f):
        c = json.load(open(f))
        checks.append({k: v for k, v in c.items() if not k.startswith('_')})
claimed = [c['property_id'] for c in checks]
na_reasons = {}
f = os.path.join(ROOT, 'manifest.d', 'not_applicable.json')
if os.path.exists(f): na_reasons = json.load(open(f))
hooks_commits = []
try:
    out = subprocess.run(['git', '-C', '/repo', 'log', '--format=%H %s'], capture_output=True, text=True).stdout
    hooks_commits = [l.split()[0] for l in out.splitlines() if ' verif-hook' in l]
except Exception:
    pass
man = {
 "version": 1, "setup_cmd": "./setup",
 "hooks": {"guard": "--cfg fuse_backend_rs_verif",
           "enable": "RUSTFLAGS=\"--cfg fuse_backend_rs_verif\" (set by lib/vlib.py cargo_build when it builds /verif/harness, which depends on /repo by path)",
           "baseline_off_cmd": "cd /repo && cargo test --workspace --no-fail-fast --offline",
           "source_commits": hooks_commits, "add_only": True},
 "engines": [{"name": "coq-proof+translators+correspondence", "path": "/verif/check", "serves_properties": claimed,
              "kind_free_text": "Coq 8.16 theorems over models; models tied to /repo by translators (coq/Gen regenerated each run) and by differential correspondence against a Rust harness built from /repo's working tree"}],
 "checks": checks,
 "not_applicable": [{"property_id": p['id'], "reason": na_reasons.get(p['id'], "no check registered yet in this round: machinery under construction (see DESIGN.md section 7)")}
                    for p in props if p['id'] not in claimed],
 "notes": "see DESIGN.md; per-property notes in notes/Cxx.md"
}
json.dump(man, open(os.path.join(ROOT, 'MANIFEST.json'), 'w'), indent=1)
kf = []
for f in sorted(glob.glob(os.path.join(ROOT, 'known_findings.d', '*.json'))):
    kf += json.load(open(f))
json.dump(kf, open(os.path.join(ROOT, 'known_findings.json'), 'w'), indent=1)
print('claimed:', claimed, 'known findings:', len(kf))
