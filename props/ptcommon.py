"""Shared by c08.py / c15.py: history generator for the passthrough tables harness (ptables),
runner, and encoders of an observed run into Coq terms for Model/Inodes.v / Model/Handles.v."""
import os, json, stat, random
from vlib import *

MODES4 = [(0, 0), (1, 0), (0, 1), (1, 1)]          # (inode_file_handles, use_host_ino)

INIT_TREE = ['mk dir d1', 'mk dir d2', 'mk dir d1/sub', 'mk file d1/a', 'mk hlink d1/a d1/b', 'mk hlink d1/a d2/c',
             'mk file f', 'mk file d2/g', 'mk fifo p', 'mk sym f s', 'mk file d1/sub/x', 'mk fifo d2/q']

class Node:
    def __init__(self, kind): self.kind = kind; self.ch = {} if kind == 'dir' else None

def init_shadow():
    root = Node('dir')
    def put(path, node):
        d = root
        parts = path.split('/')
        for p in parts[:-1]: d = d.ch[p]
        d.ch[parts[-1]] = node
    def get(path):
        d = root
        for p in path.split('/'): d = d.ch[p]
        return d
    for l in INIT_TREE:
        w = l.split()
        if w[1] == 'dir': put(w[2], Node('dir'))
        elif w[1] == 'file': put(w[2], Node('file'))
        elif w[1] == 'hlink': put(w[3], get(w[2]))
        elif w[1] == 'fifo': put(w[2], Node('fifo'))
        elif w[1] == 'sym': put(w[3], Node('sym'))
    return root

class Gen:
    """Generates one history (list of script lines).  Keeps an optimistic shadow of the namespace
    only to choose plausible names; nothing depends on the shadow being right."""
    def __init__(self, rnd, no_open=0, no_opendir=0, profile='c08'):
        self.r = rnd; self.no_open = no_open; self.no_opendir = no_opendir; self.profile = profile
        self.root = init_shadow()
        self.reg = {0: self.root}          # register -> shadow node it is believed to denote
        self.cnt = {}                      # register -> believed references held through it (for forget counts)
        self.nreg = 1; self.nh = 0
        self.hreg = {}                     # handle register -> (inode register, 'dir'|'file')
        self.lines = []
        self.fresh = 0
        self.block_base = 0; self.blocks = 0
    def newname(self):
        self.fresh += 1; return 'n%d' % self.fresh
    def dreg(self):
        ds = [k for k, n in self.reg.items() if n is not None and n.kind == 'dir']
        return self.r.choice(ds) if ds and self.r.random() < 0.93 else self.r.choice(list(self.reg) + [self.nreg + 3])
    def anyreg(self, nonroot=False):
        ks = [k for k in self.reg if not (nonroot and k == 0)]
        return self.r.choice(ks) if ks and self.r.random() < 0.95 else self.nreg + 5
    def alloc(self, node):
        # reuse a register sometimes so that registers get overwritten
        k = self.nreg; self.nreg += 1
        self.reg[k] = node; self.cnt[k] = 1
        return k
    def name_in(self, d, kinds=None):
        n = self.reg.get(d)
        if n is None or n.kind != 'dir' or not n.ch: return None
        names = [x for x, c in n.ch.items() if kinds is None or c.kind in kinds]
        return self.r.choice(names) if names else None
    def emit(self, l): self.lines.append(l)
    # ---- operations
    def op_lookup(self):
        d = self.dreg(); u = self.r.random()
        nm = self.name_in(d)
        if u < 0.08 or nm is None: nm = self.r.choice(['nope', '.', 'zz'])
        elif u < 0.12: nm = '.'
        elif u < 0.15 and d != 0: nm = '..'
        node = None
        dn = self.reg.get(d)
        if dn is not None and dn.kind == 'dir':
            node = dn if nm == '.' else dn.ch.get(nm)
        k = self.alloc(node)
        self.emit('lookup %d %d %s' % (k, d, nm))
    def op_forget(self):
        u = self.r.random()
        if u < 0.07: self.emit('forget 0 %d' % self.r.choice([1, 2, 5])); return
        k = self.anyreg(nonroot=True)
        c = self.r.choice([1, 1, 1, 2, self.cnt.get(k, 1), 3, 1000, 18446744073709551615])
        self.emit('forget %d %d' % (k, c))
    def op_bforget(self):
        """BATCH_FORGET shapes (shared by the C08 and C15 generators): the root (never forgotten) first / in the middle /
        last / alone, the same inode several times in one batch, count 0, count above what is held, the empty batch"""
        def ent(): return '%d:%d' % (self.anyreg(nonroot=True), self.r.choice([1, 1, 2, 7, 0, 1000]))
        shape = self.r.choice(['plain', 'plain', 'rootfirst', 'rootmid', 'rootlast', 'rootonly', 'dup', 'zero', 'over', 'empty'])
        n = self.r.randint(1, 4)
        es = [ent() for _ in range(n)]
        root = '0:%d' % self.r.choice([1, 2, 5])
        if shape == 'rootfirst': es = [root] + es
        elif shape == 'rootmid': es = es[:max(1, n // 2)] + [root] + (es[max(1, n // 2):] or [ent()])
        elif shape == 'rootlast': es = es + [root]
        elif shape == 'rootonly': es = [root]
        elif shape == 'dup':
            k = self.anyreg(nonroot=True); es = ['%d:1' % k, ent(), '%d:1' % k, '%d:%d' % (k, self.r.choice([1, 3]))]
        elif shape == 'zero': es = ['%d:0' % self.anyreg(nonroot=True)] + es
        elif shape == 'over': es = ['%d:%d' % (self.anyreg(nonroot=True), self.r.choice([1000, 18446744073709551615]))] + es
        elif shape == 'empty': es = []
        self.emit(('bforget ' + ' '.join(es)).strip())
    def op_create(self):
        d = self.dreg(); u = self.r.random(); dn = self.reg.get(d)
        if u < 0.5: nm = self.newname(); node = Node('file')
        elif u < 0.85: nm = self.name_in(d, ['file']) or self.newname(); node = dn.ch.get(nm) if dn is not None and dn.kind == 'dir' else None
        else: nm = self.name_in(d, ['fifo', 'sym', 'dir']) or self.newname(); node = None
        if dn is not None and dn.kind == 'dir' and nm not in dn.ch and node is not None: dn.ch[nm] = node
        k = self.alloc(node); hk = self.nh; self.nh += 1; self.hreg[hk] = (k, 'file')
        self.emit('create %d %d %d %s %d' % (k, hk, d, nm, 1 if self.r.random() < 0.25 else 0))
    def op_create_special(self):
        """create on an existing non-regular name (defect D9)"""
        cands = [(d, x) for d, n in self.reg.items() if n is not None and n.kind == 'dir' for x, c in n.ch.items() if c.kind in ('fifo', 'sym', 'dir')]
        if not cands: return self.op_create()
        d, nm = self.r.choice(cands)
        k = self.alloc(None); hk = self.nh; self.nh += 1
        self.emit('create %d %d %d %s 0' % (k, hk, d, nm))
    def op_mk(self):
        d = self.dreg(); dn = self.reg.get(d); u = self.r.random()
        nm = self.newname() if u < 0.85 else (self.name_in(d) or self.newname())
        kind = self.r.choice(['mkdir', 'mknod-fifo', 'mknod-reg', 'symlink'])
        node = Node({'mkdir': 'dir', 'mknod-fifo': 'fifo', 'mknod-reg': 'file', 'symlink': 'sym'}[kind])
        if dn is not None and dn.kind == 'dir' and nm not in dn.ch: dn.ch[nm] = node
        else: node = None
        k = self.alloc(node)
        if kind == 'mkdir': self.emit('mkdir %d %d %s' % (k, d, nm))
        elif kind == 'symlink': self.emit('symlink %d %d %s f' % (k, d, nm))
        else: self.emit('mknod %d %d %s %s' % (k, d, nm, kind.split('-')[1]))
    def op_link(self):
        fs = [k for k, n in self.reg.items() if n is not None and n.kind in ('file', 'fifo', 'sym')]
        src = self.r.choice(fs) if fs and self.r.random() < 0.9 else self.anyreg()
        d = self.dreg(); dn = self.reg.get(d); nm = self.newname()
        node = self.reg.get(src)
        if dn is not None and dn.kind == 'dir' and node is not None: dn.ch[nm] = node
        k = self.alloc(node)
        self.emit('link %d %d %d %s' % (k, src, d, nm))
    def op_rename(self):
        d = self.dreg(); d2 = self.dreg(); nm = self.name_in(d) or 'nope'
        nm2 = self.newname() if self.r.random() < 0.7 else (self.name_in(d2, ['file']) or self.newname())
        dn, dn2 = self.reg.get(d), self.reg.get(d2)
        if dn is not None and dn2 is not None and dn.kind == 'dir' and dn2.kind == 'dir' and nm in dn.ch and dn.ch[nm] is not dn2:
            dn2.ch[nm2] = dn.ch.pop(nm)
        self.emit('rename %d %s %d %s' % (d, nm, d2, nm2))
    def op_unlink(self):
        d = self.dreg(); dn = self.reg.get(d)
        if self.r.random() < 0.2:
            nm = self.name_in(d, ['dir']) or 'nope'
            if dn is not None and dn.kind == 'dir' and nm in dn.ch and not dn.ch[nm].ch: dn.ch.pop(nm)
            self.emit('rmdir %d %s' % (d, nm))
        else:
            nm = self.name_in(d, ['file', 'fifo', 'sym']) or 'nope'
            if dn is not None and dn.kind == 'dir': dn.ch.pop(nm, None)
            self.emit('unlink %d %s' % (d, nm))
    def op_readdir(self):
        d = self.dreg(); hk = self.nh; self.nh += 1
        self.emit('opendir %d %d' % (hk, d)); self.hreg[hk] = (d, 'dir')
        for j in range(self.r.randint(1, 3)):
            plus = self.r.random() < 0.65
            size = self.r.choice([4096, 4096, 120, 80, 56, 16])
            budget = self.r.choice([0, 1, 2, 3, 100])
            off = 'last' if j > 0 and self.r.random() < 0.8 else '0'
            self.emit('%s %d %d %d %s %d' % ('readdirplus' if plus else 'readdir', d, hk, size, off, budget))
            if self.r.random() < 0.3: self.op_forget()
        if self.r.random() < 0.8:
            self.emit('releasedir %d %d' % (d, hk)); self.hreg.pop(hk, None)
    def op_open(self):
        fs = [k for k, n in self.reg.items() if n is not None and n.kind == 'file']
        k = self.r.choice(fs) if fs and self.r.random() < 0.8 else self.anyreg()
        hk = self.nh; self.nh += 1
        n = self.reg.get(k)
        if n is not None and n.kind == 'dir' and self.r.random() < 0.7:
            self.emit('opendir %d %d' % (hk, k)); self.hreg[hk] = (k, 'dir')
        else:
            self.emit('open %d %d' % (hk, k)); self.hreg[hk] = (k, 'file')
    def op_release(self):
        if not self.hreg: return self.op_open()
        hk = self.r.choice(list(self.hreg)); k, kind = self.hreg[hk]; u = self.r.random()
        if u < 0.12: k = self.anyreg()                    # wrong inode for this handle
        if u > 0.9: kind = 'dir' if kind == 'file' else 'file'
        self.emit('%s %d %d%s' % ('releasedir' if kind == 'dir' else 'release', k, hk, self.rel_fields()))
        if u >= 0.12: self.hreg.pop(hk, None)
    def rel_fields(self):
        """the other fields of a RELEASE request: flush (FUSE_RELEASE_FLUSH), flock_release, flags, lock_owner"""
        f = ''
        if self.r.random() < 0.5: f += ' flush'
        if self.r.random() < 0.2: f += ' flock'
        if self.r.random() < 0.3: f += ' flags%d' % self.r.choice([2, 1, 32768])
        if self.r.random() < 0.3: f += ' lock%d' % self.r.choice([0, 7, 18446744073709551615])
        return f
    def emfile_block(self, dirkind):
        """descriptor exhaustion (RLIMIT_NOFILE lowered for one request so that its first descriptor allocation fails):
        OPEN fails and gains nothing; on an open handle FLUSH fails (its dup()), RELEASE with the flush flag must still
        release (it allocates nothing); afterwards the handle is gone"""
        k = self.nreg; self.nreg += 1; self.reg[k] = None
        hk0 = self.nh; hk = self.nh + 1; self.nh += 2
        nm, op, rel = ('d1', 'opendir', 'releasedir') if dirkind else ('f', 'open', 'release')
        self.emit('fail 1 lookup %d 0 %s' % (k, nm))
        self.emit('lookup %d 0 %s' % (k, nm))
        self.emit('fail 1 %s %d %d' % (op, hk0, k))
        self.emit('%s %d %d' % (op, hk, k))
        self.emit('fail 1 use %d %d flush lock3' % (k, hk))
        self.emit('fail 1 use %d %d %s ds' % (k, hk, 'fsyncdir' if dirkind else 'fsync'))
        self.emit('fail 1 %s %d %d flush lock3' % (rel, k, hk))
        self.emit('use %d %d lseek' % (k, hk))
        self.emit('fail 1 create %d %d 0 %s 0' % (self.nreg, self.nh, self.newname())); self.nreg += 1; self.nh += 1
        self.emit('fail 2 create %d %d 0 %s 0' % (self.nreg, self.nh, self.newname())); self.nreg += 1; self.nh += 1
        self.emit('fail 1 mknod %d 0 %s reg' % (self.nreg, self.newname())); self.nreg += 1
        self.emit('bforget %d:1000' % k)
    def op_use(self):
        hk = self.r.choice(list(self.hreg) + [self.nh + 2]) if self.hreg else self.nh + 2
        k, kind = self.hreg.get(hk, (self.anyreg(), 'file'))
        if self.r.random() < 0.25: k = self.anyreg()
        what = self.r.choice(['getattr', 'fsync', 'flush', 'lseek'] if kind == 'file' else ['getattr', 'fsyncdir', 'lseek'])
        extra = ' ds' if what.startswith('fsync') and self.r.random() < 0.5 else (' lock%d' % self.r.choice([1, 9]) if what == 'flush' and self.r.random() < 0.5 else '')
        self.emit('use %d %d %s%s' % (k, hk, what, extra))
    # ---- deterministic blocks: every kind of handle x every request that takes a handle x both release opcodes
    HKINDS = ['open-file', 'open-dir', 'opendir']
    HUSES = ['read', 'write', 'readdir', 'readdirplus', 'fsync', 'fsyncdir', 'flush', 'getattr', 'setattr', 'fallocate', 'lseek']
    def handle_block(self, hkind, use, rel, list_first=True):
        """lookup; open; (listing, for a directory inode, so that a position record exists); the request; release"""
        k = self.nreg; self.nreg += 1; self.reg[k] = None
        hk = self.nh; self.nh += 1
        self.emit('lookup %d 0 %s' % (k, 'f' if hkind == 'open-file' else 'd1'))
        self.emit('%s %d %d' % ('opendir' if hkind == 'opendir' else 'open', hk, k))
        if hkind != 'open-file' and list_first and use not in ('readdir', 'readdirplus'):
            self.emit('readdir %d %d 4096 0 100' % (k, hk))
        if use in ('readdir', 'readdirplus'):
            self.emit('%s %d %d 4096 0 1' % (use, k, hk))
            self.emit('%s %d %d 4096 last 100' % (use, k, hk))
        else:
            self.emit('use %d %d %s' % (k, hk, use))
        self.emit('%s %d %d%s' % (rel, k, hk, self.rel_fields()))
        self.emit('bforget %d:1000' % k)
    # ---- request fields that the blocks above leave at one value (audit 6)
    RW_FLAGS = [16384, 1024, 2048, 262144, 512, 16384 | 1024, 1, 2]     # O_DIRECT, O_APPEND, O_NONBLOCK, O_NOATIME, O_TRUNC, both, O_WRONLY, O_RDWR
    def fields_block(self, j):
        """the flags word of READ / WRITE varied independently of what the handle was opened with, on every kind of handle.
        fcntl(F_SETFL, O_DIRECT) fails on a directory descriptor (EINVAL): a WRITE that is refused at that point must leave
        the handle's descriptor alone.  (READ is given only flags whose F_SETFL cannot fail: see notes/C15.md.)"""
        hkind = self.HKINDS[j % 3]; fl = self.RW_FLAGS[j % len(self.RW_FLAGS)]
        k = self.nreg; self.nreg += 1; self.reg[k] = None
        hk = self.nh; self.nh += 1
        self.emit('lookup %d 0 %s' % (k, 'f' if hkind == 'open-file' else 'd1'))
        self.emit('%s %d %d' % ('opendir' if hkind == 'opendir' else 'open', hk, k))
        if hkind != 'open-file': self.emit('readdir %d %d 4096 0 100' % (k, hk))
        self.emit('use %d %d write flags%d' % (k, hk, fl))
        self.emit('use %d %d write flags%d' % (k, hk, 16384))
        rfl = fl if (hkind == 'open-file' or not fl & 16384) else 1024
        self.emit('use %d %d read flags%d' % (k, hk, rfl))
        self.emit('use %d %d lseek' % (k, hk))
        self.emit('%s %d %d' % ('releasedir' if hkind == 'opendir' else 'release', k, hk))
        self.emit('bforget %d:1000' % k)
    def setattr_block(self, j):
        """SETATTR with a non-empty valid mask (SIZE: truncation goes through the handle, or -- without a handle, and in
        no_open mode -- through a descriptor opened for the request; times) and GETATTR / SETATTR without a handle"""
        k = self.nreg; self.nreg += 1; self.reg[k] = None
        hk = self.nh; self.nh += 1
        self.emit('lookup %d 0 f' % k)
        self.emit('open %d %d' % (hk, k))
        self.emit('use %d %d setattr valid8 size%d' % (k, hk, 6 + j % 4))
        self.emit('use %d %d setattr nohandle valid8 size%d' % (k, hk, 5 + j % 3))
        self.emit('use %d %d setattr nohandle valid%d' % (k, hk, 16 | 32 | 128 | 256))
        self.emit('use %d %d getattr nohandle' % (k, hk))
        self.emit('release %d %d' % (k, hk))
        self.emit('bforget %d:1000' % k)
    def zero_block(self, j):
        """the handle number 0 (never issued: numbering starts at 1; it is what a client without handles sends) presented
        with a live inode to every request that takes a handle, and to both release opcodes"""
        k = self.nreg; self.nreg += 1; self.reg[k] = None
        hk = self.nh; self.nh += 1
        nm, op = ('d1', 'opendir') if j % 2 else ('f', 'open')
        self.emit('lookup %d 0 %s' % (k, nm))
        self.emit('%s %d %d' % (op, hk, k))
        for use in self.HUSES:
            if use in ('readdir', 'readdirplus'): self.emit('%s %d =0 4096 0 100' % (use, k))
            else: self.emit('use %d =0 %s' % (k, use))
        self.emit('release %d =0' % k); self.emit('releasedir %d =0' % k)
        self.emit('%s %d %d' % ('releasedir' if j % 2 else 'release', k, hk))
        self.emit('bforget %d:1000' % k)
    def batch_block(self, pos):
        """two references, then one BATCH_FORGET naming them and the root at place `pos` (0 first, 1 middle, 2 last)"""
        a = self.nreg; b = self.nreg + 1; self.nreg += 2; self.reg[a] = None; self.reg[b] = None
        self.emit('lookup %d 0 f' % a); self.emit('lookup %d 0 d2' % b)
        es = ['%d:1' % a, '%d:1' % b]; es.insert(pos, '0:2')
        self.emit('bforget ' + ' '.join(es))
    def handle_blocks(self, base, n):
        combos = [(a, b, c) for a in self.HKINDS for b in self.HUSES for c in ('release', 'releasedir')]
        for j in range(n):
            a, b, c = combos[(base + j) % len(combos)]
            self.handle_block(a, b, c)
    def op_destroy(self):
        self.emit('destroy'); self.hreg = {}
    def op_release_all(self):
        """client lets go of everything it believes it holds"""
        for hk, (k, kind) in list(self.hreg.items()):
            self.emit('%s %d %d' % ('releasedir' if kind == 'dir' else 'release', k, hk))
        self.hreg = {}
        # forget every reference: by single FORGETs or one BATCH_FORGET, with the root at some place in the batch
        self.emit('bforgetall ' + self.r.choice(['plain', 'rootfirst', 'rootmid', 'rootlast', 'single']))
    def generate(self, n, special=False):
        W = {'c08': [(self.op_lookup, 30), (self.op_forget, 16), (self.op_bforget, 4), (self.op_create, 6), (self.op_mk, 9),
                     (self.op_link, 5), (self.op_rename, 4), (self.op_unlink, 5), (self.op_readdir, 8), (self.op_open, 2),
                     (self.op_release, 2), (self.op_destroy, 1)],
             'c15': [(self.op_lookup, 18), (self.op_forget, 8), (self.op_bforget, 6), (self.op_create, 10), (self.op_mk, 4),
                     (self.op_link, 2), (self.op_rename, 2), (self.op_unlink, 4), (self.op_readdir, 10), (self.op_open, 14),
                     (self.op_release, 12), (self.op_use, 8), (self.op_destroy, 2)]}[self.profile]
        fs = [f for f, w in W]; ws = [w for f, w in W]
        if self.profile == 'c15':
            # in every history: a listing through a handle obtained by OPEN on a directory inode, and a failing
            # READ on an OPENDIR handle that was listed, each released; then a slice of the systematic blocks
            self.batch_block((self.block_base // 8) % 3)
            self.emfile_block((self.block_base // 8) % 2 == 1)
            self.handle_block('open-dir', 'readdir', 'release' if self.block_base % 2 else 'releasedir')
            self.handle_block('opendir', 'read' if self.block_base % 4 < 2 else 'write', 'releasedir')
            self.handle_blocks(self.block_base, self.blocks)
            self.fields_block(self.block_base // 8)
            self.setattr_block(self.block_base // 8)
            self.zero_block(self.block_base // 8)
            n += len(self.lines)
        sp_at = self.r.randrange(n) if special else -1
        while len(self.lines) < n:
            if sp_at >= 0 and len(self.lines) >= sp_at:
                sp_at = -1; self.op_create_special(); continue
            n0 = len(self.lines)
            self.r.choices(fs, ws)[0]()
            if self.profile == 'c15' and len(self.lines) == n0 + 1 and self.r.random() < 0.08:
                w0 = self.lines[-1].split()[0]
                if w0 in ('lookup', 'create', 'mknod', 'mkdir', 'open', 'opendir', 'release', 'releasedir', 'use', 'forget', 'link'):
                    self.lines[-1] = 'fail %d %s' % (self.r.choice([1, 1, 2, 3]), self.lines[-1])
        if self.profile == 'c15' or self.r.random() < 0.3: self.op_release_all()
        return self.lines

def script(mode, no_open, no_opendir, lines):
    return '\n'.join(['cfg %d %d %d %d' % (mode[0], mode[1], no_open, no_opendir)] + INIT_TREE + ['init'] + lines) + '\n'

def run_history(bindir, tag, text, timeout=120):
    d = os.path.join(SCRATCH, 'ptables', str(os.getpid())); os.makedirs(d, exist_ok=True)     # per process: checks of different properties run in parallel
    p = os.path.join(d, '%s.txt' % tag)
    open(p, 'w').write(text)
    rc, out = run([os.path.join(bindir, 'ptables'), p, d], timeout=timeout)
    try: os.remove(p)
    except OSError: pass
    recs = []
    for l in out.split('\n'):
        if l.startswith('{'):
            try: recs.append(json.loads(l))
            except Exception: break                  # a line cut short (the process was killed): keep what was observed
    return rc, recs, out

# ---------------------------------------------------------------- Coq encoders
class FhIndex:
    def __init__(self): self.m = {}
    def of(self, hexs):
        if not hexs: return 'None'
        if hexs not in self.m: self.m[hexs] = len(self.m) + 1
        return '(Some %d)' % self.m[hexs]

def is_safe(mode): return stat.S_ISREG(mode) or stat.S_ISDIR(mode)

def coq_target(h, fx):
    return '(mkT (%d,%d,%d) %s %s)' % (h['ino'], h['dev'], h['mnt'], fx.of(h['fh']), 'true' if is_safe(h['mode']) else 'false')

def coq_opt_target(h, fx):
    return 'None' if h is None else '(Some %s)' % coq_target(h, fx)

def coq_bool(b): return 'true' if b else 'false'

def inode_op(rec, fx, root_host):
    """observed record -> (Coq term of Inodes.op, Coq term of the observed reply)"""
    o = rec['op']
    def orep():
        if rec['res'] == 0: return '(OOk %d)' % rec['ino']
        return '(OErrno %d)' % rec['res']
    if o == 'lookup':
        # EMFILE / ENFILE: the host refused a descriptor to the server (injected): the name was not resolved for it
        return '(OLookup %d %s)' % (rec['p'], coq_opt_target(None if rec['res'] in (23, 24) else rec['host'], fx)), orep()
    if o in ('mkdir', 'mknod', 'symlink'):
        # the host answer: the call succeeded iff the server says so (a failed call leaves the name unresolved or pre-existing)
        return '(OEntry %d %s)' % (rec['p'], coq_opt_target(rec['host'] if rec['res'] == 0 else None, fx)), orep()
    if o == 'link':
        return '(OLink %d %d %s)' % (rec['src'], rec['p'], coq_opt_target(rec['host'] if rec['res'] == 0 else None, fx)), orep()
    if o == 'create':
        ex = rec['existed']
        t = rec['host']
        if ex and rec['excl']: t = None                   # O_EXCL on an existing name: EEXIST before do_lookup
        if rec['res'] in (23, 24): t = None                # descriptor exhaustion before / in do_lookup: nothing inserted
        return '(OCreate %d %s %s %s)' % (rec['p'], coq_opt_target(t, fx), coq_bool(ex), coq_bool(rec['res'] == 0)), orep()
    if o == 'forget':
        return '(OForget %d %d)' % (rec['ino'], rec['count']), 'OUnit'
    if o == 'bforget':
        return '(OBatchForget [%s])' % '; '.join('(%d, %d)' % (a, b) for a, b in rec['reqs']), 'OUnit'
    if o in ('readdir', 'readdirplus'):
        ents = '[' + '; '.join('(%s, %s)' % (coq_target(e['host'], fx), coq_bool(e['del'])) for e in rec['ents']) + ']'
        oe = '(OEnts [' + '; '.join('(%d, %s)' % (e['ino'], coq_bool(e['del'])) for e in rec['ents']) + '])'
        # an error before anything was passed on = "nothing collected" (the model stops with []); an error AFTER entries
        # were passed on is not something the model can do: the client gets the error instead of the entries
        if rec['res'] != 0 and rec['ents']: oe = '(OErrno %d)' % rec['res']
        return '(OReaddir %s %s)' % (coq_bool(rec['plus']), ents), oe
    if o == 'destroy':
        return '(ODestroy %s)' % coq_target(root_host, fx), 'OUnit'
    return 'ONop', None

def coq_cfg(mode): return '(mkCfg %s %s)' % (coq_bool(mode[0]), coq_bool(mode[1]))

def coq_valid(rec):
    return '[' + '; '.join('(%d, %s)' % (n, 'None' if e == 9 else '(Some %d)' % rc) for n, e, rc in rec['valid']) + ']'
