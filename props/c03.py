"""C03 -- each reply is the exact wire encoding of what the filesystem returned."""
import os, sys, random, collections, struct
from vlib import *
import server_common as S
sys.path.insert(0, os.path.join(ROOT, 'translator'))
import server_dispatch, rust_abi

PROP = 'C03'

def notify_check(rng, bindir, findings, broken):
    """the three notification builders: model (Model/Notify.v) vs implementation, and the kernel-side reading (Spec/Notify.v)"""
    cases = []
    for i in range(60):
        k = rng.random()
        if k < 0.5:
            name = S.gen_name(rng, 60)
            n = ('entry', S.boundary(rng, 8), name); tot = 16 + 16 + len(name) + 1
            tok = 'entry:%d:%s' % (n[1], name.hex()); coq = '(NInvalEntry %d %s)' % (n[1], hexN(name))
        elif k < 0.9:
            n = ('inode', S.boundary(rng, 8), S.boundary(rng, 8), S.boundary(rng, 8)); tot = 40
            tok = 'inode:%d:%d:%d' % n[1:]; coq = '(NInvalInode %d %d %d)' % n[1:]
        else:
            n = ('resend',); tot = 16; tok = 'resend'; coq = 'NResend'
        cap = rng.choice([tot, tot, tot + 1, tot - 1, 4096, 15, 16, 32, 0])
        cases.append({'id': 500000 + i, 'cap': max(cap, 0), 'tok': tok, 'coq': coq, 'tot': tot})
    inp = ''.join('id=%d cap=%d notify=%s\n' % (c['id'], c['cap'], c['tok']) for c in cases)
    rc, out = run([os.path.join(bindir, 'codec')], input=inp, timeout=120)
    obs = {}
    for line in out.split('\n'):
        if line.startswith('id='):
            o = S.parse_obs(line); obs[o['id']] = o
    exprs = []; meta = []
    for c in cases:
        o = obs.get(c['id'])
        if o is None: broken.append({'kind': 'harness-run', 'log': out[-800:]}); continue
        if o['panic'] or not o['canary']:
            findings.append({'what': 'notification builder panicked or wrote outside its buffer', 'sig': {'notify': c['tok'].split(':')[0]}, 'input': c, 'observed': o['res']})
        failed = not o['res'].startswith('ok')
        exprs.append('(notify_obs_eqb %d %s %s [%s])' % (c['cap'], c['coq'], 'true' if failed else 'false', '; '.join(hexN(p) for p in o['packets']))); meta.append(('model', c, o))
        if c['cap'] >= c['tot']:
            if len(o['packets']) != 1:
                findings.append({'what': 'notification %s: %d write calls instead of one' % (c['tok'].split(':')[0], len(o['packets'])), 'sig': {'notify': c['tok'].split(':')[0]}, 'input': c})
            else:
                exprs.append('(notify_ok %s %s)' % (c['coq'], hexN(o['packets'][0]))); meta.append(('spec', c, o))
    hdr = S.SPEC_HEADER.replace('Spec.Replies.', 'Spec.Replies Model.Notify Spec.Notify.')
    ok2, out2 = coq_make(['Spec/Notify.vo'])
    fails, errs = coq_check_cases('c03notify', hdr, exprs, shard=80)
    if errs or not ok2: broken.append({'kind': 'spec-eval', 'name': 'notify', 'log': (errs or [out2[-800:]])[0]})
    for i in fails:
        kind, c, o = meta[i]
        if kind == 'spec':
            findings.append({'what': 'notification %s does not carry the given arguments (kernel layout)' % c['tok'].split(':')[0], 'sig': {'notify': c['tok'].split(':')[0]}, 'input': c, 'packet': o['packets'][0].hex()})
        else:
            broken.append({'kind': 'correspondence', 'name': 'Model/Notify.v run_notify vs Server::notify_*', 'case': c, 'observed': {'res': o['res'], 'packets': [p.hex() for p in o['packets']]}})
    return len(cases)

def run_check(tier, seed):
    ev = Evidence(PROP, tier, seed)
    ev.cov['checker_cmd'] = 'make -C coq Props/C03.vo (coqc 8.16.1, full .vo) + Print Assumptions audit'
    ev.cov['trusted_base'] = TRUSTED_COMMON + S.SERVER_TRUSTED + [
        'coq/Spec/Replies.v: reply_ok decodes a reply with the KERNEL struct tables by field name (fuse_entry_out, fuse_attr_out, fuse_open_out, fuse_dirent, ...) and compares with the scripted filesystem result',
        'translator/server_dispatch.py for the encode_io_error_kind table']
    ev.assumptions = ['reply round-trip theorems per result kind: see notes/C03.md for which are proved in Coq; all are evaluated on the implementation and on the model for every generated case']
    broken = []; findings = []
    try:
        write_if_changed(os.path.join(COQ, 'Gen/RustDispatch.v'), server_dispatch.emit_coq(server_dispatch.translate(REPO)))
    except rust_abi.TranslateError as ex:
        broken.append({'kind': 'translator', 'item': 'translator/server_dispatch.py', 'error': str(ex)})
    import pure_tie; pure_tie.prepare(PROP, ev, broken)      # Gen/RustPure.v from the function bodies in REPO (PROP_src_* theorems)
    audit = std_audit(ev, PROP, broken)
    pure_tie.after_audit(PROP, broken)                         # a source tie broke: look for a concrete differing input
    ok, out, bindir = cargo_build(['codec'])
    if not ok:
        broken.append({'kind': 'harness-build', 'log': out[-3000:]})
        return finish(ev, PROP, findings, broken)
    n = 700 if tier == 'quick' else 8000
    rng = random.Random(seed)
    cases = [c for c in S.gen_cases(rng, n, frac_malformed=0.0, cap=1 << 17, remap=(0, 0)) if c['wf'] and c['wf']['op'] != 26]
    cases += [c for c in S.gen_config_cases(rng, len(cases) + 100000) if c['wf']['op'] != 26 and c['remap'] == (0, 0)]
    cases += [c for c in S.gen_virtio_seg_cases(rng, len(cases) + 200000)]
    cases += S.gen_direrr_cases(rng, len(cases) + 300000)
    cases += S.gen_errkind_cases(rng, len(cases) + 400000)
    cases += S.gen_errkind_ext_cases(rng, len(cases) + 500000)      # audit6: every other stable ErrorKind
    cases += S.gen_readerr_cases(rng, len(cases) + 600000)          # audit6: READ fails after pushing data
    # directory sweep: every requested size within 8 bytes of every entry boundary (padded and unpadded), plain and plus
    sweep = []
    for op in (28, 44):
        plus = 128 if op == 44 else 0
        q0 = S.gen_wf(rng, op)
        names = [bytes(rng.randrange(1, 256) for _ in range(l)) for l in (rng.randrange(1, 8), rng.randrange(9, 16), rng.choice([8, 16]), rng.randrange(17, 24))]
        ds = [(S.boundary(rng, 8), S.boundary(rng, 8), rng.randrange(0, 16), nm, S.gen_entry(rng)) for nm in names]
        tot = 0
        for k in range(len(ds)):
            unp = plus + 24 + len(ds[k][3])
            for base in (tot, tot + unp):
                for delta in range(-8, 9):
                    if base + delta < 0: continue
                    q = dict(q0); q['fields'] = dict(q0['fields']); q['fields']['size'] = base + delta
                    body = S.enc_struct('fuse_read_in', q['fields'])
                    h = q['hdr']
                    q['bytes'] = S.in_header(40 + len(body), op, h['unique'], h['nodeid'], h['uid'], h['gid'], h['pid']) + body
                    q['fs'] = ('dirents', ds)
                    sweep.append(S.make_case(rng, 0, q['bytes'], q['fs'], q, transport=rng.choice(['fusedev', 'virtio']), cap=1 << 17, remap=(0, 0), minor=None, vu=False))
            tot += plus + ((24 + len(ds[k][3]) + 7) // 8) * 8
    if tier == 'quick': sweep = sweep[::2] if len(sweep) > 160 else sweep
    for i, c in enumerate(sweep): c['id'] = 200000 + i
    cases += sweep
    for c in cases:
        if c['wf']['op'] in (48, 49): c['vu'] = True
    rc, obs, raw = S.run_impl(cases, bindir=bindir)
    if rc != 0 or len(obs) != len(cases):
        broken.append({'kind': 'harness-run', 'log': raw[-1500:]})
    mask = S.fsopt_mask()
    exprs = []; meta = []
    hist = collections.Counter(); nontriv = set()
    for c in cases:
        o = obs.get(c['id'])
        if o is None: continue
        q = c['wf']
        hist[(S.OPS[q['op']][0], c['fs'][0])] += 1
        if q['op'] not in S.NEEDS_REPLY or q['op'] == 38: continue
        r = S.reply_of(c, o)
        key = (q['op'], c['fs'][0], c['tr'])
        if c['fs'][0] == 'dirents': key += (len(c['fs'][1]), tuple(len(d[3]) % 8 for d in c['fs'][1][:3]), q['fields'].get('size'))
        nontriv.add(key)
        exprs.append('(reply_ok %s %d %s %s)' % (S.coq_wfreq(q), 33 if c['minor'] is None else c['minor'], S.coq_fs(c['fs']), hexN(r if r is not None else b'')))
        meta.append(c)
    ok2, out2 = coq_make(['Spec/Replies.vo', 'Model/ServerCmp.vo'])
    if not ok2: broken.append({'kind': 'proof', 'name': 'Spec build', 'site': coq_error_site(out2)})
    fails, errs = coq_check_cases('c03spec', S.SPEC_HEADER, exprs, shard=60)
    if errs: broken.append({'kind': 'spec-eval', 'log': errs[0]})
    for i in fails:
        c = meta[i]; o = obs[c['id']]; q = c['wf']
        findings.append({'what': 'opcode %d (%s): reply does not decode (kernel layout) to the filesystem result of kind %s' % (q['op'], S.OPS[q['op']][0], c['fs'][0]),
                         'sig': {'op': q['op'], 'result': c['fs'][0]}, 'input': S.case_json(c, o)})
    bad_idx = S.model_vs_impl('c03', cases, obs, mask, broken)
    failed_ids = set(f['input']['id'] for f in findings)
    for i in bad_idx:
        if cases[i]['id'] not in failed_ids:
            broken.append({'kind': 'correspondence', 'name': 'Model/Server.v handle vs Server::handle_message', 'case': S.case_json(cases[i], obs[cases[i]['id']])})
    nn = notify_check(rng, bindir, findings, broken)
    ev.cov['notification_cases'] = nn
    ev.cov['evaluations'] = len(obs) + nn; ev.cov['distinct_nontrivial'] = len(nontriv)
    ev.cov['spec_evaluations'] = len(exprs); ev.cov['model_vs_impl_disagreements'] = len(bad_idx)
    ev.cov['rule'] = ('well-formed requests of every opcode x scripted filesystem results of every kind (entries/attrs with boundary values in every field, handles present/absent, '
                      'read payloads, xattr values/sizes, locks, statfs, directory listings with names of every length residue mod 8 and requested sizes around entry boundaries, '
                      'every errno class and every non-OS ErrorKind); reply decoded by Spec/Replies.v (kernel tables); distinct_nontrivial = distinct (opcode, result kind, transport[, listing shape])')
    ev.cov['input_distribution'] = {'%s/%s' % k: v for k, v in sorted(hist.items())}
    ev.cov['samples'] = [S.case_json(c, obs.get(c['id'])) for c in cases[:3]]
    return finish(ev, PROP, findings, broken)

def replay(path):
    return S.replay(PROP, path)
