"""Shared by C01/C02/C03/C12/C20: request generator (from the kernel ABI tables, never from
the crate's structs), harness driver, and conversion of cases/observations into Coq terms."""
import os, sys, json, re, random, struct
from vlib import *

K = json.load(open(os.path.join(ROOT, 'spec/kernel_abi.json')))
CTW = {'uint64_t': 8, 'uint32_t': 4, 'uint16_t': 2, 'uint8_t': 1, 'int64_t': 8, 'int32_t': 4, 'int16_t': 2, 'char': 1}

def kleaves(sname, prefix=''):
    """-> [(path, width)] of a kernel struct, flattened (7.38 header; in_header has the 7.33 padding view)"""
    out = []
    for f, t, a in K['structs'][sname]:
        if a == 0: continue
        p = prefix + f
        if t.startswith('struct:'):
            out += kleaves(t[7:], p + '.')
        elif a is not None:
            for i in range(a): out.append(('%s[%d]' % (p, i), CTW[t]))
        else:
            out.append((p, CTW[t]))
    return out

def enc_struct(sname, vals, only=None):
    b = b''
    for path, w in kleaves(sname):
        if only is not None and path not in only: continue
        b += int(vals.get(path, 0) % (1 << (8 * w))).to_bytes(w, 'little')
    return b

# opcode table: name, kernel request struct (and the leaf paths the crate's compat form reads), tail, fs result kinds
OPS = {
    1: ('lookup', None, 'name', ['entry', 'entry0', 'err']),
    2: ('forget', 'fuse_forget_in', 'none', ['unit']),
    3: ('getattr', 'fuse_getattr_in', 'none', ['attr', 'err']),
    4: ('setattr', 'fuse_setattr_in', 'none', ['attr', 'err']),
    5: ('readlink', None, 'none', ['bytes', 'err']),
    6: ('symlink', None, 'two', ['entry', 'err']),
    8: ('mknod', 'fuse_mknod_in', 'name', ['entry', 'err']),
    9: ('mkdir', 'fuse_mkdir_in', 'name', ['entry', 'err']),
    10: ('unlink', None, 'name', ['unit', 'err']),
    11: ('rmdir', None, 'name', ['unit', 'err']),
    12: ('rename', 'fuse_rename_in', 'two', ['unit', 'err']),
    13: ('link', 'fuse_link_in', 'name', ['entry', 'err']),
    14: ('open', 'fuse_open_in', 'none', ['open', 'err']),
    15: ('read', 'fuse_read_in', 'none', ['read', 'err']),
    16: ('write', 'fuse_write_in', 'payload', ['count', 'err']),
    17: ('statfs', None, 'none', ['statfs', 'err']),
    18: ('release', 'fuse_release_in', 'none', ['unit', 'err']),
    20: ('fsync', 'fuse_fsync_in', 'none', ['unit', 'err']),
    21: ('setxattr', 'fuse_setxattr_in', 'namevalue', ['unit', 'err']),
    22: ('getxattr', 'fuse_getxattr_in', 'name', ['bytes', 'count', 'err']),
    23: ('listxattr', 'fuse_getxattr_in', 'none', ['bytes', 'count', 'err']),
    24: ('removexattr', None, 'name', ['unit', 'err']),
    25: ('flush', 'fuse_flush_in', 'none', ['unit', 'err']),
    26: ('init', 'fuse_init_in', 'init', ['init', 'err']),
    27: ('opendir', 'fuse_open_in', 'none', ['open', 'err']),
    28: ('readdir', 'fuse_read_in', 'none', ['dirents', 'err']),
    29: ('releasedir', 'fuse_release_in', 'none', ['unit', 'err']),
    30: ('fsyncdir', 'fuse_fsync_in', 'none', ['unit', 'err']),
    31: ('getlk', 'fuse_lk_in', 'none', ['lock', 'err']),
    32: ('setlk', 'fuse_lk_in', 'none', ['unit', 'err']),
    33: ('setlkw', 'fuse_lk_in', 'none', ['unit', 'err']),
    34: ('access', 'fuse_access_in', 'none', ['unit', 'err']),
    35: ('create', 'fuse_create_in', 'name', ['create', 'err']),
    36: ('interrupt', 'fuse_interrupt_in', 'none', ['unit']),
    37: ('bmap', 'fuse_bmap_in', 'none', ['num', 'err']),
    38: ('destroy', None, 'none', ['unit']),
    39: ('ioctl', 'fuse_ioctl_in', 'ioctl', ['ioctl', 'err']),
    40: ('poll', 'fuse_poll_in', 'none', ['num', 'err']),
    41: ('notify_reply', None, 'none', ['unit', 'err']),
    42: ('batch_forget', 'fuse_batch_forget_in', 'forgets', ['unit']),
    43: ('fallocate', 'fuse_fallocate_in', 'none', ['unit', 'err']),
    44: ('readdirplus', 'fuse_read_in', 'none', ['dirents', 'err']),
    45: ('rename2', 'fuse_rename2_in', 'two', ['unit', 'err']),
    46: ('lseek', 'fuse_lseek_in', 'none', ['num', 'err']),
    48: ('setupmapping', 'fuse_setupmapping_in', 'none', ['unit', 'err']),
    49: ('removemapping', 'fuse_removemapping_in', 'mappings', ['unit', 'err']),
}
# compat forms the crate speaks: only these leaves of the kernel struct are on the wire
COMPAT = {'fuse_setxattr_in': ['size', 'flags'], 'fuse_init_in': ['major', 'minor', 'max_readahead', 'flags']}
NEEDS_REPLY = [o for o in OPS if o not in (2, 42, 36, 41)]
CHAN_BUFSIZE = 256 * 4096 + 0x1000     # FuseSession.bufsize on a 4 KiB-page host (checked by C12 against the source)

def boundary(rng, w, avoid=()):
    bits = 8 * w
    for _ in range(50):
        c = rng.random()
        if c < 0.15: v = rng.choice([0, 1, 2, 3])
        elif c < 0.35:
            k = rng.randrange(1, bits + 1); v = (1 << k) - rng.choice([0, 1, 2]) if k < bits else (1 << bits) - rng.choice([1, 2])
        elif c < 0.45: v = (1 << bits) - 1 - rng.randrange(4)
        else: v = rng.getrandbits(bits)
        v %= (1 << bits)
        if v not in avoid: return v
    return rng.getrandbits(bits)

def gen_name(rng, maxlen=40):
    c = rng.random()
    if c < 0.1: n = rng.choice([1, 2, 7, 8, 9, 255])
    else: n = rng.randrange(1, maxlen)
    return bytes(rng.randrange(1, 256) for _ in range(n))

def gen_stat(rng):
    return [boundary(rng, 8) for _ in range(15)]
def gen_entry(rng, zero_ino=False):
    used = set(); v = []
    for _ in range(2 + 15):
        x = boundary(rng, 8, used); used.add(x); v.append(x)
    if zero_ino: v[0] = 0
    flags = boundary(rng, 4, used)
    return v + [flags, boundary(rng, 8), rng.randrange(0, 10**9), boundary(rng, 8), rng.randrange(0, 10**9)]

ERRNOS = [1, 2, 5, 9, 11, 12, 13, 17, 22, 28, 38, 61, 75, 95, 4095]
def gen_fs(rng, kind, op, fields):
    if kind == 'err':
        return ('err', 'os', rng.choice(ERRNOS)) if rng.random() < 0.7 else ('err', 'kind', rng.randrange(0, 10))
    if kind == 'unit': return ('unit',)
    if kind == 'entry': return ('entry', gen_entry(rng))
    if kind == 'entry0': return ('entry', gen_entry(rng, True))
    if kind == 'attr': return ('attr', gen_stat(rng) + [boundary(rng, 8), rng.randrange(0, 10**9)])
    if kind == 'bytes': return ('bytes', bytes(rng.getrandbits(8) for _ in range(rng.choice([0, 1, 7, 8, 33, 200]))))
    if kind == 'count': return ('count', boundary(rng, 4))
    if kind == 'open':
        return ('open', None if rng.random() < 0.3 else boundary(rng, 8), rng.randrange(0, 32), None if rng.random() < 0.5 else boundary(rng, 4))
    if kind == 'create':
        return ('create', gen_entry(rng), None if rng.random() < 0.3 else boundary(rng, 8), rng.randrange(0, 32), None if rng.random() < 0.5 else boundary(rng, 4))
    if kind == 'read':
        return ('read', bytes(rng.getrandbits(8) for _ in range(rng.choice([0, 1, 15, 16, 17, 100, 1000, 4096]))))
    if kind == 'statfs': return ('statfs', [boundary(rng, 8) for _ in range(8)])
    if kind == 'lock': return ('lock', [boundary(rng, 8), boundary(rng, 8), boundary(rng, 4), boundary(rng, 4)])
    if kind == 'dirents':
        n = rng.choice([0, 1, 2, 5, 12])
        ds = []
        for i in range(n):
            nm = gen_name(rng, 30) if rng.random() < 0.8 else bytes(rng.randrange(1, 256) for _ in range(rng.choice([1, 8, 9, 15, 16, 17, 255])))
            ds.append((boundary(rng, 8), boundary(rng, 8), rng.randrange(0, 16), nm, gen_entry(rng)))
        return ('dirents', ds)
    if kind == 'init': return ('init', fields.get('_want', boundary(rng, 8)))
    if kind == 'ioctl': return ('ioctl', boundary(rng, 4), bytes(rng.getrandbits(8) for _ in range(rng.choice([0, 4, 33]))))
    if kind == 'num': return ('num', boundary(rng, 8))
    raise ValueError(kind)

def fs_token(fs):
    t = fs[0]
    j = lambda v: ','.join(str(x) for x in v)
    o = lambda x: '-' if x is None else str(x)
    if t == 'err': return 'err:%s:%d' % (fs[1], fs[2])
    if t == 'unit': return 'unit'
    if t in ('entry', 'attr', 'statfs', 'lock'): return '%s:%s' % (t, j(fs[1]))
    if t in ('bytes', 'read'): return '%s:%s' % (t, fs[1].hex())
    if t in ('count', 'num', 'init'): return '%s:%d' % (t, fs[1])
    if t == 'open': return 'open:%s,%d,%s' % (o(fs[1]), fs[2], o(fs[3]))
    if t == 'create': return 'create:%s,%s,%d,%s' % (j(fs[1]), o(fs[2]), fs[3], o(fs[4]))
    if t == 'readerr': return 'readerr:%d:%s' % (fs[1], fs[2].hex())
    if t == 'direrr': return 'direrr:%d:' % fs[1] + ';'.join('%d,%d,%d,%s,%s' % (d[0], d[1], d[2], d[3].hex(), j(d[4])) for d in fs[2])
    if t == 'dirents': return 'dirents:' + ';'.join('%d,%d,%d,%s,%s' % (d[0], d[1], d[2], d[3].hex(), j(d[4])) for d in fs[1])
    if t == 'ioctl': return 'ioctl:%d,%s' % (fs[1], fs[2].hex())
    raise ValueError(t)

def coq_opt(x): return 'None' if x is None else '(Some %d)' % x
def coq_stat(v):
    return ('{| st_ino := %d; st_size := %d; st_blocks := %d; st_atime := %d; st_mtime := %d; st_ctime := %d; '
            'st_atime_nsec := %d; st_mtime_nsec := %d; st_ctime_nsec := %d; st_mode := %d; st_nlink := %d; '
            'st_uid := %d; st_gid := %d; st_rdev := %d; st_blksize := %d |}' % tuple(v[:15]))
def coq_entry(v):
    return ('{| e_inode := %d; e_generation := %d; e_attr := %s; e_attr_flags := %d; e_attr_secs := %d; '
            'e_attr_nsecs := %d; e_entry_secs := %d; e_entry_nsecs := %d |}' % (v[0], v[1], coq_stat(v[2:17]), v[17], v[18], v[19], v[20], v[21]))
def coq_fs(fs):
    t = fs[0]
    if t == 'err': return '(FErr (%s %d))' % ('Os' if fs[1] == 'os' else 'Kind', fs[2])
    if t == 'direrr': return '(FErr (Os %d))' % fs[1]      # entries handed over, then an error: the answer IS the error
    if t == 'readerr': return '(FErr (Os %d))' % fs[1]     # bytes pushed into the data writer, then an error: the answer IS the error
    if t == 'unit': return 'FUnit'
    if t == 'entry': return '(FEntry %s)' % coq_entry(fs[1])
    if t == 'attr': return '(FAttr %s %d %d)' % (coq_stat(fs[1]), fs[1][15], fs[1][16])
    if t == 'bytes': return '(FBytes %s)' % hexN(fs[1])
    if t == 'count': return '(FCount %d)' % fs[1]
    if t == 'open': return '(FOpen %s %d %s)' % (coq_opt(fs[1]), fs[2], coq_opt(fs[3]))
    if t == 'create': return '(FCreate %s %s %d %s)' % (coq_entry(fs[1]), coq_opt(fs[2]), fs[3], coq_opt(fs[4]))
    if t == 'read': return '(FRead %s)' % hexN(fs[1])
    if t == 'statfs':
        return '(FStatfs {| f_blocks := %d; f_bfree := %d; f_bavail := %d; f_files := %d; f_ffree := %d; f_bsize := %d; f_namemax := %d; f_frsize := %d |})' % tuple(fs[1])
    if t == 'lock': return '(FLock {| lk_start := %d; lk_end := %d; lk_type := %d; lk_pid := %d |})' % tuple(fs[1])
    if t == 'dirents':
        return '(FDirents [%s])' % '; '.join('({| d_ino := %d; d_off := %d; d_type := %d; d_name := %s |}, %s)' % (d[0], d[1], d[2], hexN(d[3]), coq_entry(d[4])) for d in fs[1])
    if t == 'init': return '(FInit %d)' % fs[1]
    if t == 'ioctl': return '(FIoctl %d %s)' % (fs[1], hexN(fs[2]))
    if t == 'num': return '(FNum %d)' % fs[1]
    raise ValueError(t)

def in_header(length, op, unique, nodeid, uid, gid, pid):
    return struct.pack('<IIQQIIII', length & 0xffffffff, op & 0xffffffff, unique, nodeid, uid, gid, pid, 0)

def gen_wf(rng, op, kind=None):
    """a well-formed request of opcode op: dict with structured form + bytes"""
    name, sname, tail, kinds = OPS[op]
    used = set()
    def fresh(w):
        v = boundary(rng, w, used); used.add(v); return v
    hdr = {'unique': fresh(8), 'nodeid': fresh(8), 'uid': fresh(4), 'gid': fresh(4), 'pid': fresh(4)}
    fields = {}
    body = b''
    if sname:
        only = COMPAT.get(sname)
        for path, w in kleaves(sname):
            if only is not None and path not in only: continue
            fields[path] = fresh(w)
        # flag words: toggle the gating bits deliberately
        for fname in ('getattr_flags', 'valid', 'read_flags', 'write_flags', 'release_flags', 'fsync_flags'):
            if fname in fields and rng.random() < 0.6:
                fields[fname] = rng.choice([0, 1, 2, 3, 0x40, 0x41, 0x200, 0x240, rng.getrandbits(12)])
        if op == 45 and rng.random() < 0.7: fields['flags'] = rng.choice([0, 1, 2, 4, 7, 8, 0xffffffff, rng.getrandbits(32)])
        if op in (15, 28, 44): fields['size'] = rng.choice([0, 24, 31, 32, 40, 100, 152, 160, 168, 500, 1000, 4096])
        if op in (22, 23): fields['size'] = rng.choice([0, 1, 64, 4096, fields['size']])
    q = {'op': op, 'hdr': hdr, 'fields': fields, 'name1': b'', 'name2': b'', 'payload': b'', 'pairs': []}
    if tail == 'name':
        q['name1'] = gen_name(rng); tb = q['name1'] + b'\0'
    elif tail == 'two':
        q['name1'] = gen_name(rng); q['name2'] = gen_name(rng); tb = q['name1'] + b'\0' + q['name2'] + b'\0'
    elif tail == 'namevalue':
        q['name1'] = gen_name(rng); q['payload'] = bytes(rng.getrandbits(8) for _ in range(rng.choice([0, 1, 8, 100])))
        fields['size'] = len(q['payload']); tb = q['name1'] + b'\0' + q['payload']
    elif tail == 'payload':
        q['payload'] = bytes(rng.getrandbits(8) for _ in range(rng.choice([0, 1, 100, 4096])))
        fields['size'] = len(q['payload']); tb = q['payload']
    elif tail == 'ioctl':
        q['payload'] = bytes(rng.getrandbits(8) for _ in range(rng.choice([0, 4, 64])))
        fields['in_size'] = len(q['payload']); tb = q['payload']
    elif tail in ('forgets', 'mappings'):
        n = rng.choice([0, 1, 2, 7])
        q['pairs'] = [(fresh(8), fresh(8)) for _ in range(n)]
        fields['count'] = n; tb = b''.join(struct.pack('<QQ', a, b) for a, b in q['pairs'])
    elif tail == 'init':
        fields['major'] = 7
        fields['minor'] = rng.choice([0, 4, 5, 12, 22, 23, 31, 33, 35, 36, 38, rng.randrange(0, 60)])
        fl = rng.getrandbits(32) if rng.random() < 0.6 else (1 << rng.randrange(32))
        ext = rng.random() < 0.6
        if ext: fl |= 1 << 30
        else: fl &= ~(1 << 30)
        fields['flags'] = fl
        tb = b''
        q['flags2'] = None
        # the 48-byte 7.36 tail: normally only with the marker, but also (rarely sent, still a legal byte string)
        # without it -- the server must then ignore it
        if (ext and rng.random() < 0.8) or (not ext and rng.random() < 0.25):
            f2 = rng.getrandbits(32) if rng.random() < 0.6 else (1 << rng.randrange(32))
            q['flags2'] = f2; tb = struct.pack('<I', f2) + bytes(44)
        if rng.random() < 0.6: fields['_want'] = rng.getrandbits(64)
        else: fields['_want'] = rng.choice([0, (1 << 64) - 1, 1 << 30, (1 << 33) | (1 << 30), 1 << 33, 0x20, 0x400000, 1 << 39])
    else: tb = b''
    if sname: body = enc_struct(sname, fields, COMPAT.get(sname))
    total = 40 + len(body) + len(tb)
    q['bytes'] = in_header(total, op, hdr['unique'], hdr['nodeid'], hdr['uid'], hdr['gid'], hdr['pid']) + body + tb
    if kind is None: kind = rng.choice(kinds) if rng.random() < 0.75 else kinds[0]
    q['fs'] = gen_fs(rng, kind, op, fields)
    if q['fs'][0] == 'dirents' and q['fs'][1] and rng.random() < 0.8:
        # requested size around an entry boundary of this listing (every residue mod 8 on both sides)
        plus = 128 if op == 44 else 0
        k = rng.randrange(0, len(q['fs'][1]) + 1)
        tot = sum(plus + ((24 + len(d[3]) + 7) // 8) * 8 for d in q['fs'][1][:k])
        nxt = (plus + 24 + len(q['fs'][1][k][3])) if k < len(q['fs'][1]) else 0
        fields['size'] = max(0, tot + rng.choice([0, nxt]) + rng.randrange(-9, 10))
        body = enc_struct(sname, fields, COMPAT.get(sname))
        q['bytes'] = in_header(40 + len(body), op, hdr['unique'], hdr['nodeid'], hdr['uid'], hdr['gid'], hdr['pid']) + body
    return q

def gen_big_write(rng, payload_len):
    """a well-formed WRITE whose payload is a constant run (so the case stays small in Coq) of the given length"""
    q = gen_wf(rng, 16)
    q['payload'] = bytes([rng.randrange(1, 256)]) * payload_len
    q['fields']['size'] = payload_len
    h = q['hdr']
    body = enc_struct('fuse_write_in', q['fields'])
    q['bytes'] = in_header(40 + len(body) + payload_len, 16, h['unique'], h['nodeid'], h['uid'], h['gid'], h['pid']) + body + q['payload']
    q['fs'] = ('count', payload_len)
    return q

def reply_cap_for(rng, q):
    c = rng.random()
    if c < 0.5: return rng.choice([4096, 8192, 65536, 1 << 17])
    if c < 0.8: return rng.choice([0, 1, 15, 16, 17, 24, 32, 40, 80, 96, 120, 144, 160, 200, 1000])
    return rng.randrange(0, 3000)

def segs(rng, total):
    if total == 0: return [0] if rng.random() < 0.5 else [0, 0]
    n = rng.choice([1, 1, 2, 3, 5, 8])
    cuts = sorted(rng.randrange(0, total + 1) for _ in range(n - 1))
    out = []; prev = 0
    for c in cuts + [total]:
        out.append(c - prev); prev = c
    return out

def make_case(rng, i, req, fs, wf=None, transport=None, cap=None, remap=None, minor=None, vu=None):
    # 'chan' = the real FuseSession/FuseChannel::get_request path (Reader and Writer share one buffer of the session size)
    tr = transport or rng.choice(['fusedev', 'fusedev', 'virtio', 'chan'])
    cap = reply_cap_for(rng, wf) if cap is None else cap
    if tr == 'chan': cap = CHAN_BUFSIZE
    remap = remap if remap is not None else (rng.choice([(0, 0), (0, 0), (1000, 2000), 'fail']) if rng.random() < 0.3 else (0, 0))
    c = {'id': i, 'tr': tr, 'cap': cap, 'req': req, 'fs': fs, 'remap': remap,
         'minor': minor if minor is not None else (rng.choice([None, None, None, 3, 4, 33])),
         'vu': bool(vu) if vu is not None else (rng.random() < 0.3), 'wf': wf}
    if tr == 'virtio':
        c['rsegs'] = segs(rng, len(req)); c['wsegs'] = segs(rng, cap)
    return c

def mutate(rng, q):
    """malformed variants of a well-formed request"""
    b = bytearray(q['bytes'])
    m = rng.randrange(9)
    if m == 0 and len(b) > 0: b = b[:rng.randrange(0, len(b))]                       # truncate anywhere
    elif m == 1: b += bytes(rng.getrandbits(8) for _ in range(rng.choice([1, 8, 40, 300])))  # trailing garbage
    elif m == 2:                                                                       # length-field lie
        l = struct.unpack_from('<I', b, 0)[0]
        l2 = rng.choice([l - 1, l + 1, l - 40, l + 40, l * 2, 0, 39, 40, 41, 1 << 31, (1 << 32) - 1, (1 << 20) + 4096, (1 << 20) + 4097])
        struct.pack_into('<I', b, 0, l2 & 0xffffffff)
    elif m == 3:                                                                       # opcode hole / garbage
        struct.pack_into('<I', b, 4, rng.choice([0, 7, 19, 47, 50, 51, 52, 4096, 1 << 20, 1 << 31, (1 << 32) - 1, rng.getrandbits(32)]))
    elif m == 4 and len(b) > 48:                                                       # count/size extremes in the first field
        struct.pack_into('<I', b, 40, rng.choice([0, 1, 65535, 65536, 65789, 1 << 20, (1 << 28), (1 << 32) - 1]))
    elif m == 5:                                                                       # remove NULs
        for i in range(40, len(b)):
            if b[i] == 0 and rng.random() < 0.7: b[i] = rng.randrange(1, 256)
    elif m == 6 and len(b) > 40:                                                       # flip random bytes in the body
        for _ in range(rng.choice([1, 2, 8])):
            b[rng.randrange(40, len(b))] = rng.getrandbits(8)
    elif m == 7 and len(b) >= 60:                                                      # size fields (read/readdir/write/ioctl) to extremes
        struct.pack_into('<I', b, 56, rng.choice([0, 1, 4096, 1 << 20, (1 << 32) - 1]))
    else:                                                                              # oversize claim on any opcode
        struct.pack_into('<I', b, 0, rng.choice([(1 << 20) + 4097, (1 << 21), (1 << 32) - 1]))
    return bytes(b)

def gen_cases(rng, n, opcodes=None, frac_malformed=0.25, **kw):
    ops = list(opcodes or OPS.keys())
    cases = []
    for i in range(n):
        op = ops[i % len(ops)] if i < 2 * len(ops) else rng.choice(ops)
        q = gen_wf(rng, op)
        c = rng.random()
        if c < frac_malformed:
            cases.append(make_case(rng, i, mutate(rng, q), q['fs'], None, **kw))
        elif c < frac_malformed + 0.04:
            rb = bytes(rng.getrandbits(8) for _ in range(rng.choice([0, 1, 39, 40, 41, 56, 200])))
            cases.append(make_case(rng, i, rb, q['fs'], None, **kw))
        else:
            cases.append(make_case(rng, i, q['bytes'], q['fs'], q, **kw))
    return cases

def gen_config_cases(rng, start, transports=('fusedev', 'virtio', 'chan')):
    """Deterministic block: every field of the server's configuration that the model reads (the protocol minor
    negotiated by an earlier INIT, the id remap, the virtiofs cache-request handler) crossed with the requests and
    filesystem answers on which it matters.  Random pairing almost never produces these combinations."""
    cases = []
    def add(q, **kw):
        cases.append(make_case(rng, start + len(cases), q['bytes'], q['fs'], q, cap=1 << 17, **kw))
    trs = list(transports)
    k = 0
    for minor in (0, 3, 4, 5, 33):
        for kind in ('entry0', 'entry', 'err'):
            add(gen_wf(rng, 1, kind), minor=minor, remap=(0, 0), transport=trs[k % len(trs)]); k += 1
    for remap in ((0, 0), (1000, 2000), ((1 << 32) - 5, (1 << 32) - 1), 'fail'):
        for op in (3, 10, 2, 9, 35, 42, 26):
            add(gen_wf(rng, op), remap=remap, minor=33, transport=trs[k % len(trs)]); k += 1
    for vu in (False, True):
        for op in (48, 49):
            for kind in ('unit', 'err'):
                add(gen_wf(rng, op, kind), vu=vu, remap=(0, 0), minor=33, transport=trs[k % len(trs)]); k += 1
    # INIT after an earlier INIT negotiated an old minor
    for minor in (3, 4, 5):
        add(gen_wf(rng, 26), minor=minor, remap=(0, 0), transport=trs[k % len(trs)]); k += 1
    return cases

def gen_virtio_seg_cases(rng, start):
    """Deterministic block (virtio only): descriptor segmentations that cut the 16-byte reply header and the
    fixed request structures at every interesting place.  READ/READDIR/READDIRPLUS split the reply writer at 16
    bytes, WRITE/SETXATTR/IOCTL split the request reader behind their fixed part: a split point strictly inside a
    descriptor, behind several short descriptors, or exactly on a boundary are different code paths in
    IoBuffers::split_at / consume.  Random segmentation of a 4 KiB buffer almost never makes the first
    descriptor shorter than 16 bytes."""
    cases = []
    def add(q, rsegs, wsegs):
        c = make_case(rng, start + len(cases), q['bytes'], q['fs'], q, transport='virtio', cap=sum(wsegs), remap=(0, 0), minor=33)
        c['rsegs'] = rsegs; c['wsegs'] = wsegs
        cases.append(c)
    wpats = [[8, 12, 8192], [8, 8192], [1, 15, 8192], [15, 1, 8192], [16, 8192], [17, 8192], [4, 4, 4, 4, 8192],
             [0, 16, 8192], [3, 0, 13, 8192], [16 + 8192], [20, 8188], [16, 100, 8092]]
    for op, kind in ((15, 'read'), (28, 'dirents'), (44, 'dirents'), (1, 'entry'), (3, 'attr'), (22, 'bytes'), (5, 'bytes'), (17, 'statfs')):
        for wp in wpats:
            q = gen_wf(rng, op, kind)
            add(q, [len(q['bytes'])], wp)
    for op in (16, 21, 39, 42, 12, 6, 35, 49):
        for _ in range(2):
            q = gen_wf(rng, op)
            n = len(q['bytes'])
            name, sname, tail, kinds = OPS[op]
            fixed = 40 + (len(enc_struct(sname, q['fields'], COMPAT.get(sname))) if sname else 0)
            for cuts in ([8], [40], [39], [41], [fixed], [fixed - 1], [fixed + 1], [8, 40, fixed], [40, fixed, fixed + 1], [1, 2, 3]):
                cs = sorted(set(x for x in cuts if 0 < x < n))
                segs_ = []; prev = 0
                for x in cs + [n]:
                    segs_.append(x - prev); prev = x
                add(q, segs_, [16, 8192] if rng.random() < 0.5 else [8208])
    return cases

def gen_direrr_cases(rng, start, transports=('fusedev', 'virtio')):
    """Deterministic block: READDIR / READDIRPLUS where the filesystem hands over some entries and THEN fails.
    What the filesystem returned is the error, so the reply must be the error reply, however many entries were
    already placed in the buffer (none / one / all fit)."""
    cases = []
    k = 0
    for op in (28, 44):
        for en in (5, 2, 13, 4095):
            for sizes in ('none', 'one', 'all'):
                q = gen_wf(rng, op, 'dirents')
                ds = q['fs'][1]
                if not ds: continue
                plus = 128 if op == 44 else 0
                first = plus + ((24 + len(ds[0][3]) + 7) // 8) * 8
                tot = sum(plus + ((24 + len(d[3]) + 7) // 8) * 8 for d in ds)
                q['fields']['size'] = {'none': max(0, first - 1), 'one': first, 'all': tot + 8}[sizes]
                h = q['hdr']
                body = enc_struct('fuse_read_in', q['fields'])
                q['bytes'] = in_header(40 + len(body), op, h['unique'], h['nodeid'], h['uid'], h['gid'], h['pid']) + body
                q['fs'] = ('direrr', en, ds)
                cases.append(make_case(rng, start + len(cases), q['bytes'], q['fs'], q, cap=1 << 17, remap=(0, 0), minor=33,
                                       transport=transports[k % len(transports)])); k += 1
    return cases

def gen_errkind_cases(rng, start, transports=('fusedev', 'virtio')):
    """Deterministic block: every io::ErrorKind code the harness can script (0..9, errors without an OS code) x a few
    opcodes with different reply paths (plain, attr, entry, read with its split writer, readdir), on each transport:
    the errno sent must be the one that stands for the kind (Spec/Replies.v kind_errno)."""
    cases = []
    k = 0
    for kind in range(10):
        for op in (1, 3, 34, 15, 28, 35):
            q = gen_wf(rng, op, 'err')
            q['fs'] = ('err', 'kind', kind)
            cases.append(make_case(rng, start + len(cases), q['bytes'], q['fs'], q, cap=1 << 17, remap=(0, 0), minor=33,
                                   transport=transports[k % len(transports)])); k += 1
    return cases

N_ERRKINDS = 39      # harness kind codes 0..38 (translator/server_dispatch.py KIND_CODE; harness kind_of)

def gen_errkind_ext_cases(rng, start, transports=('fusedev', 'virtio')):
    """Deterministic block (audit6): the io::ErrorKind codes 10..38 -- every stable kind beyond the ten the harness
    scripted before -- through a plain and a split-writer reply path.  An arm added to encode_io_error_kind for a kind
    that could not be scripted used to be invisible (the translator dropped it, no case produced it)."""
    cases = []
    for kind in range(10, N_ERRKINDS):
        op = (3, 15, 1, 28)[kind % 4]
        q = gen_wf(rng, op, 'err')
        q['fs'] = ('err', 'kind', kind)
        cases.append(make_case(rng, start + len(cases), q['bytes'], q['fs'], q, cap=1 << 17, remap=(0, 0), minor=33,
                               transport=transports[kind % len(transports)]))
    return cases

def gen_readerr_cases(rng, start, transports=('fusedev', 'virtio')):
    """Deterministic block (audit6): READ where the filesystem pushes some bytes into the data writer and THEN fails
    (an I/O error in the middle of a file).  What the filesystem returned is the error, so the reply must be the bare
    error reply -- the READ twin of gen_direrr_cases."""
    cases = []
    k = 0
    for en in (5, 4095):
        for n in (1, 100, 4096):
            q = gen_wf(rng, 15, 'read')
            q['fs'] = ('readerr', en, bytes(rng.getrandbits(8) for _ in range(n)))
            cases.append(make_case(rng, start + len(cases), q['bytes'], q['fs'], q, cap=1 << 17, remap=(0, 0), minor=33,
                                   transport=transports[k % len(transports)])); k += 1
    return cases

def gen_init_shape_cases(rng, start, transports=('fusedev', 'virtio', 'chan')):
    """Deterministic block (audit6): INIT with every protocol major class (older, 7, newer) x minors on both sides of
    the compat sizes x the FUSE_INIT_EXT marker with / without / with a short 7.36 tail.  gen_wf always sends major 7;
    the other branches of Server::init were reached by the byte mutator only, and then without the 'must be answered'
    predicate.  Every INIT that carries its 16 fixed bytes must be answered (C01_init_answered)."""
    cases = []
    k = 0
    def add(major, minor, flags, tail, kind):
        nonlocal k
        q = gen_wf(rng, 26, kind)
        f = q['fields']; f['major'] = major; f['minor'] = minor; f['flags'] = flags
        q['flags2'] = struct.unpack_from('<I', tail, 0)[0] if len(tail) >= 48 else None
        h = q['hdr']
        body = enc_struct('fuse_init_in', f, COMPAT['fuse_init_in']) + tail
        q['bytes'] = in_header(40 + len(body), 26, h['unique'], h['nodeid'], h['uid'], h['gid'], h['pid']) + body
        cases.append(make_case(rng, start + len(cases), q['bytes'], q['fs'], q, cap=1 << 17, remap=(0, 0), minor=None, vu=False,
                               transport=transports[k % len(transports)])); k += 1
    ext = 1 << 30
    for major in (0, 6, 8, (1 << 32) - 1):
        for minor, flags, tail in ((0, 0, b''), (36, ext | 1, struct.pack('<I', 5) + bytes(44)), ((1 << 32) - 1, ext, b'')):
            add(major, minor, flags, tail, 'init' if (major + minor) % 2 == 0 else 'err')
    for minor in (4, 5, 22, 23, 36):
        for flags, tail in ((ext | 0x20, struct.pack('<I', 0x81) + bytes(44)), (ext | 0x20, b''), (ext | 0x20, bytes(47)), (0x20, bytes(48))):
            add(7, minor, flags, tail, 'init')
    return cases

def gen_badname_cases(rng, start, transports=('fusedev', 'virtio')):
    """Deterministic block: every opcode that carries NUL-terminated strings x every way the strings can be wrong
    (no NUL at all, request ends right after the fixed part, second string unterminated, empty strings, a lone NUL,
    an over-long name), on each transport.  The handlers decode names one by one, each with its own error path."""
    cases = []
    k = 0
    for op, (name, sname, tail, kinds) in sorted(OPS.items()):
        if tail not in ('name', 'two', 'namevalue'): continue
        q = gen_wf(rng, op)
        b = q['bytes']
        tl = len(q['name1']) + 1 + (len(q['name2']) + 1 if tail == 'two' else 0) + (len(q['payload']) if tail == 'namevalue' else 0)
        fixed = b[:len(b) - tl]; t = b[len(b) - tl:]
        variants = [t.replace(b'\0', b'x'),                     # no NUL anywhere
                    b'',                                         # nothing after the fixed part
                    b'\0',                                       # a lone NUL (empty name)
                    b'abc',                                      # short unterminated
                    q['name1'] + b'\0' + b'zz',                  # first string fine, then unterminated bytes
                    b'\0' + t,                                   # empty first string, rest shifted
                    (b'n' * 4097) + b'\0' + (b'm\0' if tail == 'two' else b'')]   # over-long name
        for v in variants:
            body = fixed[40:] + v
            h = q['hdr']
            req = in_header(40 + len(body), op, h['unique'], h['nodeid'], h['uid'], h['gid'], h['pid']) + body
            cases.append(make_case(rng, start + len(cases), req, q['fs'], None, cap=1 << 17, remap=(0, 0), minor=33,
                                   transport=transports[k % len(transports)])); k += 1
    return cases

def case_line(c):
    s = 'id=%d tr=%s cap=%d req=%s fs=%s remap=%s minor=%s vu=%d' % (
        c['id'], c['tr'], c['cap'], c['req'].hex(), fs_token(c['fs']),
        'fail' if c['remap'] == 'fail' else '%d,%d' % c['remap'], '-' if c['minor'] is None else str(c['minor']), int(c['vu']))
    if c['tr'] == 'virtio':
        s += ' rsegs=%s wsegs=%s' % (','.join(map(str, c['rsegs'])), ','.join(map(str, c['wsegs'])))
    if c.get('hook'): s += ' hook=1'      # a counting MetricsHook is installed (codec only): behaviour must not change
    return s

def parse_obs(line):
    d = dict(tok.split('=', 1) for tok in line.split(' '))
    d['id'] = int(d['id']); d['panic'] = d['panic'] == '1'; d['canary'] = d['canary'] == '1'
    d['calls'] = [] if d['calls'] == '-' else d['calls'].split(';')
    d['packets'] = [] if d['packets'] == '-' else [b'' if p == 'e' else bytes.fromhex(p) for p in d['packets'].split(',')]
    d['mem'] = bytes.fromhex(d.get('mem', ''))
    return d

def run_impl(cases, binname='codec', bindir=None, timeout=900):
    inp = '\n'.join(case_line(c) for c in cases) + '\n'
    rc, out = run([os.path.join(bindir, binname)], input=inp, timeout=timeout)
    obs = {}
    for line in out.split('\n'):
        if line.startswith('id='):
            o = parse_obs(line); obs[o['id']] = o
    return rc, obs, out

ERRCODE = {'DecodeMessage': 'EDecodeMessage', 'EncodeMessage': 'EEncodeMessage', 'InvalidHeaderLength': 'EInvalidHeaderLength',
           'InvalidCString': 'EInvalidCString', 'InvalidXattrSize': 'EInvalidXattrSize', 'MissingParameter': 'EMissingParameter',
           'InvalidMessage': 'EInvalidMessage', 'FailedToRemapID': 'EFailedToRemapID'}

def coq_call(s):
    m = re.fullmatch(r'(\w+)\((\d+),(\d+),(\d+)\|(.*)\)', s, flags=re.S)
    meth, u, g, p, rest = m.groups()
    args = []
    for a in (rest.split('|') if rest != '' else []):
        if a.startswith('n:'): args.append('AN %s' % a[2:])
        elif a.startswith('b:'): args.append('AB %s' % hexN(bytes.fromhex(a[2:])))
        elif a.startswith('o:'): args.append('AO %s' % ('None' if a[2:] == '-' else '(Some %s)' % a[2:]))
        elif a == 't': args.append('ABool true')
        elif a == 'f': args.append('ABool false')
        elif a.startswith('p:'):
            ps = [x.split('-') for x in a[2:].split(',')] if a[2:] else []
            args.append('APairs [%s]' % '; '.join('(%s, %s)' % (x, y) for x, y in ps))
        else: raise ValueError(a)
    return '{| c_method := "%s"; c_ctx := (%s, %s, %s); c_args := [%s] |}' % (meth, u, g, p, '; '.join(args))

def coq_res(r):
    if r.startswith('ok:'): return '(ROk %s)' % r[3:]
    if r == 'panic': return '(RErr EEncodeMessage)'
    return '(RErr %s)' % ERRCODE.get(r[4:], 'EEncodeMessage')

def coq_obs(o):
    return '{| ob_res := %s; ob_panic := %s; ob_calls := [%s]; ob_packets := [%s]; ob_mem := %s |}' % (
        coq_res(o['res']), 'true' if o['panic'] else 'false', '; '.join(coq_call(c) for c in o['calls']),
        '; '.join(hexN(p) for p in o['packets']), hexN(o['mem']))

def coq_cfg(c, mask):
    rm = 'RemapFail' if c['remap'] == 'fail' else '(RemapOk %d %d)' % c['remap']
    return '{| cfg_minor := %d; cfg_remap := %s; cfg_vu_req := %s; cfg_fsopt_mask := %d |}' % (
        33 if c['minor'] is None else c['minor'], rm, 'true' if c['vu'] else 'false', mask)

def coq_handle(c, mask):
    return '(handle %s %s %d %s %s)' % (coq_cfg(c, mask), 'Virtio' if c['tr'] == 'virtio' else 'FuseDev', c['cap'], hexN(c['req']), coq_fs(c['fs']))

HEADER = ('From Coq Require Import List String NArith Bool.\nFrom FB Require Import Lib.Bytes Lib.Hex Model.Server Model.ServerCmp.\n'
          'Import ListNotations.\nLocal Open Scope string_scope.\nLocal Open Scope N_scope.\n')

def fsopt_mask():
    sys.path.insert(0, os.path.join(ROOT, 'translator'))
    import rust_abi
    t = rust_abi.translate(REPO, lenient_conv=True)      # only the FsOptions bitflags are used here
    m = 0
    for n, ty, ms in t['bitflags']:
        if n == 'FsOptions':
            for _, v in ms: m |= v
    return m


def coq_wfreq(q):
    h = q['hdr']
    fl = '; '.join('("%s", %d)' % (k, v) for k, v in q['fields'].items() if not k.startswith('_'))
    return ('{| q_op := %d; q_unique := %d; q_nodeid := %d; q_uid := %d; q_gid := %d; q_pid := %d; q_fields := [%s]; '
            'q_name1 := %s; q_name2 := %s; q_payload := %s; q_pairs := [%s]; q_flags2 := %s |}' % (
        q['op'], h['unique'], h['nodeid'], h['uid'], h['gid'], h['pid'], fl, hexN(q['name1']), hexN(q['name2']), hexN(q['payload']),
        '; '.join('(%d, %d)' % p for p in q['pairs']), coq_opt(q.get('flags2'))))

SPEC_HEADER = HEADER.replace('Model.Server Model.ServerCmp.', 'Model.Server Model.ServerCmp Spec.Requests Spec.Replies.')

def reply_of(c, o):
    """the reply message the client sees: the single packet (fusedev) or the used part of the writable area (virtio)"""
    if c['tr'] == 'virtio': return o['mem'] if o['res'].startswith('ok:') and o['mem'] else None
    return o['packets'][0] if len(o['packets']) == 1 else None


# ------------------------------------------------------------------ shared check flow
SERVER_TRUSTED = [
    'coq/Model/Server.v is a hand model of src/api/server/{mod,sync_io}.rs (decode/dispatch logic [decide], writer interaction [perform]); '
    'it is tied to the code by running the model inside Coq (vm_compute) and the real Server::handle_message on the same seeded requests and comparing '
    'result class, filesystem call log (method, context, every argument) and the bytes that reached the fd / guest memory',
    'harness/src/bin/codec.rs: scripted FileSystem (answers given in the case), SOCK_SEQPACKET socketpair as /dev/fuse (one packet per write call), '
    'virtio-queue MockSplitQueue descriptor chains, catch_unwind, canaries around every buffer',
    'request generator lays requests out from spec/kernel_abi.json (kernel header), never from the crate\'s structs',
    'the filesystem behind the server is an oracle: its result is an arbitrary input of the model; assumed: errors carry an errno in 1..4095, read returns the number of bytes it pushed',
    'transport write primitive is all-or-error (true for /dev/fuse and a seqpacket socket)',
]

def shrink_req(c, still_fails):
    """greedy byte-level shrinking of a failing request (keeps the first 8 header bytes' meaning intact)"""
    req = bytearray(c['req'])
    step = max(1, len(req) // 2)
    while step >= 1 and len(req) > 40:
        i = 40; changed = False
        while i + step <= len(req):
            cand = req[:i] + req[i + step:]
            c2 = dict(c); c2['req'] = bytes(cand)
            if c2['tr'] == 'virtio': c2['rsegs'] = [len(cand)]
            if still_fails(c2): req = cand; changed = True
            else: i += step
        if not changed: step //= 2
    out = dict(c); out['req'] = bytes(req)
    if out['tr'] == 'virtio': out['rsegs'] = [len(req)]
    return out

def case_json(c, o=None):
    d = {k: (v.hex() if isinstance(v, (bytes, bytearray)) else v) for k, v in c.items() if k not in ('wf',)}
    d['fs'] = fs_token(c['fs'])
    d['harness_line'] = case_line(c)
    if len(c['req']) > 16384:
        # megabyte requests: keep the replay file small; the request is header + body + a constant-byte payload
        side = os.path.join(OUT, 'replays'); os.makedirs(side, exist_ok=True)
        import hashlib
        fn = os.path.join(side, 'case-%s.txt' % hashlib.sha1(c['req']).hexdigest()[:12])
        open(fn, 'w').write(d['harness_line'] + '\n')
        d['req'] = '%s...(%d bytes, payload byte 0x%02x repeated; full harness line in %s)' % (c['req'][:96].hex(), len(c['req']), c['req'][-1], fn)
        d['harness_line_file'] = fn; d['harness_line'] = None
    if c.get('wf'): d['opcode'] = c['wf']['op']; d['opname'] = OPS[c['wf']['op']][0]
    if o is not None:
        d['observed'] = {'res': o['res'], 'panic': o['panic'], 'calls': [x if len(x) < 4000 else x[:200] + '...(%d chars)' % len(x) for x in o['calls']],
                         'packets': [p.hex() if len(p) < 8192 else p[:64].hex() + '...(%d bytes)' % len(p) for p in o['packets']],
                         'mem': o['mem'].hex() if len(o['mem']) < 8192 else o['mem'][:64].hex() + '...(%d bytes)' % len(o['mem']), 'canary_ok': o['canary']}
    return d

def model_vs_impl(tag, cases, obs, mask, broken, model_fn='handle', header=None):
    """correspondence: Coq model evaluated on every case vs the observation. -> failing case indices"""
    ok, out = coq_make(['Model/ServerCmp.vo', 'Spec/Init.vo'])     # libraries the case files import
    if not ok:
        broken.append({'kind': 'proof', 'name': 'build of Model/ServerCmp.vo / Spec/Init.vo failed', 'site': coq_error_site(out)})
        return []
    idx = [i for i, c in enumerate(cases) if c['id'] in obs]
    exprs = ['(obs_eqb %s %s %s)' % ('Virtio' if cases[i]['tr'] == 'virtio' else 'FuseDev',
             coq_handle(cases[i], mask).replace('(handle ', '(%s ' % model_fn, 1), coq_obs(obs[cases[i]['id']])) for i in idx]
    fails, errs = coq_check_cases(tag, header or HEADER, exprs, shard=60)
    if errs: broken.append({'kind': 'correspondence', 'name': 'Coq evaluation of the server model failed', 'log': errs[0]})
    return [idx[j] for j in fails]


def replay(prop, path, binname='codec'):
    """./check Cxx --replay file: re-run the recorded failing request(s) on the current /repo and show what happens.
    exit 1 if the recorded observation reproduces."""
    d = json.load(open(path))
    items = [f.get('shrunk_input') or f.get('input') for f in d.get('failing', [])] + [b.get('case') for b in d.get('broken', []) if isinstance(b, dict)]
    for i in items:
        if i and not i.get('harness_line') and i.get('harness_line_file') and os.path.exists(i['harness_line_file']):
            i['harness_line'] = open(i['harness_line_file']).read().strip()
    items = [i for i in items if i and i.get('harness_line')]
    if not items:
        print(json.dumps(d, indent=1)[:3000]); print('replay: no concrete input recorded in this file (a proof obligation or tie broke; see "broken")'); return 1
    ok, out, bindir = cargo_build([binname])
    if not ok: print(out[-2000:]); return 2
    rc, out = run([os.path.join(bindir, binname)], input='\n'.join(i['harness_line'] for i in items) + '\n', timeout=300)
    same = 0
    for i, line in zip(items, [l for l in out.split('\n') if l.startswith('id=')]):
        o = parse_obs(line); rec = i.get('observed') or {}
        print('request:', i['harness_line'][:400]); print('now     :', line[:600]); print('recorded:', json.dumps(rec)[:600])
        if rec and rec.get('res') == o['res'] and rec.get('calls') == o['calls'] and rec.get('packets') == [p.hex() for p in o['packets']]: same += 1
    print('replay: %d of %d recorded observations reproduce on the current tree' % (same, len(items)))
    return 1 if same else 0
