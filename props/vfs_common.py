"""Shared machinery of the VFS checks C07 / C14 / C19: the interactive session with harness bin `vfs`
(scripted backends in a real Vfs), rendering of histories for the harness and for the Coq model
(Model/VfsRun.v run_hist), parsing of observations, and the specification-level reference state
(which backend owns which index, which id mapping belongs to which mount) used by the property
predicates.  Everything random comes from the random.Random handed in."""
import os, sys, re, json, subprocess, random
from vlib import *
import vfs_src

MAX_INO = (1 << 56) - 1
TWO64 = 1 << 64
U32 = 1 << 32
ROOT_INO = 1

COQ_HEADER = ('From Coq Require Import List NArith Bool.\n'
              'From FB Require Import Model.Pseudo Gen.VfsTable Model.Vfs Model.Persist Model.VfsRun.\n'
              'Import ListNotations.\nLocal Open Scope N_scope.\n')

# ------------------------------------------------------------------ names / paths
def name_tok(n):
    k = n[0]
    if k == 'dot': return '.'
    if k == 'dotdot': return '..'
    if k == 'slash': return 's%d/x' % n[1]
    if k == 'bad': return 'BAD%d' % n[1]
    if k in ODD_NAMES: return ODD_NAMES[k][0] % n[1:]
    return 'n%d' % n[1]
def name_coq(n):
    k = n[0]
    if k == 'dot': return 'NDot'
    if k == 'dotdot': return 'NDotDot'
    if k == 'slash': return '(NSlash %d)' % n[1]
    if k == 'bad': return '(NBad %d)' % n[1]
    if k in ODD_NAMES: return '(NNorm %d)' % odd_key(n)
    return '(NNorm %d)' % n[1]
def name_safe(n): return n[0] not in ('dot', 'dotdot', 'slash')
# Unusual but ordinary names (audit6): the model knows a name only as a key, so every distinct byte string gets its own key.
# kind -> (rendering, key base): upper-case twin of n<k>, "."- and ".."-prefixed names, "...", the empty name (harness token EMPTY).
# Together with n1 / n10 / n100 (proper prefixes of one another) these are names that differ from a mount path component, from
# "." and from ".." only by case, by a prefix or by a suffix -- none of them may be confused with it.
ODD_NAMES = {'up': ('N%d', 200000), 'hid': ('.n%d', 300000), 'hid2': ('..n%d', 400000), 'dots': ('...', 500000), 'empty': ('EMPTY', 600000)}
def odd_key(n): return ODD_NAMES[n[0]][1] + (n[1] if len(n) > 1 else 0)
ODD_COMP = {'U': 'up', 'H': 'hid', 'H2': 'hid2', 'D3': 'dots'}          # mount path components of the same kinds
def comp_tok(c):
    if c[0] == 'P': return '..'
    if c[0] in ODD_COMP: return name_tok((ODD_COMP[c[0]],) + tuple(c[1:]))
    return 'n%d' % c[1]
def name_of_key(k):
    """the name (as a request name tuple) of a pseudo directory known by its key"""
    for kind, (fmt, base) in ODD_NAMES.items():
        if base <= k < base + 100000: return (kind, k - base) if '%d' in fmt else (kind,)
    return ('norm', k)
def comp_key(c): return odd_key((ODD_COMP[c[0]],) + tuple(c[1:])) if c[0] in ODD_COMP else c[1]

def mk_path(rng, comps, rooted=True, noise=True):
    """comps: list of ('N', k) | ('P',) -> {'s': rendering, 'rooted':..., 'comps':...}.  The rendering may contain
    '.', '//' and a trailing '/', which std::path::Path::components() drops (trusted: std semantics)."""
    parts = []
    for c in comps:
        if noise and rng.random() < 0.08: parts.append('.')
        if noise and rng.random() < 0.05: parts.append('')
        parts.append(comp_tok(c))
    s = '/'.join(parts)
    if rooted: s = '/' + s
    elif not s or s.startswith('/'): s = 'n999999' if not s else s.lstrip('/')
    if noise and comps and rng.random() < 0.1: s += '/'
    if not rooted and s.startswith('.') and not s.startswith('..'):
        pass
    return {'s': s, 'rooted': rooted, 'comps': [tuple(c) for c in comps]}
def path_coq(p):
    return '(mkPath %s [%s])' % ('true' if p['rooted'] else 'false',
                                '; '.join('CParent' if c[0] == 'P' else '(CNorm %d)' % comp_key(c) for c in p['comps']))
def canon(comps):
    out = []
    for c in comps:
        if c[0] == 'P':
            if out: out.pop()
        else: out.append(comp_key(c))
    return tuple(out)

# ------------------------------------------------------------------ step rendering
def errtok(e): return str(e)
def errcoq(e): return 'two64' if e < 0 else str(e)
def map_tok(m): return '-' if m is None else '%d %d %d' % tuple(m)
def map_coq(m): return 'None' if m is None else '(Some (%d, %d, %d))' % tuple(m)
def ent_coq(e): return '(mkE %d %d %d %d %d)' % (e['ino'], e['stino'], e['uid'], e['gid'], e['tag'])
def mans_coq(a): return '(mkMA %s %d %d %d %d %d %s)' % (errcoq(a['err']), a['ino'], a['uid'], a['gid'], a['tag'], a['max'], errcoq(a['init_err']))
def mans_tok(a): return '%d %d %d %d %d %d %d' % (a['err'], a['ino'], a['uid'], a['gid'], a['tag'], a['max'], a['init_err'])

ENT0 = {'ino': 0, 'stino': 0, 'uid': 0, 'gid': 0, 'tag': 0}
def mk_ans(err=0, ent=None, attr=None, tag=0, dir=None):
    return {'err': err, 'ent': dict(ent or ENT0), 'attr': dict(attr or {'ino': 0, 'uid': 0, 'gid': 0, 'tag': 0}), 'tag': tag, 'dir': list(dir or [])}
def ans_tok(a):
    e, t = a['ent'], a['attr']
    s = 'A %d %d %d %d %d %d %d %d %d %d %d %d' % (a['err'], e['ino'], e['stino'], e['uid'], e['gid'], e['tag'],
                                                   t['ino'], t['uid'], t['gid'], t['tag'], a['tag'], len(a['dir']))
    for dino, k, de in a['dir']:
        s += ' %d n%d %d %d %d %d %d' % (dino, k, de['ino'], de['stino'], de['uid'], de['gid'], de['tag'])
    return s
def ans_coq(a):
    t = a['attr']
    return '(mkAns %s %s (mkA %d %d %d %d) %d [%s])' % (errcoq(a['err']), ent_coq(a['ent']), t['ino'], t['uid'], t['gid'], t['tag'], a['tag'],
        '; '.join('(%d, %d, %s)' % (dino, k, ent_coq(de)) for dino, k, de in a['dir']))

def mk_req(op, ino, hdr=None, uid=0, gid=0, ino2=0, name=('norm', 1), name2=('norm', 2), auid=0, agid=0, size=4096, offset=0, limit=100, ans=None, mode='s', wrap=False):
    """mode: 's' FileSystem method, 'a' AsyncFileSystem method (backend futures ready), 'y' the same with every backend future Pending once;
    wrap: the request (context remap by header nodeid and the method) goes through Arc<Vfs>, i.e. the blanket impls for Arc<FS>"""
    if hdr is None:
        hdr = ino2 if op == 'link' else (0 if op == 'batch_forget' else ino)
    return {'k': 'R', 'op': op, 'hdr': hdr, 'uid': uid, 'gid': gid, 'ino': ino, 'ino2': ino2, 'name': name, 'name2': name2,
            'auid': auid, 'agid': agid, 'size': size, 'offset': offset, 'limit': limit, 'ans': ans or mk_ans(), 'mode': mode, 'wrap': wrap}

class Tables:
    """method tables from the translator"""
    def __init__(self, t):
        self.t = t
        self.code = dict((e['name'], e['code']) for e in t['methods']); self.code['mount'] = 100
        for e in t['methods']: self.code['a:' + e['name']] = 200 + e['code']          # Model/Vfs.v async_tag
        self.async_ops = list(t.get('async_twins', []))
        self.fwd = [e['name'] for e in t['methods'] if e['vfs'] and e['vfs']['cls'] in ('plain', 'entry')]
        self.entry_ops = [e['name'] for e in t['methods'] if e['vfs'] and e['vfs']['cls'] == 'entry']
        self.validating = [e['name'] for e in t['methods'] if e['vfs'] and e['vfs'].get('validate')]
        self.unfwd = [e['name'] for e in t['methods'] if e['vfs'] is None and e['name'] not in vfs_src.NOT_REQUESTS and e['name'] != 'batch_forget']
        self.gate = dict((e['name'], e['vfs']['gate']) for e in t['methods'] if e['vfs'])
        self.default = dict((e['name'], e['default']) for e in t['methods'])

def step_tok(st):
    k = st['k']
    if k == 'M': return 'M %d %s %s %s%s' % (st['bid'], st['path']['s'], map_tok(st['map']), mans_tok(st['ans']), ' plain' if st.get('plain') else '')
    if k == 'U': return 'U %s' % st['path']['s']
    if k == 'I': return 'I %d %d' % (st['opts'], st['ierr'])
    if k == 'D': return 'D'
    if k == 'Q': return 'Q'
    if k == 'S':
        sel = st.get('order')          # None: every attached mount in index order; else positions in that list (a permutation or a subset)
        return 'S %d %s' % (st['ver'], st['fresh']) + ('' if sel is None else ' ' + (','.join(str(i) for i in sel) if sel else 'none'))
    r = st
    return 'R %s %d %d %d %d %d %s %s %d %d %d %d %d %s' % (('W:' if r.get('wrap') else '') + {'a': 'a', 'y': 'y'}.get(r.get('mode'), '') + r['op'], r['hdr'], r['uid'], r['gid'], r['ino'], r['ino2'], name_tok(r['name']),
        name_tok(r['name2']), r['auid'], r['agid'], r['size'], r['offset'], r['limit'], ans_tok(r['ans']))

def op_coq(r, tb):
    op = r['op']
    if op == 'lookup': return '(OLookup %d %s)' % (r['ino'], name_coq(r['name']))
    if op == 'forget': return '(OForget %d)' % r['ino']
    if op == 'batch_forget': return '(OBatchForget %d %d)' % (r['ino'], r['ino2'])
    if op == 'getattr': return '(OGetattr %d)' % r['ino']
    if op == 'setattr': return '(OSetattr %d %d %d %d)' % (r['ino'], r['auid'], r['agid'], r['size'])     # size = FATTR_* valid bits
    if op == 'rename': return '(ORename %d %s %d %s)' % (r['ino'], name_coq(r['name']), r['ino2'], name_coq(r['name2']))
    if op == 'link': return '(OLink %d %d %s)' % (r['ino'], r['ino2'], name_coq(r['name']))
    if op in ('readdir', 'readdirplus'): return '(OReaddir %s %d %d %d %d%%nat)' % ('true' if op == 'readdirplus' else 'false', r['ino'], r['size'], r['offset'], r['limit'])
    if op in tb.fwd: return '(OFwd m_%s %d %s)' % (op, r['ino'], name_coq(r['name']))
    if op in tb.unfwd: return '(OUnfwd m_%s)' % op
    raise ValueError(op)

def step_coq(st, tb):
    k = st['k']
    if k == 'M': return '(SMount %d %s %s %s)' % (st['bid'], path_coq(st['path']), map_coq(st['map']), mans_coq(st['ans']))
    if k == 'U': return '(SUmount %s)' % path_coq(st['path'])
    if k == 'I': return '(SInit %d %s)' % (st['opts'], errcoq(st['ierr']))
    if k == 'D': return 'SDestroy'
    if k == 'Q': return 'SQuery'
    if k == 'S':
        return '(SSaveRestore %d %s [%s])' % (st['ver'], 'true' if st['fresh'] == 'default' else 'false',
            '; '.join('(%d, %d, %s, %s)' % (b, i, path_coq(p), mans_coq(a)) for b, i, p, a in st['reattach']))
    return '(%s %d (mkC %d %d) %s %s)' % ('SReqA' if st.get('mode') in ('a', 'y') else 'SReq', st['hdr'], st['uid'], st['gid'], op_coq(st, tb), ans_coq(st['ans']))

CFG_FLAGS = ['rm', 'no_open', 'no_opendir', 'no_writeback', 'killpriv_v2', 'no_readdir', 'seal_size']
def cfg_tok(i, cfg): return 'CASE %d %s %s' % (i, map_tok(cfg['gmap']), ' '.join(str(int(bool(cfg.get(f, 0)))) for f in CFG_FLAGS))
def cfg_coq(cfg):
    b = lambda x: 'true' if x else 'false'
    return '(mkCfg %s %s)' % (map_coq(cfg['gmap']), ' '.join(b(cfg.get(f, 0)) for f in CFG_FLAGS))

# ------------------------------------------------------------------ observations
def num(tok):
    v = int(tok)
    return TWO64 if v < 0 else v
def name_key(tok):
    m = re.fullmatch(r'n(\d+)', tok)
    if m: return int(m.group(1))
    for kind, (fmt, base) in ODD_NAMES.items():          # names of pseudo directories listed by readdir
        m = re.fullmatch(re.escape(fmt).replace('%d', r'(\d+)'), tok)
        if m and kind != 'empty': return base + (int(m.group(1)) if m.groups() else 0)
    return TWO64

def parse_obs(st, line, tb):
    """harness output line for step st -> (flat list of ints as Model/VfsRun.v serialises it, structured dict)"""
    parts = line.strip().split(' # ')
    head = parts[0].split()
    evs = []
    for p in parts[1:]:
        w = p.split()
        evs.append({'bid': int(w[0]), 'm': w[1], 'ino': int(w[2]), 'ino2': int(w[3]), 'cuid': int(w[4]), 'cgid': int(w[5]), 'suid': int(w[6]), 'sgid': int(w[7])})
    o = {'events': evs, 'status': head[0], 'vals': [], 'raw': line.strip()}
    flat = []
    if head[0] == 'skipped': return [3], o
    if head[0] == 'panic': flat = [2]
    elif head[0] == 'err':
        flat = [1, int(head[1]), num(head[2])]; o['variant'] = int(head[1]); o['errno'] = num(head[2])
    else:
        k = st['k']; vals = head[1:]
        if k == 'R' and st['op'] in ('readdir', 'readdirplus'):
            n = int(vals[0]); plus = st['op'] == 'readdirplus'; w = 8 if plus else 3
            flat = [0, n]; ents = []
            for i in range(n):
                c = vals[1 + i * w: 1 + (i + 1) * w]
                d = {'ino': int(c[0]), 'name': name_key(c[1]), 'off': int(c[2])}
                flat += [d['ino'], d['name'], d['off']]
                if plus:
                    d['entry'] = dict(zip(['ino', 'stino', 'uid', 'gid', 'tag'], [int(x) for x in c[3:8]]))
                    flat += [int(x) for x in c[3:8]]
                ents.append(d)
            o['dir'] = ents
        elif k == 'S':
            n = int(vals[0]); flat = [0, n]; o['reattached'] = []
            for i in range(n):
                b, ix, p, code = vals[1 + 4 * i: 5 + 4 * i]
                flat += [int(b), int(ix), num(code)]; o['reattached'].append((int(b), int(ix), p, num(code)))
        elif k == 'M':
            flat = [0, int(vals[0])]; o['vals'] = [int(vals[0])]; o['pino'] = int(vals[1])
        else:
            flat = [0] + [int(x) for x in vals]; o['vals'] = [int(x) for x in vals]
    flat += [len(evs)]
    for e in evs:
        flat += [e['bid'], tb.code[e['m']], e['ino'], e['ino2'], e['cuid'], e['cgid'], e['suid'], e['sgid']]
    return flat, o

class Session:
    """one harness process, many cases, interactive (a step is answered before the next is chosen)"""
    def __init__(self, bindir):
        self.p = subprocess.Popen([os.path.join(bindir, 'vfs')], stdin=subprocess.PIPE, stdout=subprocess.PIPE, text=True, bufsize=1)
        self.n = 0
    def send(self, line):
        self.p.stdin.write(line + '\n'); self.p.stdin.flush()
        out = self.p.stdout.readline()
        if not out: raise RuntimeError('harness died on: ' + line)
        return out
    def begin(self, cfg):
        self.n += 1
        self.send(cfg_tok(self.n, cfg))
    def end(self):
        self.p.stdin.write('END\n'); self.p.stdin.flush()
    def close(self):
        try:
            self.p.stdin.close(); self.p.wait(timeout=10)
        except Exception:
            self.p.kill()

# ------------------------------------------------------------------ id mapping arithmetic (specification side)
def remap(v, frm, to, rng):
    if v >= frm and v - frm < rng: return v - frm + to
    return v
def to_ext(m, v): return v if m is None else remap(v, m[0], m[1], m[2])
def to_int(m, v): return v if m is None else remap(v, m[1], m[0], m[2])
def map_wf(m): return m is None or (m[0] + m[2] <= U32 and m[1] + m[2] <= U32)

# ------------------------------------------------------------------ a case: cfg + recorded steps + observations
class Case:
    """Drives one history interactively and keeps the specification-level reference state:
       owner[idx] = bid of the backend mounted in slot idx, mapping_of[idx] = mapping given to that mount (or None),
       mounts[pino] = {'bid','idx','root','path'} (mount currently at the pseudo inode pino), all derived from what the
       implementation returned (indices, pseudo inode numbers), i.e. from the caller's point of view."""
    def __init__(self, sess, cfg, tb):
        self.s, self.cfg, self.tb = sess, cfg, tb
        self.steps, self.flat, self.obs = [], [], []
        self.owner, self.mapping_of, self.mounts = {}, {}, {}
        self.ref_hist = []          # reference state before each step (for the predicates)
        self.dead = False
        self.initialized = False
        sess.begin(cfg)
    def snapshot(self):
        return {'owner': dict(self.owner), 'mapping_of': dict(self.mapping_of), 'mounts': dict((k, dict(v)) for k, v in self.mounts.items()),
                'initialized': self.initialized}
    def do(self, st):
        self.ref_hist.append(self.snapshot())
        line = self.s.send(step_tok(st))
        flat, o = parse_obs(st, line, self.tb)
        if st['k'] == 'S':
            st['reattach'] = []
            live = sorted(self.mounts.values(), key=lambda m: m['idx'])
            if st.get('order') is not None: live = [live[i] for i in st['order']]
            if o['status'] == 'ok':
                for (b, ix, ptxt, code), m in zip(o['reattached'], live):
                    st['reattach'].append((b, ix, m['path'], m['ans']))
            else:
                st['reattach'] = [(m['bid'], m['idx'], m['path'], m['ans']) for m in live]
        self.steps.append(st); self.flat.append(flat); self.obs.append(o)
        if o['status'] == 'panic': self.dead = True
        self.track(st, o)
        return o
    def track(self, st, o):
        k = st['k']
        if k == 'M' and o['status'] == 'ok':
            idx = o['vals'][0]
            pino = o['pino']      # pseudo inode of the mount point (harness: path_walk right after the mount)
            old = self.mounts.get(pino)
            if old is not None:
                self.owner.pop(old['idx'], None); self.mapping_of.pop(old['idx'], None)
            self.owner[idx] = st['bid']; self.mapping_of[idx] = st['map']
            cp = canon(st['path']['comps']); nested = False
            for om in self.mounts.values():
                oc = om['cpath']
                if oc != cp and (oc == cp[:len(oc)] or cp == oc[:len(cp)]):
                    om['nested'] = True; nested = True
            self.mounts[pino] = {'bid': st['bid'], 'idx': idx, 'root': st['ans']['ino'], 'path': st['path'], 'ans': st['ans'],
                                 'map': st['map'], 'root_uid': st['ans']['uid'], 'root_gid': st['ans']['gid'], 'cpath': cp, 'nested': nested}
        elif k == 'U' and o['status'] == 'ok':
            pino = o['vals'][0]
            old = self.mounts.pop(pino, None)
            if old is not None:
                self.owner.pop(old['idx'], None); self.mapping_of.pop(old['idx'], None)
        elif k == 'I' and o['status'] == 'ok': self.initialized = True
        elif k == 'D': self.initialized = False
    def finish(self):
        self.s.end()
    def coq_expr(self):
        return '(obs_eqb (run_hist %s [%s]) [%s])' % (cfg_coq(self.cfg), ';\n '.join(step_coq(s, self.tb) for s in self.steps),
                                                     '; '.join('[' + '; '.join(str(x) for x in f) + ']' for f in self.flat))
    def coq_diff_expr(self):
        return '(first_diff 0 (run_hist %s [%s]) [%s])' % (cfg_coq(self.cfg), ';\n '.join(step_coq(s, self.tb) for s in self.steps),
                                                          '; '.join('[' + '; '.join(str(x) for x in f) + ']' for f in self.flat))
    def coq_model_obs(self, i):
        return '(nth %d (run_hist %s [%s]) [])' % (i, cfg_coq(self.cfg), ';\n '.join(step_coq(s, self.tb) for s in self.steps[:i + 1]))
    def replay_obj(self, upto=None):
        n = len(self.steps) if upto is None else upto + 1
        return {'cfg': self.cfg, 'harness_input': [cfg_tok(1, self.cfg)] + [step_tok(s) for s in self.steps[:n]] + ['END'],
                'observed': [o['raw'] for o in self.obs[:n]]}

def decode(x): return (x >> 56) & 0xff, x & MAX_INO

# ------------------------------------------------------------------ building blocks for generators
ID_EDGE = [0, 1, 999, 1000, 1001, 65535, 65536, 66535, 66536, 100000, 165535, 165536, U32 - 1]
def pick_id(rng, maps):
    """ids at i-1, i, i+r-1, i+r (and the same for e) of the given mappings, or an edge value"""
    c = list(ID_EDGE)
    for m in maps:
        if m is None: continue
        i, e, r = m
        for b in (i, e): c += [max(b - 1, 0), b, b + max(r, 1) - 1, min(b + r, U32 - 1)]
    return min(rng.choice(c), U32 - 1)

def gen_mapping(rng, wf=True):
    r = rng.choice([1, 2, 1000, 65536])
    base = [0, 1000, 65536, 100000, 200000]
    i = rng.choice(base); e = rng.choice(base)
    if not wf and rng.random() < 0.5: e = U32 - rng.choice([1, r // 2 + 1])      # e + r overflows
    return (i, e, r)

# per-mount mappings at the edge of the notion: an explicit override with an empty range ("translate nothing on this mount",
# which must hide the global mapping), identity, range 1, the largest range, and triples whose internal+range or
# external+range leaves u32 (translation may overflow: panic in a debug build)
DEGENERATE_MAPS = [(0, 0, 0), (5, 7, 0), (1000, 1000, 500), (3, 9, 1), (0, 1, U32 - 1),
                   # audit6: the largest well-formed ranges with BOTH bases non-zero, either order: ids at the top of the range are
                   # within u32 before and after translation, but any other order of the additions (value + to - from) overflows
                   (1000, 2000, U32 - 2000), (2000, 1000, U32 - 2000)][:5 if os.environ.get('VFS_AUDIT6_OFF') else None]
OVERFLOW_MAPS = [(U32 - 10, 5, 100), (5, U32 - 10, 100)]

def check_model(name, cases, ev, broken, shard=40, max_report=3):
    """the tie: the Coq model replays each recorded history and must produce exactly the recorded observations.
    -> list of (case, first differing step) for disagreeing cases"""
    exprs = [c.coq_expr() for c in cases]
    fails, errs = coq_check_cases(name, COQ_HEADER, exprs, shard=shard)
    for e in errs: broken.append({'kind': 'correspondence', 'name': 'coq evaluation of %s failed' % name, 'log': e['log'][-1200:]})
    out = []
    if fails:
        vals, errs2 = coq_eval_values(name + '_diff', COQ_HEADER, [cases[i].coq_diff_expr() for i in fails[:20]], shard=5)
        for i, v in zip(fails[:20], vals):
            m = re.search(r'Some (\d+)', v or '')
            out.append((cases[i], int(m.group(1)) if m else None))
    ev.cov['model_vs_impl_cases'] = ev.cov.get('model_vs_impl_cases', 0) + len(exprs)
    return out

def describe_disagreement(name, case, step_i):
    d = {'kind': 'correspondence', 'name': name, 'step': step_i}
    if step_i is not None and step_i < len(case.steps):
        vals, _ = coq_eval_values('vfs_dis_' + re.sub(r'\W', '_', name)[:12] + '_%d' % os.getpid(), COQ_HEADER, [case.coq_model_obs(step_i)], shard=1)
        d['step_input'] = step_tok(case.steps[step_i]); d['implementation'] = case.obs[step_i]['raw']
        d['implementation_flat'] = case.flat[step_i]; d['model'] = vals[0]
        d['case'] = case.replay_obj(step_i)
    return d

# ------------------------------------------------------------------ adaptive history generator
INO_EDGE = [0, 1, 2, 3, MAX_INO - 1, MAX_INO, MAX_INO + 1, (1 << 63), TWO64 - 1]
FATTR_MODE, FATTR_UID, FATTR_GID, FATTR_SIZE = 1, 2, 4, 8
SETATTR_VALID = [FATTR_UID, FATTR_GID, FATTR_UID | FATTR_GID, 0, FATTR_UID | FATTR_MODE, FATTR_GID | FATTR_SIZE, FATTR_UID | FATTR_GID | FATTR_MODE | FATTR_SIZE, FATTR_MODE | FATTR_SIZE]
OPT_BITS = [1, 8, 32, 2048, 4096, 8192, 16384, 32768, 65536, 131072, 262144, 4194304, 8388608, 16777216, 33554432, 268435456, 8589934592]

class HistoryGen:
    """Chooses the next step of a history from what the implementation answered so far."""
    def __init__(self, case, rng, use_maps=False, wf_maps=True):
        self.c, self.rng, self.use_maps, self.wf_maps = case, rng, use_maps, wf_maps
        self.next_bid = 10
        self.pool = []            # inode numbers handed out by the implementation (kept after umount: stale)
        self.next_ino = {}        # per backend: next fresh inode number
        self.names = list(range(1, 7))
        self.maps_in_play = [case.cfg['gmap']]
    # ---- values
    def fresh_ino(self, bid):
        r = self.rng.random()
        if r < 0.04: return 0
        if r < 0.10: return self.rng.choice(INO_EDGE)
        n = self.next_ino.get(bid, 2); self.next_ino[bid] = n + 1
        return n if self.rng.random() < 0.9 else (n << 20) + 5
    def uid(self): return pick_id(self.rng, self.maps_in_play)
    def ent(self, bid, consistent=True):
        i = self.fresh_ino(bid)
        return {'ino': i, 'stino': i if (consistent or self.rng.random() < 0.5) else (i + 17) % TWO64, 'uid': self.uid(), 'gid': self.uid(), 'tag': self.rng.randrange(1, 1000)}
    def errno(self):
        return self.rng.choice([0] * 8 + [2, 13, 5, -1])
    def nodeid(self):
        r = self.rng.random(); live = list(self.c.mounts.values())
        if r < 0.45 and self.pool: return self.rng.choice(self.pool)
        if r < 0.55: return ROOT_INO
        if r < 0.65: return self.rng.randrange(1, 12)                       # pseudo inodes (existing or not)
        if r < 0.80 and live:
            m = self.rng.choice(live); return (m['idx'] << 56) | self.rng.choice([m['root'], 1, 2, 3, MAX_INO])
        if r < 0.90: return (self.rng.randrange(0, 256) << 56) | self.rng.choice([1, 2, 5, MAX_INO])
        return self.rng.choice([0, TWO64 - 1, 1 << 56, (255 << 56) | 1, (1 << 56) - 1])
    def name(self):
        r = self.rng.random()
        if r < 0.78: return ('norm', self.rng.choice(self.names))
        if r < 0.86: return ('dot',)
        if r < 0.93: return ('dotdot',)
        if r < 0.97: return ('slash', self.rng.randrange(1, 4))
        return ('bad', self.rng.randrange(1, 4))
    def path(self, maxdepth=3, allow_root=True):
        r = self.rng.random()
        if allow_root and r < 0.08: comps = []
        else:
            depth = self.rng.randrange(1, maxdepth + 1) if self.rng.random() < 0.93 else self.rng.randrange(4, 7)
            comps = [('N', self.rng.choice(self.names)) for _ in range(depth)]
            if self.rng.random() < 0.08:
                comps.insert(self.rng.randrange(0, len(comps) + 1), ('P',))
        return mk_path(self.rng, comps, rooted=self.rng.random() > 0.03)
    def mapping(self):
        if not self.use_maps or self.rng.random() < 0.4: return None
        m = gen_mapping(self.rng, wf=self.wf_maps or self.rng.random() < 0.9)
        self.maps_in_play.append(m)
        return m
    # ---- steps
    def mount(self, path=None, map='gen', ans=None):
        bid = self.next_bid; self.next_bid += 1
        if ans is None:
            r = self.rng.random()
            ans = {'err': 0 if r < 0.93 else self.rng.choice([5, 38, -1]), 'ino': self.rng.choice([1, 1, 1, 2, 7, MAX_INO, 0, MAX_INO + 1]) if self.rng.random() < 0.3 else 1,
                   'uid': self.uid(), 'gid': self.uid(), 'tag': self.rng.randrange(1, 1000),
                   'max': self.rng.choice([100, MAX_INO, MAX_INO + 1, TWO64 - 1]) if self.rng.random() < 0.15 else 1000,
                   'init_err': 0 if self.rng.random() < 0.92 else 5}
        st = {'k': 'M', 'bid': bid, 'path': path or self.path(), 'map': self.mapping() if map == 'gen' else map, 'ans': ans}
        if st['map'] is None and self.rng.random() < 0.3: st['plain'] = True
        o = self.c.do(st)
        if o['status'] == 'ok' and ans['ino'] != 0 and ans['ino'] <= MAX_INO:
            self.pool.append((o['vals'][0] << 56) | ans['ino'])
        return st, o
    def umount(self, path=None):
        if path is None:
            live = list(self.c.mounts.values())
            if live and self.rng.random() < 0.8: path = self.rng.choice(live)['path']
            else: path = self.path()
        return self.c.do({'k': 'U', 'path': path})
    def owner_bid(self, nodeid):
        idx, ino = decode(nodeid)
        if idx == 0:
            if nodeid == ROOT_INO and ROOT_INO in self.c.mounts: return self.c.mounts[ROOT_INO]['bid']
            return None
        return self.c.owner.get(idx)
    def request(self, op=None, nodeid=None, **kw):
        tb = self.c.tb
        allops = ['lookup', 'forget', 'batch_forget', 'getattr', 'setattr', 'rename', 'link', 'readdir', 'readdirplus'] + tb.fwd + tb.unfwd
        if op is None:
            r = self.rng.random()
            op = 'lookup' if r < 0.2 else (self.rng.choice(['getattr', 'readdir', 'readdirplus', 'rename', 'link', 'setattr']) if r < 0.45 else self.rng.choice(allops))
        ino = self.nodeid() if nodeid is None else nodeid
        bid = self.owner_bid(ino) or 0
        ino2 = 0
        if op in ('rename', 'link', 'batch_forget'):
            r = self.rng.random()
            if r < 0.5: ino2 = (ino & ~MAX_INO) | self.rng.choice([1, 2, 3])          # same mount
            elif r < 0.6: ino2 = ino
            else: ino2 = self.nodeid()
        consistent = self.rng.random() < 0.8
        e = self.ent(bid, consistent)
        a = mk_ans(err=self.errno(), ent=e, attr={'ino': self.fresh_ino(bid), 'uid': self.uid(), 'gid': self.uid(), 'tag': self.rng.randrange(1, 1000)},
                   tag=self.rng.randrange(1, 1000))
        if op in ('readdir', 'readdirplus'):
            for _ in range(self.rng.choice([0, 1, 2, 3, 5])):
                de = self.ent(bid, consistent)
                a['dir'].append((de['ino'] if consistent else self.fresh_ino(bid), self.rng.randrange(1, 50), de))
        d = dict(uid=self.uid(), gid=self.uid(), ino2=ino2, name=self.name(), name2=self.name() if self.rng.random() < 0.3 else ('norm', 9),
                 auid=self.uid(), agid=self.uid(), size=self.rng.choice([4096, 4096, 0, 1]), offset=self.rng.choice([0, 0, 0, 1, 2, 7]),
                 limit=self.rng.choice([100, 100, 0, 1, 2]), ans=a)
        if op == 'setattr': d['size'] = self.rng.choice(SETATTR_VALID)
        if op in tb.async_ops and not os.environ.get('VFS_NO_ASYNC'):
            d['mode'] = self.rng.choice(['s', 's', 'a', 'y'])          # each of the ten twin operations through either entry point
        # the way a Server holds the Vfs: four requests out of five go through Arc<Vfs> (period 5: independent of the period-2/3/4
        # patterns the deterministic blocks use for ids, valid bits and entry points)
        self.nreq = getattr(self, 'nreq', 0) + 1
        d['wrap'] = (self.nreq % 5 != 0) and not os.environ.get('VFS_NO_WRAP')
        d.update(kw)
        st = mk_req(op, ino, **d)
        o = self.c.do(st)
        self.harvest(st, o)
        return st, o
    def harvest(self, st, o):
        if o['status'] != 'ok': return
        if st['op'] in ('lookup', 'link') + tuple(self.c.tb.entry_ops) and len(o['vals']) == 5 and o['vals'][0] > 1:
            self.pool.append(o['vals'][0])
        for d in o.get('dir', []):
            if d['ino'] > 1 and self.rng.random() < 0.5: self.pool.append(d['ino'])
        if len(self.pool) > 60: self.pool = self.pool[-60:]
    def init(self):
        opts = 0
        for b in OPT_BITS:
            if self.rng.random() < 0.6: opts |= b
        if self.rng.random() < 0.1: opts = 0
        return self.c.do({'k': 'I', 'opts': opts, 'ierr': 0 if self.rng.random() < 0.85 else 5})
    def random_step(self):
        r = self.rng.random(); nm = len(self.c.mounts)
        if r < (0.30 if nm < 4 else 0.10): return self.mount()
        if r < (0.36 if nm < 4 else 0.22): return self.umount()
        if r < 0.39: return self.init()
        if r < 0.40: return self.c.do({'k': 'D'})
        if r < 0.43: return self.c.do({'k': 'Q'})
        return self.request()

# ------------------------------------------------------------------ replay of a recorded failing input
def replay_generic(prop, path, features=None):
    """./check Cxx --replay file: run the harness on the recorded step list(s) and show what the implementation answers now.
    exit 1 when the recorded (failing) observations are reproduced, 0 when the implementation now answers differently."""
    d = json.load(open(path))
    items = d.get('failing') or [b for b in d.get('broken', []) if isinstance(b, dict) and b.get('case')]
    ok, out, bindir = cargo_build(['vfs'], features=['persist', 'async-io'])      # one feature set for C07/C14/C19: they share the binary
    if not ok:
        print(out[-2000:]); return 2
    rc = 0
    for it in items[:5]:
        inp = it.get('input') or it.get('case')
        if not inp or 'harness_input' not in inp: continue
        r, o = run([os.path.join(bindir, 'vfs')], input='\n'.join(inp['harness_input']) + '\n', timeout=120)
        lines = [l.strip() for l in o.split('\n') if l and not l.startswith('CASE')]      # observations are recorded stripped
        same = lines == inp.get('observed', [])[:len(lines)] and len(lines) >= len(inp.get('observed', []))
        print('--- %s' % (it.get('what') or it.get('name') or '')[:200])
        for a, b in list(zip(inp['harness_input'][1:], lines))[-6:]: print('   %s\n      => %s' % (a[:200], b[:300]))
        print('   %s' % ('REPRODUCED: the implementation answers exactly as recorded' if same else 'NOT reproduced: the implementation now answers differently'))
        if same: rc = 1
    if not items: print('no concrete input recorded in this replay file (a proof obligation or the tie broke): %s' % json.dumps(d.get('broken', [])[:2])[:1500])
    return rc
