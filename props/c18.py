"""C18 -- a size-sealed export never lets a client change a file's size.

Coq: Model/Seal.v, Proofs/Seal.v, Props/C18.v.
Tie: harness bin `seal` (raw FUSE message pipe into Server::handle_message over the real
PassthroughFs with seal_size on); histories of open/create/write/fallocate/setattr/release
against real files; the sizes of all files are read from the host after every request and
compared with the Coq model (coq_check_cases); the property predicate (size unchanged,
size-changing requests refused, in-size requests behave as on an unsealed export run in
lockstep) is evaluated on the observations."""
import os, sys, json, random, struct, shutil, time, re
from vlib import *
from c16 import FuseClient, FuseError, OP, parse_entry_out, FUSE_NO_OPEN_SUPPORT, FUSE_ATOMIC_O_TRUNC

PROP = 'C18'
SIZES0 = [0, 1, 4095, 4096, 10 ** 6, 2 ** 32 + 1]          # the last one is sparse: sizes beyond u32
FUSE_WRITEBACK_CACHE, FUSE_HANDLE_KILLPRIV_V2 = 1 << 16, 1 << 28
NAMES = [b'f0', b'...', b'f2', b'..f3', b'f4', b'..data']    # some names start with dots: ordinary files
O_TRUNC, O_APPEND, O_EXCL, O_NONBLOCK = 0o1000, 0o2000, 0o200, 0o4000
O_CREAT, O_DIRECT, O_DIRECTORY, O_NOFOLLOW, O_CLOEXEC, O_SYNC, O_PATH, O_TMPFILE = 0x40, 0x4000, 0x10000, 0x20000, 0x80000, 0x101000, 0x200000, 0x410000
FATTR_MODE, FATTR_SIZE, FATTR_FH = 1, 8, 64
EPERM, EBADF, EINVAL = 1, 9, 22
U64 = 2 ** 64 - 1

COQ_HEADER = ('From Coq Require Import List NArith Bool.\nFrom FB Require Import Model.Seal.\n'
              'Import ListNotations.\nLocal Open Scope N_scope.\n')

def coq_fixes(fx):
    return '(mk_fixes %s %s %s)' % tuple('true' if fx[k] else 'false' for k in ('fx_open', 'fx_create', 'fx_append'))

class Inst:
    """one file system instance over its own copy of the tree"""
    def __init__(self, bindir, root, seal, no_open, kind='passthrough', opts='', verb='msg'):
        self.root, self.seal, self.no_open, self.kind = root, seal, no_open, kind
        shutil.rmtree(root, ignore_errors=True); os.makedirs(root)
        for i, sz in enumerate(SIZES0):
            with open(os.path.join(root.encode(), NAMES[i]), 'wb') as f: f.truncate(sz)
        self.cl = FuseClient(os.path.join(bindir, 'seal')); self.cl.verb = verb
        if kind == 'passthrough': self.cl.new('passthrough root=%s seal_size=%d no_open=%d cache_always=%d %s' % (root, seal, no_open, no_open, opts))
        else: self.cl.new('vfs seal_size=%d no_open=%d cache_always=%d %s mount=/=%s' % (seal, no_open, no_open, opts, root))
        want = (FUSE_NO_OPEN_SUPPORT if no_open else 0) | (FUSE_WRITEBACK_CACHE if 'writeback=1' in opts else 0) | (FUSE_HANDLE_KILLPRIV_V2 if 'killpriv_v2=1' in opts else 0)
        neg = self.cl.init(FUSE_ATOMIC_O_TRUNC | want)
        if neg & want != want: raise FuseError('negotiation failed: wanted %#x got %#x (%s)' % (want, neg, opts))
        self.nodes = []
        for i in range(len(SIZES0)):
            err, ent = self.cl.lookup(1, NAMES[i])
            if err: raise FuseError('lookup f%d -> %d' % (i, err))
            self.nodes.append(ent['nodeid'])
        self.fh = {}          # slot -> real fh
    def sizes(self):
        return [os.stat(os.path.join(self.root.encode(), NAMES[i])).st_size for i in range(len(SIZES0))]
    def reset_sizes(self, szs):
        for i, sz in enumerate(szs):
            p = os.path.join(self.root.encode(), NAMES[i])
            if os.stat(p).st_size != sz: os.truncate(p, sz)
    def close(self):
        self.cl.close(); shutil.rmtree(self.root, ignore_errors=True)
    def send(self, r):
        """-> errno (0 ok); 'panic'/'noreply' strings on anomalies"""
        cl = self.cl; k = r['op']
        if k == 'open':
            rep = cl.msg(OP['OPEN'], self.nodes[r['file']], struct.pack('<II', r['flags'], r.get('ofuse', 0)))
            if isinstance(rep, tuple) and rep[0] == 0: self.fh[r['slot']] = struct.unpack('<Q', rep[1][:8])[0]
        elif k == 'create':
            rep = cl.msg(OP['CREATE'], 1, struct.pack('<IIII', r['flags'], 0o644, 0, r.get('ofuse', 0)) + NAMES[r['file']] + b'\0')
            if isinstance(rep, tuple) and rep[0] == 0:
                if not self.no_open: self.fh[r['slot']] = struct.unpack('<Q', rep[1][128:136])[0]
                cl.forget(parse_entry_out(rep[1])['nodeid'], 1)
        elif k == 'write':
            fh = 0 if self.no_open else self.fh.get(r['slot'], 0xdead0000 + r['slot'])
            rep = cl.msg(OP['WRITE'], self.nodes[r['file']],
                         struct.pack('<QQIIQII', fh, r['off'], r['len'], r.get('wfuse', 0), 0, r['wflags'], 0) + b'\xab' * r['len'], bufsize=4096)
        elif k == 'read':
            fh = 0 if self.no_open else self.fh.get(r['slot'], 0xdead0000 + r['slot'])
            rep = cl.msg(OP['READ'], self.nodes[r['file']], struct.pack('<QQIIQII', fh, 0, 16, 0, 0, r['rflags'], 0), bufsize=8192)
            if isinstance(rep, tuple): rep = (rep[0], b'')
        elif k == 'raw':
            rep = cl.msg(r['opcode'], r['nodeid'], r['mk'](r['fhfn']()), bufsize=8192)
            if isinstance(rep, tuple): rep = (rep[0], b'')
        elif k == 'fallocate':
            fh = 0 if self.no_open else self.fh.get(r['slot'], 0xdead0000 + r['slot'])
            rep = cl.msg(OP['FALLOCATE'], self.nodes[r['file']], struct.pack('<QQQII', fh, r['off'], r['len'], r['mode'], 0))
        elif k == 'setattr':
            valid = FATTR_SIZE if r['with_size'] else FATTR_MODE
            fh = 0
            if r.get('fh') is not None:                      # FATTR_FH: through the handle in that slot
                valid |= FATTR_FH; fh = 0 if self.no_open else self.fh.get(r['fh'], 0xdead0000 + r['fh'])
            rep = cl.msg(OP['SETATTR'], self.nodes[r['file']],
                         struct.pack('<IIQQQQQQIIIIIIII', valid, 0, fh, r['size'], 0, 0, 0, 0, 0, 0, 0, 0o100644, 0, 0, 0, 0))
        elif k == 'release':
            fh = self.fh.get(r['slot'], 0xdead0000 + r['slot'])
            rep = cl.msg(OP['RELEASE'], self.nodes[r['file']], struct.pack('<QIIQ', fh, r.get('rlflags', 0), 0, 0))
            if isinstance(rep, tuple) and rep[0] == 0: self.fh.pop(r['slot'], None)
        else:
            raise ValueError(k)
        if rep == 'panic': return 'panic'
        if rep is None: return 'noreply'
        return rep[0]

def coq_req(r):
    k = r['op']
    if k == 'open': return 'Open %d %d %d' % (r['slot'], r['file'], r['flags'])
    if k == 'create': return 'Create %d %d %d' % (r['slot'], r['file'], r['flags'])
    if k == 'write': return 'Write %d %d %d %d %d' % (r['slot'], r['file'], r['off'], r['len'], r['wflags'])
    if k == 'fallocate': return 'Fallocate %d %d %d %d %d' % (r['slot'], r['file'], r['mode'], r['off'], r['len'])
    if k == 'setattr': return 'Setattr %d %s %d %s' % (r['file'], 'true' if r['with_size'] else 'false', r['size'], 'None' if r.get('fh') is None else '(Some %d)' % r['fh'])
    if k == 'release': return 'Release %d %d' % (r['slot'], r['file'])
    if k == 'read': return 'Read %d %d %d' % (r['slot'], r['file'], r['rflags'])
    if k == 'raw': return 'raw opcode %d' % r['opcode']

def coq_hist(seal, no_open, fx, wb, dio, cases):
    """(hist_check ...) over observations; Ob = sizes as after the previous request (elaborating the size vector of every
    step costs more than evaluating the model)"""
    obs = []; prev = list(SIZES0)
    for r, e, a in cases:
        if list(a) == prev: obs.append('Ob (%s) %d' % (coq_req(r), e))
        else: obs.append('Oz (%s) %d [%s]' % (coq_req(r), e, '; '.join(map(str, a)))); prev = list(a)
    z = '[%s]' % '; '.join(map(str, SIZES0))
    return '(hist_check tie_host (mk_cfg %s %s %s %s %s) %d (init_state %s) %s [%s])' % (
        'true' if seal else 'false', 'true' if no_open else 'false', coq_fixes(fx), 'true' if wb else 'false', 'true' if dio else 'false',
        len(SIZES0), z, z, ';\n '.join(obs))

def balanced(exprs, nbins):
    """order the expressions so that consecutive shards of equal length carry about the same amount of text:
    -> (permuted list, shard length, position -> original index)"""
    nbins = max(1, min(nbins, len(exprs)))
    per = (len(exprs) + nbins - 1) // nbins
    bins = [[] for _ in range(nbins)]; load = [0] * nbins
    for i in sorted(range(len(exprs)), key=lambda i: -len(exprs[i])):
        k = min((b for b in range(nbins) if len(bins[b]) < per), key=lambda b: load[b])
        bins[k].append(i); load[k] += len(exprs[i])
    order = []                      # shards are cut every `per` items: full bins first
    for b in sorted(range(nbins), key=lambda b: -len(bins[b])): order += bins[b]
    return [exprs[i] for i in order], per, order

def around(rng, size, ln):
    c = [0, size, max(0, size - ln), max(0, size - ln + 1), max(0, size - 1), size + 1, size // 2, rng.randrange(size + 1), size + 4096]
    if rng.random() < 0.08: c += [2 ** 63 - 1, 2 ** 63, U64 - ln + 1, U64 - ln, U64]
    return rng.choice(c)

FALLOC_MODES = [0, 1, 2, 3, 16, 17, 8, 32, 64, 65, 9, 33, 4, 128, 19]

def gen_history(rng, n, no_open, modes=None):
    """abstract requests; `slots` tracks what the generator believes is open (file, flags)"""
    slots = {}; H = []
    for _ in range(n):
        x = rng.random()
        f = rng.randrange(len(SIZES0))
        if x < 0.22 or (not slots and not no_open and x < 0.6):
            acc = rng.choice([0, 1, 2, 2, 2])
            fl = acc | (O_TRUNC if rng.random() < 0.2 else 0) | (O_APPEND if rng.random() < 0.3 else 0) | (O_NONBLOCK if rng.random() < 0.1 else 0)
            if rng.random() < 0.35:
                if rng.random() < 0.1: fl |= O_EXCL
                r = {'op': 'create', 'slot': rng.randrange(4), 'file': f, 'flags': fl}
                if not (fl & O_EXCL) and not no_open: slots[r['slot']] = (f, fl)
            else:
                r = {'op': 'open', 'slot': rng.randrange(4), 'file': f, 'flags': fl, 'ofuse': rng.choice([0, 0, 1])}
                if not no_open: slots[r['slot']] = (f, fl)
        elif x < 0.62:
            if no_open: slot, hf, hfl = 0, f, 2
            elif slots:
                slot = rng.choice(sorted(slots)); hf, hfl = slots[slot]
                if rng.random() < 0.05: hf = f          # wrong inode for the handle
            else: continue
            ln = rng.choice([0, 1, 4, 100, 4096, 3000])
            acc = hfl & 3
            wfl = rng.choice([hfl, acc, acc | O_APPEND, O_APPEND, acc | O_NONBLOCK, acc | O_APPEND | O_NONBLOCK, hfl & ~O_TRUNC, 2])
            if rng.random() < 0.15:
                r = {'op': 'read', 'slot': slot, 'file': hf, 'rflags': wfl}
            else:
                r = {'op': 'write', 'slot': slot, 'file': hf, 'off': None, 'len': ln, 'wflags': wfl, 'wfuse': rng.choice([0, 0, 1, 2, 4, 7])}
            if not no_open and slot in slots and slots[slot][0] == hf: slots[slot] = (hf, wfl)
        elif x < 0.82:
            if no_open: slot, hf = 0, f
            elif slots: slot = rng.choice(sorted(slots)); hf = slots[slot][0]
            else: continue
            r = {'op': 'fallocate', 'slot': slot, 'file': hf, 'mode': rng.choice(modes or FALLOC_MODES), 'off': None, 'len': rng.choice([0, 1, 100, 4096, 8192, 4095])}
        elif x < 0.93:
            ws = rng.random() < 0.7
            r = {'op': 'setattr', 'file': f, 'with_size': ws, 'size': None}
        else:
            if no_open or not slots: continue
            slot = rng.choice(sorted(slots)); r = {'op': 'release', 'slot': slot, 'file': slots[slot][0]}
            del slots[slot]
        H.append(r)
    return H

def boundary_history(f, size, no_open):
    """ranges that end at EOF-1, EOF and EOF+1 (and start at EOF-1, EOF, EOF+1) for file f of the given size: writes with
    plain and appending flag words, every size-relevant fallocate mode, setattr to size-1/size/size+1"""
    H = [{'op': 'open', 'slot': 0, 'file': f, 'flags': 2}]
    ranges = []
    for ln in (1, 2, 4096):
        for end in (size - 1, size, size + 1):
            if end - ln >= 0: ranges.append((end - ln, ln))
    for off in (max(0, size - 1), size, size + 1):
        ranges.append((off, 1)); ranges.append((off, 0))
    seen = set()
    for off, ln in ranges:
        if (off, ln) in seen: continue
        seen.add((off, ln))
        if ln <= 4096:
            H.append({'op': 'write', 'slot': 0, 'file': f, 'off': off, 'len': ln, 'wflags': 2})
            H.append({'op': 'write', 'slot': 0, 'file': f, 'off': off, 'len': ln, 'wflags': 2 | O_APPEND})
        for mode in (0, 1, 3, 16, 17):
            H.append({'op': 'fallocate', 'slot': 0, 'file': f, 'mode': mode, 'off': off, 'len': ln})
    for ns in (max(0, size - 1), size, size + 1):
        H.append({'op': 'setattr', 'file': f, 'with_size': True, 'size': ns})
    # the flag word switched by a READ (check_fd_flags is shared), then writes with the same / another word
    for rfl in (2 | O_APPEND, 2):
        H.append({'op': 'read', 'slot': 0, 'file': f, 'rflags': rfl})
        for wfl in (2 | O_APPEND, 2):
            H.append({'op': 'write', 'slot': 0, 'file': f, 'off': size, 'len': 1, 'wflags': wfl})
            H.append({'op': 'write', 'slot': 0, 'file': f, 'off': max(0, size - 1), 'len': 1, 'wflags': wfl, 'wfuse': 4})
    # a handle of another file / a handle that does not exist
    g = (f + 1) % len(SIZES0)
    H.append({'op': 'open', 'slot': 1, 'file': g, 'flags': 2})
    H.append({'op': 'write', 'slot': 1, 'file': f, 'off': size, 'len': 1, 'wflags': 2})
    H.append({'op': 'fallocate', 'slot': 1, 'file': f, 'mode': 0, 'off': size, 'len': 1})
    H.append({'op': 'write', 'slot': 3, 'file': f, 'off': size, 'len': 1, 'wflags': 2})
    H.append({'op': 'release', 'slot': 1, 'file': g})
    H.append({'op': 'release', 'slot': 0, 'file': f})
    return H

def flag_words():
    """the flag words of the deterministic flag block: every bit 0..31 alone (as it comes and with each access mode),
    with O_APPEND, with O_TRUNC; access mode 3; composite words (O_SYNC, O_TMPFILE, O_PATH|O_DIRECTORY, all ones ...)"""
    W = []
    def add(x):
        x &= 0xffffffff
        if x not in W: W.append(x)
    for b in range(32):
        w = 1 << b
        for x in (w, w | 1, w | 2, w | 2 | O_APPEND, w | 2 | O_TRUNC, w | O_TRUNC, w | 1 | O_APPEND): add(x)
    TB = 0x400000
    for x in (0, 3, 3 | O_TRUNC, 3 | O_APPEND, 2 | O_APPEND | O_TRUNC, O_SYNC | 2, O_TMPFILE | 2, O_TMPFILE | 2 | O_TRUNC, O_TMPFILE, O_PATH | O_DIRECTORY,
              O_PATH | O_TRUNC | O_APPEND | 2, O_CREAT | O_EXCL | O_TRUNC | 2, O_CREAT | O_TRUNC | 1, O_NOFOLLOW | O_TRUNC, O_DIRECTORY | O_TRUNC | 2,
              0xffffffff, 0xffffffff & ~O_DIRECT, 0xffffffff & ~(O_DIRECT | O_APPEND), 0xffffffff & ~(O_DIRECT | O_APPEND | O_PATH | O_DIRECTORY | TB),
              0xffffffff & ~(O_DIRECT | O_APPEND | O_TRUNC | O_PATH | O_DIRECTORY | TB | O_EXCL), O_DIRECT | O_TRUNC | O_APPEND | 1): add(x)
    return W

def flag_block(no_open, f, size, words):
    """deterministic: each word of `words` in the flags field of every request that carries an open-flags word, on the
    pre-existing non-empty file f: READ and WRITE (inside, beyond EOF) on a long-lived handle / on the per-request
    descriptor of no_open; OPEN and CREATE with the word, then WRITE / READ / FALLOCATE / SETATTR(FH) through the handle
    they return, RELEASE with the word"""
    H = []
    if not no_open: H.append({'op': 'open', 'slot': 0, 'file': f, 'flags': 2})
    for i, w in enumerate(words):
        H.append({'op': 'read', 'slot': 0, 'file': f, 'rflags': w})
        H.append({'op': 'write', 'slot': 0, 'file': f, 'off': size - 1, 'len': 1, 'wflags': w, 'wfuse': 4 * (i & 1)})
        H.append({'op': 'write', 'slot': 0, 'file': f, 'off': size, 'len': 1, 'wflags': w})
        H.append({'op': 'open', 'slot': 2, 'file': f, 'flags': w, 'ofuse': i & 1})
        if not no_open:
            H.append({'op': 'write', 'slot': 2, 'file': f, 'off': 0, 'len': 1, 'wflags': w})
            H.append({'op': 'read', 'slot': 2, 'file': f, 'rflags': w})
            H.append({'op': 'write', 'slot': 2, 'file': f, 'off': size - 1, 'len': 1, 'wflags': 2})
            H.append({'op': 'fallocate', 'slot': 2, 'file': f, 'mode': 0, 'off': 0, 'len': 1})
            H.append({'op': 'fallocate', 'slot': 2, 'file': f, 'mode': 0, 'off': size, 'len': 1})
            H.append({'op': 'setattr', 'file': f, 'with_size': bool(i % 3), 'size': size + 1 if i % 3 else 0, 'fh': 2})
            H.append({'op': 'release', 'slot': 2, 'file': f, 'rlflags': w})
        H.append({'op': 'create', 'slot': 2, 'file': f, 'flags': w})
        if not no_open:
            H.append({'op': 'write', 'slot': 2, 'file': f, 'off': size - 1, 'len': 2 - (i & 1), 'wflags': w})
            H.append({'op': 'release', 'slot': 2, 'file': f, 'rlflags': w})
        elif i % 4 == 0:
            H.append({'op': 'fallocate', 'slot': 0, 'file': f, 'mode': 0, 'off': 0, 'len': 1})
            H.append({'op': 'fallocate', 'slot': 0, 'file': f, 'mode': 0, 'off': size, 'len': 1})
            H.append({'op': 'setattr', 'file': f, 'with_size': True, 'size': size - 1, 'fh': 0})
    if not no_open: H.append({'op': 'release', 'slot': 0, 'file': f})
    return H

def unsealed_flag_history(no_open, f=3):
    """validates host_open / host_setfl of the model on an UNSEALED export: every bit with O_TRUNC in OPEN and CREATE (truncates
    unless the word carries O_PATH / O_DIRECTORY / __O_TMPFILE / O_EXCL on create), the size restored by SETATTR, and the same
    words on WRITE / READ (F_SETFL ignores O_TRUNC)"""
    H = []; size = SIZES0[f]
    if not no_open: H.append({'op': 'open', 'slot': 0, 'file': f, 'flags': 2})
    for b in range(32):
        if (1 << b) == O_DIRECT: continue
        w = (1 << b) | 2 | O_TRUNC
        for op in ('open', 'create'):
            H.append({'op': op, 'slot': 2, 'file': f, 'flags': w})
            if not no_open: H.append({'op': 'release', 'slot': 2, 'file': f})
            H.append({'op': 'setattr', 'file': f, 'with_size': True, 'size': size})
        H.append({'op': 'write', 'slot': 0, 'file': f, 'off': 0, 'len': 1, 'wflags': w})
        H.append({'op': 'read', 'slot': 0, 'file': f, 'rflags': w})
    return H

class raw_sweep_proxy:
    """the sweep needs the instance (node ids, handle): it is materialised when iterated inside sealed_history"""
    def __init__(self, f): self.f = f

def raw_sweep(S, f, size):
    """request fields the model does not know, one at a time (sealed export, judged by the predicate only): every bit
    of the OPEN/CREATE flag word alone and with O_TRUNC, every SETATTR valid bit alone / with SIZE / with FH, every
    fallocate mode 0..255 inside, across and beyond EOF, COPY_FILE_RANGE onto the file"""
    node = S.nodes[f]; H = []
    for bit in range(0, 23):
        for extra in (0, O_TRUNC):
            for acc in (2, 0):
                fl = acc | (1 << bit) | extra
                if fl & 0o20000: continue                                  # O_ASYNC: would arm SIGIO for the harness process
                # O_PATH (bit 21) makes the kernel ignore O_TRUNC: such a request cannot change a size
                H.append(({'op': 'open', 'slot': 2, 'file': f, 'flags': fl}, 'change' if fl & O_TRUNC and not fl & 0o10000000 else 'neutral'))
                H.append(({'op': 'release', 'slot': 2, 'file': f}, 'neutral'))
            H.append(({'op': 'create', 'slot': 2, 'file': f, 'flags': 2 | (1 << bit) | extra}, 'change' if extra and (1 << bit) not in (O_EXCL, 0o10000000) else 'neutral'))
            H.append(({'op': 'release', 'slot': 2, 'file': f}, 'neutral'))
    H.append(({'op': 'open', 'slot': 0, 'file': f, 'flags': 2}, 'neutral'))
    fh = lambda: 0 if S.no_open else S.fh.get(0, 0)
    for bit in range(0, 13):
        for valid, cls in ((1 << bit, 'change' if bit == 3 else 'neutral'), ((1 << bit) | FATTR_SIZE, 'change'), ((1 << bit) | 64, 'change' if bit == 3 else 'neutral'), ((1 << bit) | FATTR_SIZE | 64, 'change')):
            for ns in (size + 1, max(0, size - 1)):
                H.append(({'op': 'raw', 'opcode': OP['SETATTR'], 'nodeid': node, 'fhfn': fh, 'mk': (lambda v, n: lambda h: struct.pack('<IIQQQQQQIIIIIIII', v, 0, h, n, 0, 5, 6, 7, 0, 0, 0, 0o100644, 0, 0, 0, 0))(valid, ns)}, cls))
    for mode in range(256):
        op = mode & ~(1 | 64)
        for off, ln in ((0, 1), (max(0, size - 1), 2), (size, 1)):
            cls = 'neutral' if op not in (0, 2, 16, 8, 32) else ('change' if (op in (8, 32) or off + ln > size) else 'within')
            H.append(({'op': 'fallocate', 'slot': 0, 'file': f, 'mode': mode, 'off': off, 'len': ln}, cls))
    # COPY_FILE_RANGE (opcode 47) onto the file, beyond its size
    H.append(({'op': 'raw', 'opcode': 47, 'nodeid': node, 'fhfn': fh, 'mk': lambda h: struct.pack('<QQQQQQQ', h, 0, node, h, size, 8, 0)}, 'change'))
    H.append(({'op': 'release', 'slot': 0, 'file': f}, 'neutral'))
    return H

def concretize(rng, r, sizes, cap):
    """offsets/sizes are chosen relative to the current size of the file"""
    if r['op'] in ('write', 'fallocate') and r['off'] is None:
        sz = sizes[r['file']]
        off = min(around(rng, sz, r['len']), U64)
        if r['op'] == 'fallocate' and (r['mode'] & ~1) in (8, 32):
            if rng.random() < 0.7: off &= ~4095
        if cap is not None and off < 2 ** 62 and off + r['len'] > cap: off = max(0, sz - r['len'])
        r['off'] = off
    if r['op'] == 'setattr' and r['size'] is None:
        sz = sizes[r['file']]
        r['size'] = rng.choice([0, sz, sz + 1, max(0, sz - 1), sz // 2, 12345, 1 << 21]) if r['with_size'] else 0

def classify(r, sizes):
    """what the statement says about r on a sealed export: 'change' (would change a size: must be refused),
    'within' (stays within the size: must behave as unsealed), 'neutral'"""
    k = r['op']
    if k in ('open', 'create'):
        # O_PATH makes the host ignore O_TRUNC: such a request cannot change a size
        return 'change' if (r['flags'] & O_TRUNC and not r['flags'] & O_PATH and not (k == 'create' and r['flags'] & O_EXCL)) else 'neutral'
    if k == 'write':
        if r['wflags'] & O_APPEND and r['len'] > 0: return 'change'       # appends past EOF whatever the offset
        return 'change' if r['off'] + r['len'] > sizes[r['file']] else 'within'
    if k == 'fallocate':
        op = r['mode'] & ~(1 | 64)
        if op in (8, 32): return 'change'
        if op not in (0, 2, 16): return 'neutral'
        return 'change' if r['off'] + r['len'] > sizes[r['file']] else 'within'
    if k == 'setattr': return 'change' if r['with_size'] else 'within'
    return 'neutral'

def will_refuse_write(r, sizes):
    return r['off'] + r['len'] > sizes[r['file']] or r['off'] + r['len'] > U64

def probe_refusal_closes_fd(bindir, base, findings):
    """a WRITE that the seal refuses must leave the handle usable"""
    n = 0
    for no_open in (0, 1):
        S = Inst(bindir, base + '-p', 1, no_open)
        seq = [{'op': 'open', 'slot': 0, 'file': 3, 'flags': 2},
               {'op': 'write', 'slot': 0, 'file': 3, 'off': 4095, 'len': 8, 'wflags': 2},      # beyond the size: refused
               {'op': 'write', 'slot': 0, 'file': 3, 'off': 0, 'len': 8, 'wflags': 2},         # inside the size: must succeed
               {'op': 'release', 'slot': 0, 'file': 3}]
        res = []
        try:
            for r in seq:
                if no_open and r['op'] in ('open', 'release'): continue
                n += 1
                try:
                    res.append((coq_req(r), S.send(r)))
                except FuseError:
                    res.append((coq_req(r), 'server process aborted'))
                    break
            want = [0, EPERM, 0, 0] if not no_open else [EPERM, 0]
            if [e for _, e in res] != want:
                findings.append({'what': 'sealed export: after a WRITE refused with EPERM the handle is unusable (its descriptor was closed): %s' % res,
                                 'input': {'config': {'seal_size': True, 'no_open': bool(no_open)}, 'requests': [coq_req(r) for r in seq], 'results': res},
                                 'sig': {'op': 'WRITE', 'kind': 'refusal-closes-fd'}})
        finally:
            try: S.close()
            except Exception: pass
    return n

def sig_of(r):
    k = r['op']
    if k in ('open', 'create'): return {'op': k.upper(), 'flag': 'O_TRUNC'} if r['flags'] & O_TRUNC else {'op': k.upper()}
    if k in ('write', 'read'):
        w = r['wflags'] if k == 'write' else r['rflags']
        names = [n for n, b in (('O_TRUNC', O_TRUNC), ('O_APPEND', O_APPEND)) if w & b and (k == 'write' or b == O_TRUNC)]
        return {'op': k.upper(), 'flag': '|'.join(names)} if names else {'op': k.upper()}
    if k == 'fallocate': return {'op': 'FALLOCATE', 'mode': r['mode']}
    return {'op': k.upper()}

def run_check(tier, seed):
    ev = Evidence(PROP, tier, seed)
    ev.cov['checker_cmd'] = 'make -C coq Props/C18.vo (coqc 8.16.1, full .vo) + Print Assumptions audit; harness bin seal; coq_check_cases'
    ev.cov['trusted_base'] = TRUSTED_COMMON + [
        'Model/Seal.v is a hand transcription of seal_size_check / write / fallocate / setattr / open / create; tied on every run by replaying request histories on the real Server+PassthroughFs (sealed and unsealed, with and without no_open) and comparing errno and the host sizes of all files after every request with the model inside Coq',
        'host model in Model/Seal.v (pwrite ignores the offset under O_APPEND, O_TRUNC truncates on open, linux/ext4 fallocate modes, s_maxbytes): validated by the unsealed runs of the tie on this host, trusted elsewhere; the theorems only use "fallocate inside the file keeps its size"',
        'props/c16.py FuseClient (hand-written FUSE encoder/decoder) and os.stat for the observed sizes',
    ]
    ev.assumptions = ['server runs as root (O_TRUNC needs no write permission bits)', 'flag words are modelled whole (openat_word / setfl_word / host_open / host_setfl, linux >= 6.4 semantics for O_PATH, O_DIRECTORY, __O_TMPFILE); the data path of words with O_DIRECT depends on the host file system and is judged by the predicate only (except with allow_direct_io=false)',
                      'only regular files that exist before the first request are observed']
    findings, broken = [], []
    rng = random.Random(seed)
    quick = tier == 'quick'
    t0 = time.time()
    import pure_tie; pure_tie.prepare(PROP, ev, broken)      # Gen/RustPure.v from the function bodies in REPO (PROP_src_* theorems)
    std_audit(ev, PROP, broken)
    pure_tie.after_audit(PROP, broken)                         # a source tie broke: look for a concrete differing input
    log('C18: coq audit %.1fs' % (time.time() - t0)); t0 = time.time()
    ok, out, bindir = cargo_build(['seal'], features=['async-io'])
    if not ok:
        broken.append({'kind': 'harness-build', 'log': out[-3000:]})
        return finish(ev, PROP, findings, broken)
    fx = {'fx_open': True, 'fx_create': True, 'fx_append': True}      # the model the theorems (C18_full) are about
    ev.cov['code_variant'] = {'model': 'all_fixes', 'decided_by': 'C18_full'}
    nh = 16 if quick else 400
    evals = 0; nontriv = set(); samples = []; exprs = []; meta = []
    base = os.path.join(SCRATCH, 'c18-tree')

    def sealed_history(H, no_open, kind, opts, verb, label, tie=True, raw=None, flagspec=None):
        """run H on a sealed export (S) with an unsealed one (U) in lockstep; judge; optionally queue the Coq replay.
        `raw`: list of (request, class) judged by the predicate only (request fields outside the model)"""
        nonlocal evals
        S = Inst(bindir, base + '-s', 1, no_open, kind, opts, verb); U = None if raw is not None else Inst(bindir, base + '-u', 0, no_open, kind, opts, verb)
        cfgd = {'seal_size': True, 'no_open': bool(no_open), 'kind': kind, 'options': opts, 'entry': 'async_handle_message' if verb == 'amsg' else 'handle_message', 'block': label}
        wb = 'writeback=1' in opts
        cases = []
        try:
            if raw is not None: raw = raw_sweep(S, raw.f, SIZES0[raw.f])
            for item in (raw if raw is not None else H):
                r, forced = (item if raw is not None else (item, None))
                before = S.sizes()
                concretize(rng, r, before, None)
                cls = forced or classify(r, before)
                try:
                    e = S.send(r)
                except FuseError as ex:
                    findings.append({'what': 'sealed export: the server process died on %s (%s)' % (coq_req(r), str(ex)[:80]),
                                     'input': {'config': cfgd, 'request': {k: v for k, v in r.items() if not callable(v)}, 'sizes_before': before,
                                               'prefix': [coq_req(x) for x, _, _ in cases[-15:]]}, 'sig': dict(sig_of(r), kind='server-abort')})
                    break
                after = S.sizes(); evals += 1
                inp = {'config': cfgd, 'request': {k: v for k, v in r.items() if not callable(v)}, 'sizes_before': before, 'sizes_after': after, 'errno': e,
                       'prefix': [coq_req(x) for x, _, _ in cases[-12:]]}
                if e in ('panic', 'noreply'):
                    findings.append({'what': 'sealed export: request %s -> %s' % (r['op'], e), 'input': inp, 'sig': dict(sig_of(r), anomaly=e)}); break
                if after != before:
                    findings.append({'what': 'sealed export: %s changed the size of a pre-existing file: %s -> %s (errno %s)' % (coq_req(r), before, after, e),
                                     'input': inp, 'sig': sig_of(r)})
                    S.reset_sizes(before)            # one violation must not mask the next: go on from the sizes the export has to keep
                elif cls == 'change' and e == 0 and not (r['op'] == 'write' and r['len'] == 0):
                    findings.append({'what': 'sealed export: size-changing request %s was not refused' % coq_req(r), 'input': inp,
                                     'sig': dict(sig_of(r), kind='not-refused')})
                if U is not None:
                    if r['op'] in ('open', 'create'):
                        # keep the handle tables alike: the reference opens what the sealed export opened
                        # (without O_TRUNC, which a sealed export has to refuse)
                        if e == 0:
                            ru = dict(r); ru['flags'] &= ~O_TRUNC; U.send(ru); evals += 1
                    elif cls == 'within' or (cls == 'neutral' and r['op'] != 'setattr'):
                        U.reset_sizes(before)
                        eu = U.send(dict(r)); au = U.sizes(); evals += 1
                        if cls == 'within' and (eu != e or au != after) and after == before:
                            findings.append({'what': 'request within the size behaves differently on the sealed export: %s sealed errno %s sizes %s, unsealed errno %s sizes %s'
                                             % (coq_req(r), e, after, eu, au), 'input': inp, 'sig': dict(sig_of(r), kind='differs-from-unsealed')})
                nontriv.add((r['op'], cls, e, no_open, label if raw is not None else '', r.get('flags', r.get('wflags', r.get('mode', r.get('rflags', 0))))))
                cases.append((r, e, after))
            if tie and raw is None:
                if flagspec is not None and len(cases) == len(H) and all(list(a) == SIZES0 for _, _, a in cases):
                    # the requests of a flag block are generated inside Coq from the words (Model/Seal.v flag_block = flag_block here)
                    z = '[%s]' % '; '.join(map(str, SIZES0)); ff, ws = flagspec
                    exprs.append('(flag_check tie_host (mk_cfg true %s %s %s %s) %d (init_state %s) %s %d %d [%s] [%s])' % (
                        'true' if no_open else 'false', coq_fixes(fx), 'true' if wb else 'false', 'false' if 'no_direct_io=1' in opts else 'true',
                        len(SIZES0), z, z, ff, SIZES0[ff], '; '.join(map(str, ws)), '; '.join(str(e) for _, e, _ in cases)))
                else:
                    exprs.append(coq_hist(True, no_open, fx, wb, 'no_direct_io=1' not in opts, cases))
                meta.append({'config': cfgd, 'requests': [coq_req(r) for r, _, _ in cases], 'errnos': [e for _, e, _ in cases], 'sizes': [a for _, _, a in cases]})
            if len(samples) < 3 and cases: samples.append({'config': cfgd, 'first_requests': [(coq_req(r), e, a) for r, e, a in cases[:4]]})
        finally:
            S.close()
            if U is not None: U.close()

    # cells of the deterministic flag block: the default cell gets every word, the others (other decoders / other word
    # adjustments) every bit with O_RDWR, with O_TRUNC, and the composite words
    allw = flag_words()
    fewer = allw if not quick else [0, 1, 2, 2 | O_TRUNC] + [w for w in allw if (w & 3) == 2 and bin(w & ~(3 | O_TRUNC)).count('1') == 1] + allw[-21:]
    direct = [w for w in allw if w & O_DIRECT]
    flag_cells = [('', 'msg', 'default', 'passthrough', allw), ('', 'amsg', 'async entry points', 'passthrough', fewer),
                  ('writeback=1', 'msg', 'writeback', 'passthrough', fewer), ('no_direct_io=1', 'msg', 'allow_direct_io=false', 'passthrough', direct if quick else allw)]
    if not quick: flag_cells += [('killpriv_v2=1', 'amsg', 'Vfs async killpriv', 'vfs', allw), ('inode_file_handles=1', 'msg', 'inode_file_handles', 'passthrough', allw)]
    ev.cov['flag_block'] = {'words': len(allw), 'words_other_cells': len(fewer), 'cells': [c[2] for c in flag_cells],
                            'single_bits': sorted(b for b in range(32) if (1 << b) in allw)}
    # configuration cells (each crossed with the requests on which it matters: the boundary histories)
    CELLS = [('', 'msg', 'default'), ('', 'amsg', 'async entry points'), ('inode_file_handles=1', 'msg', 'inode_file_handles'),
             ('killpriv_v2=1', 'msg', 'killpriv_v2'), ('writeback=1', 'msg', 'writeback'), ('no_direct_io=1', 'msg', 'allow_direct_io=false'),
             ('writeback=1 killpriv_v2=1 inode_file_handles=1', 'amsg', 'all knobs, async')]
    # C18_BLOCKS=flags,... runs only the named blocks (diagnosis; the registered check runs all of them)
    only = [b for b in os.environ.get('C18_BLOCKS', '').split(',') if b]
    on = lambda b: not only or b in only
    if only: ev.cov['blocks_only'] = only
    try:
        if on('probe'): evals += probe_refusal_closes_fd(bindir, base, findings)
        for no_open in (0, 1):
            # ---- deterministic: one boundary history per pre-existing file, default configuration, both fs kinds
            for f in range(len(SIZES0) if on('boundary') else 0):
                sealed_history(boundary_history(f, SIZES0[f], no_open), no_open, 'passthrough', '', 'msg', 'boundary f%d' % f)
            if on('boundary'): sealed_history(boundary_history(2, SIZES0[2], no_open), no_open, 'vfs', '', 'msg', 'boundary f2 through Vfs')
            # ---- deterministic: every configuration cell x boundary histories of two files (4095 bytes, 4 GiB + 1 sparse)
            for opts, verb, label in (CELLS[1:] if on('boundary') else []):
                for f in (2, 5):
                    sealed_history(boundary_history(f, SIZES0[f], no_open), no_open, 'passthrough', opts, verb, 'cell %s, boundary f%d' % (label, f))
            if on('boundary'): sealed_history(boundary_history(3, SIZES0[3], no_open), no_open, 'vfs', 'killpriv_v2=1', 'amsg', 'cell Vfs async killpriv, boundary f3')
            # ---- deterministic: request fields the model does not know, one at a time (predicate only)
            if on('sweep'):
                sealed_history(None, no_open, 'passthrough', '', 'msg', 'field sweep f3', tie=False, raw=raw_sweep_proxy(3))
                sealed_history(None, no_open, 'passthrough', 'killpriv_v2=1', 'amsg', 'field sweep f1, async', tie=False, raw=raw_sweep_proxy(1))
            # ---- deterministic flag block: every bit 0..31 of the flag word of READ / WRITE / OPEN / CREATE / RELEASE (alone, with each
            # access mode, with O_APPEND, with O_TRUNC; composite words) on pre-existing non-empty files, ordinary handles and no_open;
            # replayed in Coq (openat_word / setfl_word / host_open / host_setfl) except the O_DIRECT words (their data path depends on
            # the alignment rules of the host file system), which are judged by the predicate only
            for opts, verb, label, kind, words in (flag_cells if on('flags') else []):
                plain = [w for w in words if not w & O_DIRECT]; direct = [w for w in words if w & O_DIRECT]
                chunks = [plain[i:i + 40] for i in range(0, len(plain), 40)]
                for ci, ws in enumerate(chunks):
                    f = (3, 2, 4, 1, 5)[ci % 5]
                    sealed_history(flag_block(no_open, f, SIZES0[f], ws), no_open, kind, opts, verb, 'flag words %d/%d, cell %s, f%d' % (ci + 1, len(chunks), label, f),
                                   tie='inode_file_handles=1' not in opts, flagspec=(f, ws))
                if direct:
                    sealed_history(flag_block(no_open, 3, SIZES0[3], direct), no_open, kind, opts, verb, 'flag words with O_DIRECT, cell %s, f3' % label,
                                   tie='no_direct_io=1' in opts, flagspec=(3, direct))
            # ---- random histories: default cell mostly, the other cells in turn
            for hi in range(nh if on('random') else 0):
                opts, verb, label = CELLS[hi % len(CELLS)] if hi % 2 else CELLS[0]
                kind = 'vfs' if hi % 6 == 5 else 'passthrough'
                sealed_history(gen_history(rng, 45, no_open), no_open, kind, opts, verb, 'random')
            # ---- unsealed runs: validate the host model used in the theorems' instance
            for hi in range(-1, max(8, nh // 4)) if on('unsealed') else []:
                opts = 'writeback=1' if hi % 4 == 3 else ''
                U = Inst(bindir, base + '-v', 0, no_open, 'passthrough', opts, 'amsg' if hi % 4 == 1 else 'msg')
                try:
                    # mode bit 128 (FALLOC_FL_WRITE_ZEROES) exists only on recent kernels: not part of the host model
                    H = gen_history(rng, 40, no_open, [m for m in FALLOC_MODES if m < 128]) if hi >= 0 else unsealed_flag_history(no_open); cases = []
                    for r in H:
                        before = U.sizes(); concretize(rng, r, before, 1 << 23)
                        e = U.send(r); after = U.sizes(); evals += 1
                        if e in ('panic', 'noreply'): break
                        cases.append((r, e, after))
                    exprs.append(coq_hist(False, no_open, fx, bool(opts), True, cases))
                    meta.append({'config': {'seal_size': False, 'no_open': bool(no_open), 'options': opts}, 'requests': [coq_req(r) for r, _, _ in cases], 'errnos': [e for _, e, _ in cases], 'sizes': [a for _, _, a in cases]})
                finally:
                    U.close()
    except FuseError as ex:
        broken.append({'kind': 'harness', 'error': str(ex)[:500]})
    log('C18: implementation runs %.1fs (%d requests, %d histories)' % (time.time() - t0, evals, len(exprs))); t0 = time.time()
    if not any(b['kind'] in ('proof', 'hygiene') for b in broken) and exprs:
        from c16 import check_cases_sep
        pexprs, per, order = balanced(exprs, NPROC)
        fails, errs = check_cases_sep('c18', COQ_HEADER, pexprs, shard=per, timeout=600)
        for e in errs: broken.append({'kind': 'correspondence', 'name': 'coq evaluation of cases failed', 'log': e['log'][-800:]})
        for i in sorted(order[j] for j in fails):
            broken.append({'kind': 'correspondence', 'name': 'Model/Seal.v run vs Server+PassthroughFs (errno and sizes after every request)', 'case': meta[i]})
        ev.cov['model_vs_impl_histories'] = len(exprs)
    log('C18: coq model comparison %.1fs' % (time.time() - t0))
    ev.cov['evaluations'] = evals
    ev.cov['distinct_nontrivial'] = len(nontriv)
    ev.cov['rule'] = ('evaluations = requests sent through Server::handle_message (sizes of all 5 files read from the host after each); '
                      'distinct_nontrivial = distinct (operation, class within/change/neutral, errno, no_open, flag word or mode) seen on the sealed export')
    ev.cov['samples'] = samples
    findings = dedup(findings)
    for f in findings: f.setdefault('input', {}).update({'seed': seed, 'tier': tier})
    for b in broken: b.update({'seed': seed, 'tier': tier})
    return finish(ev, PROP, findings, broken)

def dedup(findings):
    seen = {}; out = []
    for f in findings:
        k = json.dumps(f['sig'], sort_keys=True)
        seen[k] = seen.get(k, 0) + 1
        if seen[k] <= 2: out.append(f)
    return out


def replay(path):
    """re-run the check with the seed and tier recorded in a replay file: the generated trees, requests and
    (hash-based) directory cookies are functions of the seed, so the failing input is produced again"""
    r = json.load(open(path))
    items = r.get('failing') or r.get('broken') or []
    seed, tier = 1, 'quick'
    for it in items:
        src = it.get('input', it)
        if 'seed' in src: seed, tier = src['seed'], src['tier']; break
    return run_check(tier, seed)
