"""Deterministic blocks from the coverage audit of C10 / C11 (notes/C10.md, "Coverage audit").

* cell_cases: configuration cells (writeback, no_opendir, killpriv_v2, cache policies, perfile_dax, do_import=false,
  all negotiated through OverlayFs::init) crossed with a fixed set of histories and OPEN flag words; they go through the
  ordinary pipeline: the model has no such knobs, i.e. the tie asserts that every cell is the same state transformer.
* free_cases: entry points, request fields and environment sizes the model has no operation for (flush, fsync,
  fsyncdir, lseek, fallocate, access, statfs, forget / batch_forget with the client's exact counts, getattr / setattr
  through a handle, every SETATTR valid-bit subset, CREATE flag words, raw names '.', '..', '', 'a/b', a file larger
  than the copy-up chunk, the no_open and no_readdir cells).  They are judged by the property's own predicates only:
  no lower directory changes, an entry point that must not change the view does not, a successful change is the one
  an ordinary file system makes, the restarted instance shows the live tree (C11), without an upper layer nothing
  changes and every modifying request fails.  READDIRPLUS and one-entry READDIR requests are cross-checked against
  READDIR inside every tree walk of the harness (markers !rdplus-*, !rdsmall-*)."""
import copy, itertools
import overlay_common as oc

def X(raw, expect='same', mod=False, fn=None, must=False, want=None, sigx=None):
    return {'k': 'x', 'raw': raw, 'p': (raw.split() + ['', ''])[1], 'expect': expect, 'mod': mod, 'fn': fn, 'must': must, 'dump': True,
            'want': want, 'sigx': sigx}

def F(data, ino, mode=0o644): return ['f', mode, bytearray(data), {}, ino]
def base_layers(upper=True, big=False):
    low = {'a': F(b'lower-a', 811), 'c': F(b'lower-c', 812), 'd': ('d', 0o755, {}, {'f': F(b'lower-df', 813)})}
    if big: low['e'] = ('b', 0o644, 8 * 1024 * 1024 + 5)       # three chunks of the 4 MiB copy-up loop
    ls = {1: ('d', 0o755, {}, low)}
    if upper: ls[0] = ('d', 0o755, {}, {'b': F(b'upper-b', 814)})
    return ls

# ---- expected effects on a parsed view (overlay_common.parse_ser trees)
def at(t, path):
    for c in [x for x in path.split('/') if x and x != '.']:
        if t is None or t[0] != 'd': return None
        t = t[3].get(c)
    return t
def put(t, path, new):
    comps = [x for x in path.split('/') if x and x != '.']
    if not comps: return new
    def go(t, i):
        ch = dict(t[3]); n = comps[i]
        if i == len(comps) - 1:
            if new is None: ch.pop(n, None)
            else: ch[n] = new
        else: ch[n] = go(ch[n], i + 1)
        return (t[0], t[1], t[2], ch)
    return go(t, 0)
def pser(t):
    if t[0] == 'd':
        xs = '[' + ''.join('%s=%s,' % kv for kv in sorted(t[2].items())) + ']' if t[2] else ''
        return 'd%x%s(%s)' % (t[1], xs, ''.join('%s=%s,' % (n, pser(t[3][n])) for n in sorted(t[3])))
    if t[0] == 'f':
        xs = '[' + ''.join('%s=%s,' % kv for kv in sorted(t[3].items())) + ']' if t[3] else ''
        return 'f%x%s:%s' % (t[1], xs, t[2])
    if t[0] == 'l': return 'l:' + t[1]
    return 'w'
def fn_setattr(path, letters, mode, size):
    def f(v):
        n = at(v, path)
        if n is None: return v
        if 'm' in letters:
            n = (n[0], mode & (0o7777 if n[0] == 'f' else 0o1777 | 0o6000), ) + tuple(n[2:])
        if 's' in letters and n[0] == 'f' and not n[2].startswith('#'):
            d = n[2][:2 * size] + '00' * max(0, size - len(n[2]) // 2)
            n = ('f', n[1], d, n[3])
        return put(v, path, n)
    return f
def fn_create(path, mode):
    return lambda v: put(v, path, ('f', mode, '', {}))
def fn_remove(path):
    return lambda v: put(v, path, None)

def free_cases(prop, restart):
    cs = []
    def add(cid, ops, upper=True, cfg='', big=False):
        cs.append({'id': cid, 'upper': upper, 'nlow': 1, 'layers': base_layers(upper, big), 'restart': restart, 'ops': ops, 'cfg': cfg, 'free': True})
    for upper in (True, False):
        files = ['a', 'b', 'c', 'd/f'] if upper else ['a', 'd/f']
        # E1 entry points that must not change what the client sees
        ops = [X('chmod c 1a0', 'fn', mod=True, fn=fn_setattr('c', 'm', 0o640, 0), must=upper)]
        for f in files:
            ops += [X('flush %s r' % f), X('fsync %s r' % f), X('fdatasync %s r' % f), X('lseek %s r 1 0' % f), X('getattrh %s r' % f),
                    X('access %s 4' % f), X('access %s 2' % f), X('statfs %s' % f), X('lookup %s' % f), X('forget %s all' % f),
                    X('getattr %s' % f), X('bforget %s all' % f), X('read %s 0 16' % f)]
        ops += [X('fsyncdir d'), X('fsyncdir .'), X('access d 1'), X('forget d all'), X('readdir d'), X('statfs .')]
        # ... and handle-based requests that do change it: open for writing copies up first
        ops += [X('fsync a w', 'same', mod=True, must=upper), X('fallocate d/f rw 0 0 10', 'fn', mod=True, fn=fn_setattr('d/f', 's', 0, 10), must=upper),
                X('truncateh a w 1', 'fn', mod=True, fn=fn_setattr('a', 's', 0, 1), must=upper), X('read a 0 16'), X('read d/f 0 16'),
                # SETATTR carrying a handle that was opened read-only: on a lower file it falls back to the path (copy-up,
                # truncate); on an upper file the host refuses (ftruncate on a read-only descriptor): either way no other effect
                X('truncateh c r 2', 'fn', mod=True, fn=fn_setattr('c', 's', 0, 2)), X('truncateh b r 2', 'fn', mod=True, fn=fn_setattr('b', 's', 0, 2))]
        add('xe%d' % upper, ops, upper)
        # E2 SETATTR: every subset of {MODE, SIZE, UID, GID} and the time / KILL_SUIDGID bits, on every file situation and a directory
        ops = [X('chmod c 1a0', 'fn', mod=True, fn=fn_setattr('c', 'm', 0o640, 0), must=upper)]
        subsets = [''.join(x) for r in range(1, 5) for x in itertools.combinations('msug', r)] + ['a', 't', 'n', 'at', 'mk', 'sk', 'msa']
        for i, sub in enumerate(subsets):
            for j, f in enumerate(files + ['d']):
                mode = [0o600, 0o640, 0o755, 0o444][(i + j) % 4]; size = [3, 9, 0, 12][(i + 2 * j) % 4]
                if f == 'd' and 's' in sub: continue      # type-correct requests only: the kernel never sends SIZE for a directory
                ops.append(X('setattrx %s %s %x %d 0 0' % (f, sub, mode, size), 'fn', mod=True, fn=fn_setattr(f, sub, mode, size), must=upper))
        add('xs%d' % upper, ops, upper)
        # E2h SETATTR carrying a file handle (the "deal with handle first" path): every file situation x read-only and writable
        # handle x each valid bit (and some pairs).  A handle on a LOWER file must not be used for the change: the unchanged code
        # falls back to the path (copy-up); an upper handle is used directly.  SIZE through a read-only upper handle is refused by the host.
        ops = [X('chmod c 1a0', 'fn', mod=True, fn=fn_setattr('c', 'm', 0o640, 0), must=upper)]
        for hf in ('r', 'w'):
            for i, sub in enumerate(['m', 'u', 'g', 'a', 't', 'n', 'ug', 'mat', 's', 'ms']):
                if hf == 'r' and sub == 'ms': continue     # type-correct requests only: the kernel sends SIZE with a handle it may write through
                for j, f in enumerate(files):
                    mode = [0o600, 0o640, 0o755, 0o444][(i + j) % 4]; size = [3, 9, 0, 12][(i + 2 * j) % 4]
                    ops.append(X('setattrh %s %s %s %x %d 0 0' % (f, hf, sub, mode, size), 'fn', mod=True, fn=fn_setattr(f, sub, mode, size),
                                 must=upper and not ('s' in sub and hf == 'r')))
        add('xh%d' % upper, ops, upper)
        # E3 CREATE flag words (the kernel sends CREATE for a negative name only), E4 raw names
        ops = []
        for fl in ('rw+cx', 'w+c', 'r+c', 'rw+cxt', 'w+ca', 'rw+x', 'r'):
            for pth in ('e', 'd/e'):
                ops += [X('createx %s %s 1a4' % (pth, fl), 'fn', mod=True, fn=fn_create(pth, 0o644), must=upper), X('read %s 0 4' % pth),
                        X('unlink %s' % pth, 'fn', mod=True, fn=fn_remove(pth), must=upper)]
        ops += [X('createx a rw+cx 1a4', 'err', mod=True), X('createx b rw+c 1a4', 'err', mod=True)]
        for d in ('.', 'd'):
            ops += [X('lookupname %s' % d), X('lookupname %s .' % d), X('lookupname %s ..' % d), X('lookupname %s a/b' % d, 'err'), X('lookupname %s d/f' % d, 'err')]
            for k in ('mkdirname', 'createname', 'unlinkname', 'rmdirname'):
                ops += [X('%s %s' % (k, d), 'err', mod=True), X('%s %s .' % (k, d), 'err', mod=True), X('%s %s ..' % (k, d), 'err', mod=True),
                        X('%s %s e/x' % (k, d), 'err', mod=True), X('%s %s ../a' % (k, d), 'err', mod=True)]
        add('xn%d' % upper, ops, upper)
        # E7 request fields of MKDIR / MKNOD (umask), SETXATTR (flags), GETXATTR / LISTXATTR (size 0 = ask for the length)
        def fn_mkdir(path, mode): return lambda v: put(v, path, ('d', mode, {}, {}))
        ops = [X('mkdiru e 1ff 12', 'fn', mod=True, fn=fn_mkdir('e', 0o755), must=upper), X('mkdiru d/e 1ff 3f', 'fn', mod=True, fn=fn_mkdir('d/e', 0o700), must=upper),
               X('mknodx f 81ff 0 3f', 'fn', mod=True, fn=fn_create('f', 0o700), must=upper), X('mknodx e/f 81b6 0 12', 'fn', mod=True, fn=fn_create('e/f', 0o644), must=upper),
               X('setxattrf a user.k 76 2', 'err', mod=True), X('setxattrf a user.k 76 1', 'any', mod=True, must=upper), X('setxattrf a user.k 77 1', 'err', mod=True),
               X('setxattrf a user.k 78 2', 'any', mod=True, must=upper), X('getxattr0 a user.k'), X('listxattr0 a'), X('getxattr a user.k'), X('listxattr0 d')]
        add('xf%d' % upper, ops, upper)
    if prop == 'C11':
        # a client with CAP_MKNOD creates a 0:0 character device: on disk that IS a whiteout (known finding client-creates-whiteout-device)
        add('xw1', [X('mknodx e 2000 0 0', 'any', mod=True)], True)
    # E5 environment sizes: a lower file of three 4 MiB copy-up chunks (8 MiB + 5) is copied up whole: the views carry its length
    # and a digest of all its bytes (computed by the harness through READ), so "view unchanged but for the mode" compares every byte
    add('xbig', [X('read e 8388600 16'), X('chmod e 1a0', 'fn', mod=True, fn=fn_setattr('e', 'm', 0o640, 0), must=True), X('read e 8388600 16'),
                 X('read e 4194300 16'), X('write e 8388613 5a', 'any', mod=True, must=True), X('read e 8388600 16')], True, big=True)
    # E6 configuration cells whose purpose is to change what requests do: no_open (no OPEN / RELEASE, handle 0), no_readdir
    for upper in (True, False):
        add('xo%d' % upper, [X('read a 0 8', 'any'), X('write a 0 58 w', 'any', mod=True), X('write d/f 0 58 r', 'any', mod=True), X('truncate a 1', 'any', mod=True),
                             X('create e 1a4', 'any', mod=True), X('open a r+t', 'any', mod=True), X('flush a r', 'any')], upper, cfg='o')
        add('xr%d' % upper, [X('readdir d', 'any'), X('lookup d/f'), X('mkdir e 1ed', 'any', mod=True)], upper, cfg='r')
    # E8 the root inode as target of every inode-addressed entry point, in every layer configuration (seed C10f)
    cs += root_free_cases(prop, restart)
    # E9 requests that are not type-correct (the kernel's FUSE client never sends them, a raw-protocol client can): UNLINK of a directory
    # that only lower layers hold, UNLINK / RMDIR below a regular file / a symlink.  An ordinary file system answers EISDIR (21) /
    # ENOTDIR (20) and changes nothing (Coq: C10_unlink_lower_dir_disagrees, C10_unlink_below_nondir_disagrees) -> C10 known findings.
    if prop == 'C10':
        cs.append({'id': 'xu1', 'upper': True, 'nlow': 1, 'restart': restart, 'cfg': '', 'free': True,
                   'layers': {0: ('d', 0o755, {}, {'f': F(b'h', 821), 'd': ('d', 0o755, {}, {})}),
                              1: ('d', 0o755, {}, {'e': ('d', 0o755, {}, {'k': F(b'lower-ek', 822)}), 'g': ('l', b'a')})},
                   'ops': [X('unlink f/x', 'errno', mod=True, want=20, sigx={'op': 'unlink', 'parent': 'non-directory'}),
                           X('rmdir g/x', 'errno', mod=True, want=20, sigx={'op': 'rmdir', 'parent': 'non-directory'}),
                           X('unlink e', 'errno', mod=True, want=21, sigx={'op': 'unlink', 'target': 'lower-only-directory'}),
                           X('readdir .')]})
    return cs

def analyse_free(prop, cases, obs):
    """-> (findings, broken)"""
    findings = []; broken = []
    for c in cases:
        ob = obs.get(c['id'])
        if (not ob or not ob.get('done') or ob['flags'] or len(ob['ops']) != len(c['ops'])
                or any(oc.ser(t) != oc.norm_big(ob['raw'].get(k)) for k, t in c['layers'].items())):
            broken.append({'kind': 'harness', 'name': 'audit block: harness output incomplete', 'case': c['id'], 'flags': ob and ob['flags']}); continue
        cfg = c.get('cfg', '')
        if cfg == 'o' and prop == 'C11':              # C11 compares the two instances; that READ fails in this cell is C10's finding
            ob = copy.deepcopy(ob)
            for b in [ob] + ob['ops']:
                for key in ('view0', 'restart0', 'view', 'restart'):
                    if b.get(key): b[key] = b[key].replace('!rerr9', '')
        def finding(k, what, cls):
            findings.append({'what': '%s (cfg=%s, %s upper layer)' % (what, cfg or '-', 'with' if c['upper'] else 'without'),
                             'sig': {'class': cls, 'op': c['ops'][k]['raw'].split()[0] if k >= 0 else 'none'}, 'input': oc.replay_input(c, k if k >= 0 else None)})
        if ob['lowerchg']:
            j, layer, new = ob['lowerchg'][0]
            finding(j, 'lower layer %d changed on disk during %s' % (layer, c['ops'][j]['raw']), 'lower-modified')
            continue
        if prop == 'C11' and ob['restart0'] != ob['view0']:
            finding(-1, 'a second instance over untouched directories shows a different tree', 'other'); continue
        prev = ob['view0']
        for k, (o, b) in enumerate(zip(c['ops'], ob['ops'])):
            v = b.get('view'); ok = b['ret'] == '0'
            if b['ret'] == 'panic': finding(k, 'panic during %s' % o['raw'], 'panic'); break
            if cfg == 'o' and v and '!rerr9' in v:
                finding(k, 'with ZERO_MESSAGE_OPEN negotiated (config.no_open) READ / WRITE fail EBADF: the file contents are not readable', 'no-open-cell-io-fails'); break
            if v is None or ('!' in v and cfg != 'r'):
                finding(k, 'inconsistent answers after %s: %s' % (o['raw'], (v or '')[:200]), 'inconsistent-answers'); break
            if prop == 'C11' and cfg != 'r' and b.get('restart') != v:
                w = o['raw'].split()
                cls = 'client-creates-whiteout-device' if (w[0] == 'mknodx' and int(w[2], 16) & 0o170000 == 0o020000 and w[3] == '0' and ok) else 'restart-differs'
                finding(k, 'after %s (errno %s) a freshly started overlay shows a different tree: live %s, restarted %s' % (o['raw'], b['ret'], v[:120], (b.get('restart') or '')[:120]), cls); break
            if o['expect'] == 'errno':
                # a request an ordinary file system refuses with a given errno: same errno, nothing changes.  Every such step is judged
                # on its own (the view it started from is the one the previous step left).
                if b['ret'] != str(o['want']) or v != prev:
                    findings.append({'what': '%s on upper %s / lower %s returned %s%s; an ordinary file system answers %d and changes nothing'
                                             % (o['raw'], oc.ser(c['layers'][0]), oc.ser(c['layers'][1]), b['ret'],
                                                '' if v == prev else ' and changed the view: %s -> %s (upper directory now %s)' % (prev[:120], v[:120], (b.get('upper') or '?')[:120]),
                                                o['want']),
                                     'sig': dict({'class': 'rm-type-check'}, **o['sigx']), 'input': oc.replay_input(c, k)})
                prev = v; continue
            if not c['upper']:
                if v != ob['view0'] or (o['mod'] and ok):
                    finding(k, 'without an upper layer %s returned %s / the view changed' % (o['raw'], b['ret']), 'no-upper-modified'); break
            elif o['expect'] == 'same' or (o['expect'] == 'err') or (o['expect'] == 'fn' and not ok):
                if o['expect'] == 'err' and ok: finding(k, '%s succeeded' % o['raw'], 'bad-name-accepted'); break
                if o['must'] and not ok: finding(k, '%s failed with %s' % (o['raw'], b['ret']), 'entry-point-fails'); break
                if v != prev: finding(k, '%s (errno %s) changed the view: %s -> %s' % (o['raw'], b['ret'], prev[:160], v[:160]), 'entry-point-changes-view'); break
            elif o['expect'] == 'fn':
                pv = oc.parse_ser(prev)
                want = pser(o['fn'](pv)) if pv is not None else None
                if want != v: finding(k, 'after %s the view is %s, an ordinary file system shows %s' % (o['raw'], v[:200], (want or '?')[:200]), 'entry-point-wrong-effect'); break
            elif o['must'] and not ok:
                finding(k, '%s failed with %s' % (o['raw'], b['ret']), 'entry-point-fails'); break
            prev = v
    return findings, broken

# ---- configuration cells through the ordinary pipeline (model = implementation: every cell is the same state transformer)
CELLS_QUICK = ['w', 'm', 'wdkx']
CELLS_FULL = CELLS_QUICK + ['d', 'k', 'a', 'n', 'x', 'mw', 'md', 'mwdk', 'i']
def cell_cases(prop, restart, full=False, cells=None):
    corpus = oc.corpus_cases(prop, restart)
    flag = {c['id']: c for c in oc.open_flag_cases(restart, full=True)}
    pick_corpus = corpus if full else [corpus[3], corpus[4]]
    pick_flag = list(flag.values()) if full else [flag[i] for i in ('o1r_t', 'o1w_a', 'o0r_t')]
    out = []
    for cell in (cells or (CELLS_FULL if full else CELLS_QUICK)):
        for c in pick_corpus + pick_flag:
            c2 = copy.deepcopy(c); c2['id'] = 'g%s_%s' % (cell, c['id']); c2['cfg'] = cell
            out.append(c2)
    return out

# ---- environment: a directory larger than one 1 KiB readdir batch of RealInode::readdir, in every layer (through the model)
def bigdir_cases(prop, restart):
    names = ['n%02d' % i for i in range(48)]
    def fi(i, tag): return ['f', 0o644, bytearray(b'%s%d' % (tag, i)), {}, 3000 + i]
    up = {n: fi(i, b'u') for i, n in enumerate(names) if i % 3 == 0}
    up.update({n: ('w',) for i, n in enumerate(names) if i % 7 == 1})
    l1 = {n: fi(i, b'l') for i, n in enumerate(names) if i % 2 == 0}
    l2 = {n: fi(i, b'm') for i, n in enumerate(names)}
    layers = {0: ('d', 0o755, {}, {'d': ('d', 0o755, {}, up)}), 1: ('d', 0o755, {}, {'d': ('d', 0o755, {}, l1)}), 2: ('d', 0o755, {}, {'d': ('d', 0o755, {}, l2)})}
    ops = [{'k': 'readdir', 'p': 'd'}, {'k': 'unlink', 'p': 'd/n02'}, {'k': 'create', 'p': 'd/n01', 'mode': 0o600}, {'k': 'readdir', 'p': 'd'}]
    return [{'id': 'gbigdir', 'upper': True, 'nlow': 2, 'layers': layers, 'restart': restart, 'names': ['d'] + names,
             'ops': [dict(o, dump=(i == len(ops) - 1)) for i, o in enumerate(ops)]}]

# ---- the ROOT inode as target (added after seed C10f: create_upper_dir() answering Ok for the parent-less root made SETXATTR /
# REMOVEXATTR on the root of an overlay WITHOUT upper layer write to the top-most lower directory; no generator ever aimed a
# modifying request at the root).  Every request that takes an inode is aimed at the root (and at a merged directory and a lower
# file) in every layer configuration {upper, no upper} x {1, 2, 3 lowers} x {root carries user xattrs in no layer / in the lowers /
# in the upper}; every (parent, name) request is tried with parent = root.  root_cases go through the model (all predicates of
# props/c10.py analyse(): lower dumps - which include mode, owner, mtime and xattrs of each layer's root directory itself - unchanged,
# nothing succeeds or changes without upper, union, ordinary file system); root_free_cases are the entry points without a model
# operation, judged by the predicates of analyse_free.
ROOT_CONFIGS = [(u, n, x) for u in (True, False) for n in (1, 2, 3) for x in ('n', 'l', 'u') if not (x == 'u' and not u)]
ROOT_NAMES = ['a', 'b', 'c', 'd', 'e', 'f', 'l', 'w', 'x', 'y', 'z']
def root_layers(upper, nlow, rootx):
    ino = [840]
    def Fi(data, mode=0o644):
        ino[0] += 1; return ['f', mode, bytearray(data), {}, ino[0]]
    lows = [{'a': Fi(b'l1-a'), 'd': ('d', 0o755, {}, {'f': Fi(b'l1-df')})},
            {'c': Fi(b'l2-c'), 'd': ('d', 0o750, {}, {'g': Fi(b'l2-dg')})},
            {'a': Fi(b'l3-a'), 'l': ('l', b'a')}]
    ls = {}
    for k in range(1, nlow + 1):
        x = {}
        if rootx == 'l':
            x['user.k1'] = b'L%d' % k
            if k == nlow: x['user.k2'] = b'bottom'
        ls[k] = ('d', [0o755, 0o711, 0o1777][k - 1], x, lows[k - 1])
    if upper: ls[0] = ('d', 0o750, {'user.k1': b'U'} if rootx == 'u' else {}, {'b': Fi(b'up-b')})
    return ls

def root_cases(prop, restart):
    """One history per configuration.  Target '.' in all 15 configurations; the same requests at a merged directory and a lower file,
    and the (parent, name) requests with parent = root in full, where the root carries no xattrs (6 configurations); the other
    no-upper configurations get one (parent, name) request of each kind.  The view is dumped (and evaluated in Coq) after the
    requests that may change it - with an upper layer after every successful kind of change, without one after each group; the
    harness compares the raw dump of every lower directory after EVERY request whether dumped or not."""
    cs = []
    for upper, nlow, rootx in ROOT_CONFIGS:
        ops = []
        def O(k, p, dump=None, **kw):
            ops.append(dict(k=k, p=p, dump=(upper and (k in oc.MODIFYING)) if dump is None else dump, **kw))
        full = rootx == 'n'
        for tgt in (('.', 'd', 'a') if full else ('.',)):
            O('getattr', tgt); O('listxattr', tgt); O('getxattr', tgt, name='user.k1'); O('getxattr', tgt, name='user.k9')
            O('chmod', tgt, mode=0o700); O('getattr', tgt); O('chmod', tgt, mode=(0o640 if tgt == 'a' else 0o755), dump=True)
            O('setxattr', tgt, name='user.k1', val=b'p'); O('getxattr', tgt, name='user.k1'); O('setxattr', tgt, name='user.k3', val=b'qq'); O('listxattr', tgt)
            O('removexattr', tgt, name='user.k1'); O('removexattr', tgt, name='user.k1', dump=False); O('removexattr', tgt, name='user.k9', dump=True)
            # (OPEN of a directory is not a request the kernel sends - it sends OPENDIR; with an upper layer the host accepts
            # O_RDONLY|O_APPEND / |O_CREAT on a directory where the specification says EISDIR: those two words only without upper,
            # where the code's mask counts them as modifying and the copy-up of the root must fail)
            for fl in ('r', 'w', 'rw', 'r+t', 'r+a', 'r+c', 'w+t'):
                if tgt == 'a' or not upper or fl not in ('r+a', 'r+c'): O('open', tgt, fl=fl, dump=(tgt == 'a' and upper and fl in ('w', 'r+t')))
            O('truncate', tgt, size=2, dump=(tgt == 'a' and upper)); O('write', tgt, off=1, data=b'Z', dump=(tgt == 'a')); O('read', tgt, off=0, len=8)
            O('readdir', tgt, dump=True)
        # (parent, name) requests with parent = root: fresh names, existing names of every kind, a name only a lower layer holds
        if full:
            O('lookup', 'a'); O('lookup', 'zz')
            O('mkdir', 'e', mode=0o755); O('mkdir', 'a', mode=0o755, dump=False); O('mkdir', 'd', mode=0o755, dump=False)
            O('create', 'f', mode=0o644); O('create', 'a', mode=0o644, dump=False)
            O('mknod', 'x', mode=0o600); O('mknod', 'd', mode=0o600, dump=False)
            O('symlink', 'y', target=b'a'); O('symlink', 'd', target=b'a', dump=False)
            O('link', 'a', q='z'); O('link', 'a', q='d', dump=False)
            O('rename', 'a', q='w', dump=False); O('rename', 'd', q='w', dump=False)
            O('unlink', 'a'); O('unlink', 'zz', dump=False); O('unlink', 'y'); O('rmdir', 'e'); O('rmdir', 'd', dump=False); O('rmdir', 'zz', dump=False)
            O('mkdir', 'a', mode=0o700)
        elif not upper:
            O('mkdir', 'e', mode=0o755); O('create', 'f', mode=0o644); O('mknod', 'x', mode=0o600); O('symlink', 'y', target=b'a'); O('link', 'a', q='z')
            O('rename', 'a', q='w'); O('unlink', 'a'); O('rmdir', 'd')
        O('readdir', '.', dump=True)
        cs.append({'id': 'r%d%d%s' % (upper, nlow, rootx), 'upper': upper, 'nlow': nlow, 'layers': root_layers(upper, nlow, rootx),
                   'restart': restart, 'names': ROOT_NAMES, 'ops': ops})
    return cs

def root_free_cases(prop, restart):
    cs = []
    for upper, nlow, rootx in ROOT_CONFIGS:
        ops = []
        for i, sub in enumerate(['m', 'u', 'g', 'ug', 't', 'n', 'mat', 'mk', 'mug']):
            for j, tgt in enumerate(('.', 'd', 'a')):
                mode = [0o700, 0o711, 0o755, 0o750][(i + j) % 4]
                ops.append(X('setattrx %s %s %x 0 12 34' % (tgt, sub, mode), 'fn', mod=True, fn=fn_setattr(tgt, sub, mode, 0), must=upper))
        ops.append(X('setattrx . s 0 3 0 0', 'same', mod=True))          # SIZE on a directory (never sent by the kernel): must not do anything
        # SETATTR / GETATTR / FSYNC / FLUSH / FALLOCATE / LSEEK carrying a handle of the root directory (opened O_RDONLY)
        for sub, mode in (('m', 0o711), ('ug', 0), ('t', 0), ('mat', 0o755)):
            ops.append(X('setattrh . r %s %x 0 12 34' % (sub, mode), 'fn', mod=True, fn=fn_setattr('.', sub, mode, 0), must=upper))
        ops += [X('flush . r'), X('fsync . r'), X('fdatasync . r'), X('getattrh . r'), X('lseek . r 0 0'), X('fsyncdir .'),
                X('access . 4'), X('access . 2'), X('access . 1'), X('statfs .'), X('getattr .'), X('readdir .'),
                X('fallocate . r 0 0 10', 'same', mod=True), X('getxattr0 . user.k1'), X('listxattr0 .'), X('getxattr . user.k1'), X('listxattr .')]
        # SETXATTR flag words, REMOVEXATTR on the root
        ops += [X('setxattrf . user.r 76 2', 'err', mod=True), X('setxattrf . user.r 76 1', 'any', mod=True, must=upper), X('setxattrf . user.r 77 1', 'err', mod=True),
                X('setxattrf . user.r 78 2', 'any', mod=True, must=upper), X('getxattr . user.r'), X('removexattr . user.r', 'any', mod=True, must=upper),
                X('removexattr . user.r', 'err', mod=True), X('setxattr . user.k1 7a', 'any', mod=True, must=upper), X('removexattr . user.k1', 'any', mod=True, must=upper),
                X('removexattr . user.k2', 'any', mod=True)]
        # the same entry points on a lower file of this configuration, through read-only and writable handles
        ops += [X('setattrh a r m 1a0 0 0 0', 'fn', mod=True, fn=fn_setattr('a', 'm', 0o640, 0), must=upper),
                X('fsync a w', 'same', mod=True, must=upper), X('fallocate a rw 0 0 10', 'fn', mod=True, fn=fn_setattr('a', 's', 0, 10), must=upper),
                X('truncateh a w 1', 'fn', mod=True, fn=fn_setattr('a', 's', 0, 1), must=upper), X('setattrh a w ug 0 0 12 34', 'fn', mod=True, fn=fn_setattr('a', 'ug', 0, 0), must=upper),
                X('fsyncdir d'), X('read a 0 16')]
        cs.append({'id': 'xR%d%d%s' % (upper, nlow, rootx), 'upper': upper, 'nlow': nlow, 'layers': root_layers(upper, nlow, rootx),
                   'restart': restart, 'names': ROOT_NAMES, 'ops': ops, 'cfg': '', 'free': True})
    return cs
