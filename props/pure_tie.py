"""Source ties of pure functions: translator/rust_pure.py re-translates small integer functions of /repo/src into
coq/Gen/RustPure.v on every run; Proofs/RustPure*.v prove (for all inputs) that the hand models compute the same;
Props/Cxx.v pins those lemmas as Cxx_src_* theorems.

  prepare(prop, ev, broken)      before std_audit: regenerate Gen/RustPure.v, report translator errors of the
                                 functions this property relies on
  after_audit(prop, broken)      after std_audit: when the audit failed in a source-tie lemma (or the translator
                                 failed), run pure_tie_search and append what it finds to `broken`
  pure_tie_search(prop)          evaluate, inside Coq, the translated function and the model's definition on a grid of
                                 boundary inputs and report the first input on which they differ
"""
import os, sys, re, random, itertools
HERE = os.path.dirname(os.path.abspath(__file__))
sys.path.insert(0, os.path.join(HERE, '../translator')); sys.path.insert(0, os.path.join(HERE, '../lib'))
from vlib import REPO, COQ, write_if_changed, coq_eval_values, coq_make, log
import rust_pure

# ------------------------------------------------------------------ grids
P = lambda k: 1 << k
GRID = {
    'u8': [0, 1, 2, 3, 127, 128, 254, 255],
    'u32': [0, 1, 2, 3, 7, 8, 1000, 65535, 65536, P(31) - 1, P(31), P(32) - 2, P(32) - 1],
    'u64': [0, 1, 2, 3, 7, 8, 9, P(32) - 1, P(32), P(47) - 1, P(47), P(47) + 1, P(55) - 1, P(55), P(55) + 1, P(56) - 1, P(56),
            P(56) + 1, P(57), P(63) - 1, P(63), P(64) - 2, P(64) - 1],
    'i32': [0, 1, 2, 3, 8, 9, 16, 32, 64, 65, 66, 72, 1024, 1025, 1026, 1027, P(31) - 1, P(31), P(32) - 1],   # bit patterns
    'mode': [0, 0o100644, 0o40755, 0o20600, 0o60600, 0o10644, 0o120777, 0o140755, 0o170000, 0o100000, 0o40000, 0o60000 | 0o100000, P(32) - 1],
    'bool': ['true', 'false'],
}
GRID['usize'] = GRID['u64']
SMALL = {k: v[:5] + v[-1:] for k, v in GRID.items()}
ITY = {'u8': 'U8', 'u32': 'U32', 'u64': 'U64', 'usize': 'Usize', 'i32': 'I32', 'mode': 'U32'}

def val(t, a):
    return '(VBool %s)' % a if t == 'bool' else '(VInt %s %d)' % (ITY[t], a)

def inputs(types, cap=3000):
    """all combinations of the small grids, then a deterministic sample of the full product"""
    seen = []; have = set()
    for c in itertools.product(*[SMALL[t] for t in types]):
        if c not in have: have.add(c); seen.append(c)
    full = [GRID[t] for t in types]
    n = 1
    for g in full: n *= len(g)
    if n <= cap:
        for c in itertools.product(*full):
            if c not in have: have.add(c); seen.append(c)
    else:
        rng = random.Random(1)
        while len(seen) < cap:
            c = tuple(rng.choice(g) for g in full)
            if c not in have: have.add(c); seen.append(c)
    return seen

# ------------------------------------------------------------------ the ties
# each tie: the lemma of Proofs/RustPure*.v, the translated function, the argument types (grid), the precondition of the
# lemma, and the two sides of its equation as Coq terms of the arguments
def T(lemma, fn, types, lhs_args, rhs, pre=None, mode='Debug', names=None):
    return dict(lemma=lemma, fn=fn, types=types, lhs_args=lhs_args, rhs=rhs, pre=pre or (lambda *a: True), mode=mode,
                names=names or ['x%d' % i for i in range(len(types))])

def std_args(types):
    return lambda *a: '[%s]' % '; '.join(val(t, x) for t, x in zip(types, a))

IDMAP = dict(file='Proofs/RustPureIdmap.v', requires='From FB Require Import Model.Pseudo Model.Vfs.', defs=[])
VFS = dict(file='Proofs/RustPureVfs.v', requires='From FB Require Import Model.Pseudo Model.Vfs.', defs=['conv_result'])
SEAL = dict(file='Proofs/RustPureSeal.v', requires='From FB Require Import Model.Seal.', defs=['op_write', 'op_fallocate', 'seal_result'])
SERVER = dict(file='Proofs/RustPureServer.v', requires='From FB Require Model.Server Model.Readdir.', defs=['add_dirent_spec'])
PT = dict(file='Proofs/RustPurePassthrough.v', requires='From FB Require Model.HostFs Model.Passthrough.', defs=[])
INO = dict(file='Proofs/RustPureInodes.v', requires='From FB Require Model.Inodes.', defs=['err_other', 'unique_inode_spec'])

U32x4 = ['u32'] * 4
SEALT = ['u64', 'u64', 'u64', 'i32']
DIRT = ['u32', 'usize', 'bool', 'usize']
TIES = {
    'C14': (IDMAP, [
        T('src_remap_id', 'remap_id', U32x4, std_args(U32x4), names=['value', 'from_base', 'to_base', 'range'],
          rhs=lambda v, f, t, r: 'match remap_id %d %d %d %d with Some x => Val (VInt U32 x) | None => RustExpr.Panic POverflow end' % (v, f, t, r)),
        T('src_remap_id_release', 'remap_id', U32x4, std_args(U32x4), mode='RustExpr.Release', names=['value', 'from_base', 'to_base', 'range'],
          rhs=lambda v, f, t, r: 'Val (VInt U32 (if (%d <=? %d) && (%d - %d <? %d) then (%d - %d + %d) mod 4294967296 else %d))' % (f, v, v, f, r, v, f, t, v)),
    ]),
    'C07': (VFS, [
        T('src_vfs_inode_new', 'vfs_inode_new', ['u8', 'u64'], std_args(['u8', 'u64']), names=['fs_idx', 'ino'],
          rhs=lambda i, n: 'if N.land %d (N.lnot VFS_MAX_INO 64) =? 0 then Val (VInt U64 (mk_vino %d %d)) else RustExpr.Panic PAssert' % (n, i, n)),
        T('src_vfs_inode_fs_idx', 'vfs_inode_fs_idx', ['u64'], std_args(['u64']), names=['self.0'],
          rhs=lambda x: 'Val (VInt U8 (fs_idx %d))' % x),
        T('src_vfs_inode_ino', 'vfs_inode_ino', ['u64'], std_args(['u64']), names=['self.0'],
          rhs=lambda x: 'Val (VInt U64 (ino_of %d))' % x),
        T('src_vfs_inode_is_pseudo_fs', 'vfs_inode_is_pseudo_fs', ['u64'], std_args(['u64']), names=['self.0'],
          rhs=lambda x: 'Val (VBool (fs_idx %d =? 0))' % x),
        T('src_vfs_convert_inode', 'vfs_convert_inode', ['u8', 'u64'], std_args(['u8', 'u64']), names=['fs_idx', 'inode'],
          rhs=lambda i, n: 'conv_result (convert_inode %d %d)' % (i, n)),
    ]),
    'C18': (SEAL, [
        T('src_seal_size_check_write', 'seal_size_check', SEALT, names=['file_size', 'offset', 'size', 'mode'],
          lhs_args=lambda *a: '[VEnum op_write; %s]' % std_args(SEALT)(*a)[1:-1],
          rhs=lambda f, o, l, m: 'seal_result (seal_size_check true %d %d %d %d)' % (f, o, l, m)),
        T('src_seal_size_check_fallocate', 'seal_size_check', SEALT, names=['file_size', 'offset', 'size', 'mode'],
          lhs_args=lambda *a: '[VEnum op_fallocate; %s]' % std_args(SEALT)(*a)[1:-1],
          rhs=lambda f, o, l, m: 'seal_result (seal_size_check false %d %d %d %d)' % (f, o, l, m)),
        T('src_seal_size_check_release', 'seal_size_check', SEALT, mode='RustExpr.Release', names=['file_size', 'offset', 'size', 'mode (fallocate)'],
          lhs_args=lambda *a: '[VEnum op_fallocate; %s]' % std_args(SEALT)(*a)[1:-1],
          rhs=lambda f, o, l, m: 'seal_result (seal_size_check false %d %d %d %d)' % (f, o, l, m)),
    ]),
    'C03': (SERVER, [
        T('src_add_dirent_server', 'add_dirent', DIRT, std_args(DIRT), names=['max', 'd.name.len()', 'entry.is_some()', 'cursor.bytes_written()'],
          pre=lambda m, n, p, w: n <= P(32) - 1,
          rhs=lambda m, n, p, w: 'add_dirent_spec (Server.pad8 (24 + %d) + (if %s then 128 else 0)) %d %d' % (n, p, m, w)),
        T('src_add_dirent_long_name', 'add_dirent', DIRT, std_args(DIRT), names=['max', 'd.name.len()', 'entry.is_some()', 'cursor.bytes_written()'],
          pre=lambda m, n, p, w: n > P(32) - 1,
          rhs=lambda m, n, p, w: 'Val (VErr (VInt I32 75))'),
    ]),
    'C16': (SERVER, [
        T('src_add_dirent_readdir', 'add_dirent', DIRT, std_args(DIRT), names=['max', 'd.name.len()', 'entry.is_some()', 'cursor.bytes_written()'],
          pre=lambda m, n, p, w: n <= P(32) - 1,
          rhs=lambda m, n, p, w: 'add_dirent_spec (Readdir.round8 (24 + %d) + (if %s then 128 else 0)) %d %d' % (n, p, m, w)),
    ]),
    'C05': (PT, [
        T('src_get_writeback_open_flags', 'get_writeback_open_flags', ['i32', 'bool'], std_args(['i32', 'bool']), names=['flags', 'writeback'],
          rhs=lambda f, w: 'Val (VInt I32 (Passthrough.get_writeback_open_flags (Passthrough.mkCfg false false false %s false false 0 true false) %d))' % (w, f)),
        T('src_is_safe_inode', 'is_safe_inode', ['mode'], std_args(['mode']), names=['mode'],
          rhs=lambda m: 'Val (VBool (Passthrough.is_safe_inode %d))' % m),
    ]),
    'C08': (INO, [
        T('src_unique_inode', 'unique_inode', ['u64', 'u64', 'u8'], std_args(['u64', 'u64', 'u8']), names=['id.ino', 'next_virtual_inode', 'unique_id'],
          rhs=lambda i, n, u: 'unique_inode_spec %d %d %d' % (u, i, n)),
    ]),
}
# which translated functions a property's source-tie theorems are about
FUNCS = {p: sorted(set(t['fn'] for t in ties)) for p, (_g, ties) in TIES.items()}

def coq_defs(path, names):
    """the text of `Definition <name> ... .` of one of our proof files (so that the search uses the very definitions the
    lemmas are stated with, without importing the file, which may be the one that no longer compiles)"""
    src = open(os.path.join(COQ, path)).read(); out = []
    for n in names:
        m = re.search(r'^Definition %s\b.*?\.\s*$' % re.escape(n), src, flags=re.M | re.S)
        if not m: raise RuntimeError('definition %s not found in %s' % (n, path))
        out.append(m.group(0))
    return '\n'.join(out)

def header(group):
    return ('From Coq Require Import List NArith ZArith String Bool.\n'
            'From FB Require Import Lib.RustExpr Gen.RustPure.\n' + group['requires'] + '\nImport ListNotations.\n'
            'Local Open Scope string_scope.\nLocal Open Scope N_scope.\n' + coq_defs(group['file'], group['defs']) + '\n')

# ------------------------------------------------------------------ the three entry points
def prepare(prop, ev, broken):
    """regenerate Gen/RustPure.v from REPO; a function of this property that can no longer be found or parsed is a
    broken tie (the theorem about it cannot be stated any more)"""
    try:
        defs, errs = rust_pure.translate(REPO)
        write_if_changed(os.path.join(COQ, 'Gen/RustPure.v'), rust_pure.emit_coq(defs, errs))
    except Exception as ex:
        errs = ['%s: %s' % (type(ex).__name__, ex)]
        broken.append({'kind': 'translator', 'item': 'translator/rust_pure.py', 'error': errs[0]}); return errs
    mine = [e for e in errs if e.split(' ')[0] in FUNCS.get(prop, [])]
    for e in mine: broken.append({'kind': 'translator', 'item': 'translator/rust_pure.py', 'error': e})
    ev.cov.setdefault('trusted_base', []).append(
        'translator/rust_pure.py (parser for the expression subset of Rust, libc constants of this host, declared opaque '
        'sub-expressions of ' + ', '.join(FUNCS.get(prop, [])) + ') and the integer semantics of coq/Lib/RustExpr.v: the '
        '%s_src_* theorems are about the function bodies as re-translated from src/ on this run' % prop)
    ev.cov['source_ties'] = FUNCS.get(prop, [])
    return mine

def tie_broke(broken):
    for b in broken:
        if b.get('kind') == 'translator' and b.get('item') == 'translator/rust_pure.py': return True
        if b.get('kind') == 'proof':
            site = (b.get('site') or [''])[0] or ''
            name = b.get('theorem_or_lemma') or ''
            if 'RustPure' in site or '_src_' in name or name.startswith('src_') or 'RustPure' in (b.get('message') or ''): return True
    return False

def after_audit(prop, broken):
    if prop in TIES and tie_broke(broken):
        found = pure_tie_search(prop)
        broken.extend(found)
        return found
    return []

def show(v):
    v = re.sub(r'^=\s*', '', v or '')
    return re.sub(r'\s*:\s*(RustExpr\.)?outcome\s*$', '', v)

def pure_tie_search(prop, cap=600):
    """-> list of broken entries: per source-tie lemma of the property, the first boundary input on which the translated
    function and the model's side of the lemma differ ('source function f on (args) gives X, model gives Y')"""
    group, ties = TIES[prop]
    ok, out = coq_make(['Gen/RustPure.vo'] + [r.replace('.', '/') + '.vo' for r in re.findall(r'Model\.\w+', group['requires'])])
    if not ok:
        return [{'kind': 'pure-tie', 'name': 'Gen/RustPure.v or the model does not compile', 'log': out[-1500:]}]
    try: hdr = header(group)
    except Exception as ex:
        return [{'kind': 'pure-tie', 'name': 'search header', 'error': str(ex)}]
    res = []; agree = []
    for t in ties:
        ins = [a for a in inputs(t['types'], cap) if t['pre'](*a)]
        exprs = []
        for a in ins:
            exprs.append('eval_fn %s %s_src %s' % (t['mode'], t['fn'], t['lhs_args'](*a)))
            exprs.append(t['rhs'](*a))
        vals, errs = coq_eval_values('pure_%s_%s' % (prop.lower(), t['lemma']), hdr, exprs, shard=500)
        if errs and all(v is None for v in vals):
            res.append({'kind': 'pure-tie', 'theorem': t['lemma'], 'name': 'evaluation of %s_src failed' % t['fn'], 'log': errs[0][-1200:]}); continue
        diff = None
        for i, a in enumerate(ins):
            l, r = vals[2 * i], vals[2 * i + 1]
            if l is None or r is None: continue
            if show(l) != show(r): diff = (a, show(l), show(r)); break
        if diff:
            a, l, r = diff
            argtxt = ', '.join('%s=%s' % (n, x) for n, x in zip(t['names'], a))
            res.append({'kind': 'pure-tie', 'theorem': t['lemma'], 'input': dict(zip(t['names'], a)), 'mode': t['mode'],
                        'what': 'source function %s on (%s) gives %s, model gives %s' % (t['fn'], argtxt, l, r)})
        else: agree.append((t['lemma'], len(ins)))
    if not res:
        res.append({'kind': 'pure-tie', 'evaluated': agree,
                    'what': 'the translated source functions and the model agree on every boundary input tried (%s); a source-tie '
                            'proof does not cover the present source text' % ', '.join('%s: %d' % x for x in agree)})
    return res

if __name__ == '__main__':
    import json
    for p in sys.argv[1:] or sorted(TIES):
        print(p, json.dumps(pure_tie_search(p), indent=1))
