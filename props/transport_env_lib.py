"""C04 / C17, the environment of the transport layer: case generators, property predicates and Coq case terms for
(a) FuseDevWriter on a fuse descriptor that refuses / short-writes (harness `transport_env dev`),
(b) descriptor chains given by the driver's tables: many descriptors, INDIRECT tables, loops, queue sizes, several
    guest memory regions, totals beyond 2^32 (harness `transport virtio` with raw=/ind=/qsize=),
(c) the retry loops and default vectored methods of file_traits.rs over a scripted file (harness `transport_env ftl|vec|e2e`)."""
import os, json
from vlib import *
import transport_lib as T

ERRNO = {'EPERM': 1, 'ENOENT': 2, 'EINTR': 4, 'EIO': 5, 'EBADF': 9, 'EAGAIN': 11, 'ENODEV': 19, 'EFBIG': 27, 'ENOSPC': 28, 'EPIPE': 32}
VERDICT_ERRNO = {'Epipe': 32, 'Efull': 28, 'Eagain': 11, 'Ebadf': 9}
COQ_HEADER = ('From Coq Require Import List String NArith Bool.\n'
              'From FB Require Import Lib.Hex Gen.BytesDelegation Gen.AsyncTransport Gen.DevShort Gen.FtLoops Model.Transport Model.TransportEnv.\n'
              'Import ListNotations.\nLocal Open Scope N_scope.\n')

# the cone of Props/C17.v has Model/TransportEnv.v but not the Gen flags of C04
COQ_HEADER_C17 = T.COQ_HEADER + 'From FB Require Import Model.TransportEnv.\n'

def run_env(bindir, sub, texts, tag):
    d = os.path.join(SCRATCH, 'cases'); os.makedirs(d, exist_ok=True)
    p = os.path.join(d, '%s-env-%s-%d.txt' % (tag, sub, os.getpid()))
    open(p, 'w').write('\n'.join(texts) + '\n')
    rc, out = run([os.path.join(bindir, 'transport_env'), sub, p], timeout=600)
    try: os.remove(p)
    except OSError: pass
    lines = [l for l in out.split('\n') if l.startswith('{')]
    if rc != 0 or len(lines) != len(texts):
        return None, 'harness transport_env %s: rc=%s, %d result lines for %d cases; tail: %s' % (sub, rc, len(lines), len(texts), out[-800:])
    try: return [json.loads(l) for l in lines], None
    except ValueError as ex: return None, 'harness output not JSON: %s' % ex

# ================================================================== (a) device faults
def verdict_ret(v, n):
    """what the kernel object chosen by verdict v answers when offered n bytes: count or -errno"""
    if v == 'K': return n
    if v[0] == 'S': return min(int(v[1:]), n)
    if v[0] == 'I': return -int(v[1:])
    return -VERDICT_ERRNO[v]

def verdict_coq(v):
    if v == 'K': return 'DAll'
    if v[0] == 'S': return '(DShort %s)' % v[1:]
    if v[0] == 'I': return '(DFail %s)' % v[1:]
    return '(DFail %d)' % VERDICT_ERRNO[v]

class DMirror:
    """python mirror of Model/TransportEnv.v part 1 (only used to pick operations that hit borders and to know the
    packet a call should offer); the arbiter of the correspondence is the Coq model"""
    def __init__(self, cap, script, strict, seed=0):
        self.ws = [{'buf': False, 'lo': 0, 'len': 0, 'cap': cap}]; self.script = list(script); self.nc = 0; self.strict = strict
        self.mem = {}; self.seed = seed
    def call(self, n):
        v = self.script[self.nc] if self.nc < len(self.script) else 'K'; self.nc += 1
        r = verdict_ret(v, n)
        if r >= 0 and self.strict and r < n: return -5, 0
        return r, (r if r >= 0 else 0)
    def content(self, w): return bytes(self.mem.get(w['lo'] + i, T.pat(self.seed, T.FBASE + T.MARGIN + w['lo'] + i)) for i in range(w['len']))
    def put(self, w, data):
        for i, b in enumerate(data): self.mem[w['lo'] + w['len'] + i] = b
    def apply(self, op):
        """-> ('panic' | 'err' | 'ok' | 'deverr'), packet offered (or None)"""
        k = op[0]; w = self.ws[op[1]]
        if k == 'p':
            off = op[2]
            if off > w['cap']: return 'err', None
            l1, l2 = (off, w['len'] - off) if w['len'] > off else (w['len'], 0)
            self.ws.append({'buf': True, 'lo': w['lo'] + off, 'len': l2, 'cap': w['cap'] - off}); w.update(buf=True, len=l1, cap=off)
            return 'ok', None
        if k == 'c':
            if not w['buf']: return 'ok', None
            p = self.content(w) + (self.content(self.ws[op[2]]) if op[2] >= 0 else b'')
            if not p: return 'ok', None
            r, _ = self.call(len(p)); return ('ok' if r >= 0 else 'deverr'), p
        if not w['buf'] and w['len'] > 0: return 'panic', None
        room = w['cap'] - w['len']
        if k in 'wWv':
            data = op[2] if k in 'wW' else b''.join(op[2])
            if len(data) > room: return 'err', None
            if w['buf']: self.put(w, data); w['len'] += len(data); return 'ok', None
            if k == 'v' and not op[2]: return 'ok', None
            if k == 'W' and not data: return 'ok', None
            r, acc = self.call(len(data)); w['len'] += acc
            if r < 0: return 'deverr', data
            if k == 'W': return ('ok' if r == len(data) else ('err' if r == 0 else 'panic')), data
            return 'ok', data
        if k in 'fA':
            count, kind, data = op[2], op[3], op[4]
            if count > room: return 'err', None
            if k == 'A' and count == 0: return 'ok', None
            if kind == 'e': return 'err', None
            d = data[:count]; self.put(w, d); w['len'] += len(d)
            if w['buf']: return ('ok' if (k == 'f' or len(d) == count) else 'err'), None
            r, _ = self.call(len(d))
            if r < 0: return 'deverr', d
            if k == 'f': return 'ok', d
            return ('ok' if r == count else ('err' if r == 0 else 'panic')), d
        raise ValueError(op)

def dop_text(op):
    k = op[0]
    if k in 'wW': return '%s,%d,%s' % (k, op[1], op[2].hex())
    if k == 'v': return 'v,%d,%s' % (op[1], '/'.join(d.hex() or '-' for d in op[2]))
    if k in 'fA': return '%s,%d,%d,%s,%s' % (k, op[1], op[2], op[3], op[4].hex())
    if k == 'p': return 'p,%d,%d' % (op[1], op[2])
    if k == 'c': return 'c,%d,%d' % (op[1], op[2])
    raise ValueError(op)

def dop_coq(op):
    k = op[0]; i = '%d%%nat' % op[1]
    if k == 'w': return '(DWrite %s %s)' % (i, T.dcoq(op[2]))
    if k == 'W': return '(DWriteAll %s %s)' % (i, T.dcoq(op[2]))
    if k == 'v': return '(DWriteV %s [%s])' % (i, '; '.join(T.dcoq(d) for d in op[2]))
    if k == 'f': return '(DWriteFrom %s %d %s)' % (i, op[2], 'None' if op[3] == 'e' else '(Some %s)' % T.dcoq(op[4]))
    if k == 'A': return '(DWriteAllFrom %s %d %s)' % (i, op[2], 'None' if op[3] == 'e' else '(Some %s)' % T.dcoq(op[4]))
    if k == 'p': return '(DSplit %s %d)' % (i, op[2])
    if k == 'c': return '(DCommit %s %s)' % (i, 'None' if op[2] < 0 else '(Some %d%%nat)' % op[2])
    raise ValueError(op)

def case_text_d(c):
    return 'seed=%d cap=%d script=%s ops=%s' % (c['seed'], c['cap'], ','.join(c['script']), ';'.join(dop_text(o) for o in c['ops']))

FAULTS = ['Epipe', 'Efull', 'Eagain', 'Ebadf', 'I4', 'I19', 'I2']

def gen_dcases(rng, nrandom):
    """deterministic block: every device-reaching entry point x every verdict class, followed by a retry of the same
    call and a further operation; then random sequences over random scripts"""
    cases = []; n = 0
    def add(cap, script, ops):
        nonlocal n
        cases.append({'seed': n % 251, 'cap': cap, 'script': script, 'ops': ops}); n += 1
    d = lambda k: T.rdata(rng, k)
    for size in (1, 16):
        verdicts = ['K', 'S1', 'S%d' % max(size - 1, 1), 'S%d' % size, 'S%d' % (size + 5)] + FAULTS
        for v in verdicts:
            add(16, [v], [('w', 0, d(size)), ('w', 0, d(1)), ('c', 0, -1)])                                   # unbuffered write, then again
            add(16, [v], [('W', 0, d(size)), ('W', 0, d(1))])                                                 # write_all (write_obj, reply code)
            add(16, [v], [('v', 0, [d(size // 2), b'', d(size - size // 2)]), ('v', 0, [d(1)])])
            for kind in 'fal': add(16, [v], [('f', 0, size, kind, d(size)), ('w', 0, d(1)), ('p', 0, 0)])     # unbuffered write_from(_at)
            add(16, [v], [('f', 0, size, 'l', d(max(size - 1, 0))), ('f', 0, 1, 'l', d(1))])                  # short source + faulty device
            add(16, [v], [('A', 0, size, 'f', d(size))]); add(16, [v], [('A', 0, size, 'l', d(size // 2))])   # write_all_from
            # header/payload split, commit(other); the commit is repeated after the fault
            h = min(4, size)
            add(32, [v], [('p', 0, h), ('w', 1, d(size)), ('W', 0, d(h)), ('c', 0, 1), ('c', 0, 1)])
            add(32, [v], [('p', 0, h), ('f', 1, size, 'f', d(size)), ('c', 0, 1), ('w', 0, d(h)), ('c', 0, 1)])  # self empty, other not
            add(32, [v], [('p', 0, h), ('W', 0, d(h)), ('c', 0, -1), ('c', 0, 1)])                             # other empty
            add(32, [v, v], [('p', 0, h), ('w', 1, d(size)), ('w', 0, d(h)), ('c', 0, 1), ('c', 1, -1)])
    for v in ['S1', 'S4095', 'S4096', 'S4097', 'S4999', 'Epipe']:                                              # replies beyond one page
        add(8192, [v], [('p', 0, 16), ('f', 1, 5000, 'f', d(5000)), ('W', 0, d(16)), ('c', 0, 1)])
        add(8192, [v], [('w', 0, d(5000))])
    add(16, ['K'], [('w', 0, b''), ('w', 0, d(3))]); add(16, ['S3'], [('w', 0, b'')]); add(0, ['Epipe'], [('w', 0, b''), ('c', 0, -1)])
    # random
    for _ in range(nrandom):
        cap = rng.choice([0, 1, 8, 16, 33, 100, 4097]); nsc = rng.randrange(0, 5)
        script = [rng.choice(['K', 'K', 'S1', 'S2', 'S7', 'S4096'] + FAULTS) for _ in range(nsc)]
        mir = DMirror(cap, script, False); ops = []
        for _ in range(rng.randrange(1, 10)):
            i = rng.randrange(len(mir.ws)); w = mir.ws[i]; room = w['cap'] - w['len']
            k = rng.choice('wwWvvffAppccc')
            if k in 'wW': op = (k, i, d(min(T.pick_n(rng, room), 5000)))
            elif k == 'v':
                tot = min(T.pick_n(rng, room), 5000); op = ('v', i, [d(rng.choice([0, 1, tot // 2, tot])) for _ in range(rng.choice([0, 1, 2, 3]))])
            elif k in 'fA':
                count = min(T.pick_n(rng, room), 5000); kind = rng.choice('ffalle') if k == 'f' else rng.choice('fle')
                op = (k, i, count, kind, d(rng.choice([count, count + 3, max(count - 1, 0), count // 2, 0])) if kind != 'e' else b'')
            elif k == 'p': op = ('p', i, T.pick_n(rng, w['cap']))
            else:
                others = [j for j in range(len(mir.ws)) if j != i]; op = ('c', i, rng.choice(others + [-1]) if others else -1)
            ops.append(op); mir.apply(op)
        add(cap, script, ops)
    return cases

def _res_hd(r):
    if r[0] == 'ok': return '(HD (HOk %d 0 0))' % r[1]
    if r[0] == 'panic': return '(HD HPanic)'
    k = r[1]
    if k.startswith('raw:'): return '(HDRaw %s)' % k[4:]
    if k.startswith('other:'): return '(HDOther %d)' % ERRNO.get(k[6:], 9999)
    return '(HD (HErr %d))' % T.ERRCODE[T.ERRS.get(k, 'EBadIndex')]

def dcase_coq(c, out):
    base = T.FBASE + T.MARGIN
    ws, _ = T.windows(c['seed'], [(base, c['cap'], T.FBASE, T.FBASE + c['cap'] + 2 * T.MARGIN)], out['mem'], None)
    calls = [x for o in out['obs'] for x in o[5]]
    ctxt = '; '.join('(%s, %d, %d, %s)' % ('true' if v else 'false', len(bytes.fromhex(hx)), T.hashN(bytes.fromhex(hx)), '(HRet %d)' % r if r >= 0 else '(HErrno %d)' % -r)
                     for v, hx, r, kb in calls)
    # the oracle handed to the model is what the kernel objects answered, call by call
    script = '; '.join('(DShort %d)' % r if r >= 0 else '(DFail %d)' % -r for v, hx, r, kb in calls)
    return '(check_d dev_strict %d %d %d [%s] [%s] [%s] [%s] [%s])' % (
        c['seed'], base, c['cap'], script, '; '.join(dop_coq(o) for o in c['ops']),
        '; '.join('(mkhdobs %s %d %d %d %d)' % (_res_hd(o[0]), o[1], o[2], o[3], o[4]) for o in out['obs']), ctxt, T.win_coq(ws))

OPNAME = {'w': 'write', 'W': 'write_all', 'v': 'write_vectored', 'f': 'write_from', 'A': 'write_all_from', 'p': 'split_at', 'c': 'commit'}

def eval_dcase(c, out, strict):
    """the property on what the implementation did.  -> (findings, oracle problems, shape)"""
    if out.get('harness_panic'): return [{'what': 'device-fault case: the harness run panicked outside an operation', 'sig': {'transport': 'fusedev', 'op': 'harness'}}], [], None
    probs = []; orc = []; mir = DMirror(c['cap'], c['script'], strict, c['seed']); nc = 0; kinds = set()
    for si, (op, got) in enumerate(zip(c['ops'], out['obs'][1:]), 1):
        name = OPNAME[op[0]]; res, calls = got[0], got[5]
        wlen_before = mir.ws[op[1]]['len'] if op[1] < len(mir.ws) else 0; buffered = mir.ws[op[1]]['buf'] if op[1] < len(mir.ws) else True
        exp, pkt = mir.apply(op)
        where = {'step': si, 'op': T.op_json(op), 'input_min': case_text_d(dict(c, ops=c['ops'][:si]))}
        if len(calls) > 1:
            probs.append(dict(where, what='fusedev %s made %d device calls (a reply must be one packet)' % (name, len(calls)), sig={'transport': 'fusedev', 'op': 'device-calls'})); break
        for (vect, hx, ret, khx) in calls:
            v = c['script'][nc] if nc < len(c['script']) else 'K'; nc += 1; kinds.add(v[0] + ('' if v[0] != 'E' else v[1:]))
            off = bytes.fromhex(hx)
            if (ret != verdict_ret(v, len(off)) and len(off) > 0) or (ret >= 0 and bytes.fromhex(khx) != off[:ret]):      # a zero-length write is answered 0 by most kernel objects
                orc.append({'what': 'the kernel object for verdict %s answered %d (received %s) to %d bytes' % (v, ret, khx[:40], len(off)), 'case': case_text_d(c)})
            if pkt is not None and off != pkt:
                probs.append(dict(where, what='fusedev %s offered the device %s, expected the packet %s' % (name, hx[:60], pkt.hex()[:60]), sig={'transport': 'fusedev', 'op': 'device-packet'}))
            short = 0 <= ret < len(off)
            if res[0] == 'ok' and short:
                probs.append(dict(where, what='fusedev %s reports Ok(%d) although the device took only %d of the %d bytes of the packet: a truncated reply counts as delivered (short write(2)/writev(2) is not checked)'
                                  % (name, res[1], ret, len(off)), sig={'transport': 'fusedev', 'op': 'device-short-write'}))
            if res[0] == 'err' and (res[1].startswith('raw:') or res[1].startswith('other:')):
                e = int(res[1][4:]) if res[1].startswith('raw:') else ERRNO.get(res[1][6:], -1)
                if not (ret < 0 and e == -ret) and not (strict and short and e == 5):
                    probs.append(dict(where, what='fusedev %s reports device error %s but the device answered %d' % (name, res[1], ret), sig={'transport': 'fusedev', 'op': 'device-error'}))
            if ret < 0 and res[0] == 'ok':
                probs.append(dict(where, what='fusedev %s reports success although the device refused the packet (errno %d)' % (name, -ret), sig={'transport': 'fusedev', 'op': 'device-error'}))
            if not buffered and op[0] in 'wv' and got[2] - wlen_before != (ret if ret >= 0 and not (strict and short) else 0):
                probs.append(dict(where, what='fusedev %s: bytes_written grew by %d, the device took %d' % (name, got[2] - wlen_before, max(ret, 0)), sig={'transport': 'fusedev', 'op': 'device-counters'}))
            if not buffered and op[0] == 'f' and res[0] == 'ok' and res[1] != got[2] - wlen_before and not short:
                probs.append(dict(where, what='fusedev write_from: returned %d but bytes_written grew by %d' % (res[1], got[2] - wlen_before), sig={'transport': 'fusedev', 'op': 'device-counters'}))
        if not calls and res[0] == 'err' and (res[1].startswith('raw:') or res[1].startswith('other:')):
            probs.append(dict(where, what='fusedev %s reports a device error without a device call' % name, sig={'transport': 'fusedev', 'op': 'device-error'}))
        if pkt is not None and not calls:
            probs.append(dict(where, what='fusedev %s made no device call, expected the packet %s' % (name, pkt.hex()[:60]), sig={'transport': 'fusedev', 'op': 'device-packet'}))
        if pkt is None and calls and exp != 'panic':
            probs.append(dict(where, what='fusedev %s reached the device although nothing is to be sent' % name, sig={'transport': 'fusedev', 'op': 'device-packet'}))
        if probs: break
    lo, hi = T.FBASE + T.MARGIN, T.FBASE + T.MARGIN + c['cap']
    stray = [a for a, hx in out['mem'] for i in range(len(hx) // 2) if not lo <= a + i < hi]
    if stray: probs.append({'what': 'fusedev writer wrote outside the reply buffer at %s' % stray[:4], 'sig': {'transport': 'fusedev', 'op': 'memory'}})
    return probs, orc, (c['cap'], tuple(sorted(kinds)), tuple(sorted(set(o[0] for o in c['ops']))))

# ================================================================== (c) file_traits loops
FT_LOOPS = {'read_exact_volatile': (False, False), 'write_all_volatile': (False, False), 'read_exact_at_volatile': (True, True), 'write_all_at_volatile': (True, True)}
FILEPAT = 0x5000

def gen_ftlcases(rng, nrandom):
    cases = []; n = 0
    for m in FT_LOOPS:
        for ln in (0, 1, 10, 4097):
            pats = [[('o', ln)], [('o', max(ln // 3, 1)), ('o', max(ln // 2, 1)), ('o', ln)], [('o', max(ln - 1, 0)), ('o', 0)], [('o', 0)],
                    [('i',), ('o', ln)], [('o', max(ln // 2, 1)), ('i',), ('i',), ('o', ln)], [('e',)], [('o', max(ln // 2, 1)), ('e',)],
                    [('o', ln + 1)], [('o', max(ln // 2, 1)), ('o', ln)], [('o', 1)] * min(ln + 1, 12), [('i',)] * 3 + [('o', ln)]]
            for sp in pats:
                # clamp every piece but an intended overshoot to what is left, so that most scripts transfer exactly len
                cases.append({'seed': n % 251, 'method': m, 'len': ln, 'foff': [0, 7, 100][n % 3], 'script': sp}); n += 1
    for _ in range(nrandom):
        m = rng.choice(list(FT_LOOPS)); ln = rng.choice([0, 1, 2, 8, 33, 100, 5000]); sp = []; left = ln
        for _ in range(rng.randrange(0, 9)):
            k = rng.choice('oooooie')
            if k == 'o':
                x = rng.choice([0, 1, left, max(left - 1, 0), left // 2, left + 1, rng.randrange(left + 2)]); sp.append(('o', x)); left = max(left - x, 0)
            else: sp.append((k,))
        cases.append({'seed': n % 251, 'method': m, 'len': ln, 'foff': rng.choice([0, 3, 4096]), 'script': sp}); n += 1
    return cases

def case_text_ftl(c):
    return 'seed=%d method=%s len=%d foff=%d script=%s' % (c['seed'], c['method'], c['len'], c['foff'], ','.join(s[0] + (str(s[1]) if s[0] == 'o' else '') for s in c['script']))

RESCODE = {'ok': 0, 'eof': 1, 'intr': 2, 'err': 3, 'panic': 4}
def ftlcase_coq(c, out):
    sc = '; '.join('(COk %d)' % s[1] if s[0] == 'o' else ('CIntr' if s[0] == 'i' else 'CErr') for s in c['script'])
    return '(check_ftl ft_retry_%s %s [%s] %d %d %d %d [%s])' % (c['method'], 'true' if FT_LOOPS[c['method']][1] else 'false', sc, c['len'], c['foff'],
                                                                RESCODE[out['res']], out['calls'], '; '.join('(%d, %d, %d)' % tuple(x) for x in out['log']))

def eval_ftlcase(c, out):
    """bytes moved = a prefix, in order, nothing repeated or skipped; success iff everything was transferred; nothing else touched"""
    if out.get('harness_panic'): return [{'what': 'file_traits %s: harness panicked' % c['method'], 'sig': {'method': c['method'], 'op': 'loop'}}]
    m = c['method']; ln, foff = c['len'], c['foff']; log = out['log']; probs = []
    pos = 0
    for s, f, k in log:
        if s != pos or f != foff + pos or k <= 0: probs.append('call (slice offset %d, file offset %d, %d bytes) does not continue at %d' % (s, f, k, pos)); break
        pos += k
    total = sum(x[2] for x in log)
    if total > ln: probs.append('%d bytes moved through a slice of %d' % (total, ln))
    if (out['res'] == 'ok') != (total == ln and out['res'] != 'panic'):
        if not (out['res'] == 'panic' and total == ln): probs.append('result %s with %d of %d bytes moved' % (out['res'], total, ln))
    arena = bytes.fromhex(out['arena']); fil = bytes.fromhex(out['file']); sl = arena[T.MARGIN:T.MARGIN + ln]
    patA = bytes(T.pat(c['seed'], T.FBASE + o) for o in range(len(arena)))
    if not probs and out['res'] != 'panic':
        if m.startswith('read'):
            want = bytes(T.pat(c['seed'], FILEPAT + foff + i) for i in range(total)) + patA[T.MARGIN + total:T.MARGIN + ln]
            if sl != want: probs.append('slice content differs from the first %d bytes of the file followed by the untouched rest' % total)
            if fil != bytes(T.pat(c['seed'], FILEPAT + i) for i in range(len(fil))): probs.append('the file was modified by a read loop')
        else:
            if fil[foff:foff + total] != sl[:total] or any(b != 0xEE for b in fil[:foff] + fil[foff + total:]): probs.append('file content differs from the first %d bytes of the slice at offset %d' % (total, foff))
            if sl != patA[T.MARGIN:T.MARGIN + ln]: probs.append('the slice was modified by a write loop')
        if arena[:T.MARGIN] != patA[:T.MARGIN] or arena[T.MARGIN + ln:] != patA[T.MARGIN + ln:]: probs.append('bytes outside the slice were modified')
    return [{'what': 'file_traits %s: %s' % (m, p), 'input': case_text_ftl(c), 'sig': {'method': m, 'op': 'loop'}} for p in probs[:1]]

VEC_METHODS = ['read_vectored_volatile', 'write_vectored_volatile', 'read_vectored_at_volatile', 'write_vectored_at_volatile']
def gen_veccases():
    return [{'method': m, 'lens': l} for m in VEC_METHODS for l in ([], [0], [5], [0, 5], [0, 0, 3], [4, 0, 2], [0, 0], [3, 7])]
def case_text_vec(c): return 'method=%s lens=%s' % (c['method'], ','.join(str(x) for x in c['lens']))
def veccase_coq(c, out):
    pk = out['picked']
    return '(check_dflt ft_first_only_%s [%s] %s)' % (c['method'], '; '.join(str(x) for x in c['lens']), 'None' if not pk else '(Some %d%%nat)' % pk[0])
def eval_veccase(c, out):
    if out.get('harness_panic'): return [{'what': 'default %s panicked' % c['method'], 'sig': {'method': c['method'], 'op': 'vectored-default'}}]
    pk = out['picked']; ne = [i for i, l in enumerate(c['lens']) if l > 0]
    if len(pk) > 1: return [{'what': 'default %s made %d calls' % (c['method'], len(pk)), 'input': case_text_vec(c), 'sig': {'method': c['method'], 'op': 'vectored-default'}}]
    if ne and out['res'] == 0:
        return [{'what': 'default %s on buffers of lengths %s answers Ok(0) (it hands bufs.first(), an empty buffer, to the single-buffer method) although buffer %d has room: documented as "the first nonempty buffer"; reads as end of file'
                         % (c['method'], c['lens'], ne[0]), 'input': case_text_vec(c), 'sig': {'file_traits': 'vectored-default-first-empty'}}]
    if ne and (not pk or out['res'] != c['lens'][pk[0]]):
        return [{'what': 'default %s moved %s bytes through buffer %s of %s' % (c['method'], out['res'], pk, c['lens']), 'input': case_text_vec(c), 'sig': {'method': c['method'], 'op': 'vectored-default'}}]
    return []
def eval_e2e(first, out):
    ps = []
    if out.get('harness_panic'): return [{'what': 'e2e probe panicked', 'sig': {'method': 'e2e', 'op': 'vectored-default'}}]
    for side, k, av in (('Reader::read_to_at', 'read_to_at', out['reader_avail']), ('VirtioFsWriter::write_from_at', 'write_from_at', out['writer_avail'])):
        if out[k] == 0 and av > 0:
            ps.append({'what': '%s(count=8) over a chain [%d-byte descriptor, 8-byte descriptor] with a file object that relies on the default vectored methods moves 0 of %d available bytes (the non-_at twin moves %d)'
                               % (side, first, av, out['then_' + ('read_to' if k == 'read_to_at' else 'write_from')]), 'input': 'transport_env e2e first=%d' % first, 'sig': {'file_traits': 'vectored-default-first-empty'}})
    return ps

# ================================================================== (b) chains given by the driver's tables
F_NEXT, F_WRITE, F_IND = 1, 2, 4
QR = (0, 0x10000)                                    # queue region: tables for up to 1024 descriptors, indirect tables from 0x8000
R3 = [(0x100000, 0x8000), (0x200000, 0x4000), (0x300000, 0x4000)]
R5 = [(0x100000, 0x4000), (0x110000, 0x4000), (0x200000, 0x4000), (0x204000, 0x4000), (0x400000, 0x8000)]
RBIG = [(0x100000, 0x800000), (0xa00000, 0x4000)]   # one 8 MiB region: 512 descriptors over it reach 2^32 bytes
U32 = 0xffffffff

def in_regions(regs, a, n=1):
    return any(b <= a and a + n <= b + z for b, z in regs)

def vq_collect_py(slots, regs, table, qsize, head):
    """python mirror of vq_collect: slots = {guest address of a 16-byte slot: (addr, len, flags, next)}.
    -> (yielded descriptors [(addr, len, 'r'|'w')], slots read [(slot address, desc or None)])"""
    out = []; touched = []; tbl, size, nxt, ttl, yielded, ind = table, qsize, head, qsize, 0, False
    def rd(a):
        if a in slots: d = slots[a]
        elif in_regions([QR], a, 16): d = (0, 0, 0, 0)        # untouched queue-region memory reads as zeros
        elif in_regions(regs, a, 16): raise ValueError('slot %#x lies in pattern-filled memory' % a)
        else: d = None
        touched.append((a, d)); return d
    while True:
        if ttl == 0 or nxt >= size: break
        d = rd(tbl + nxt * 16)
        if d is None: break
        if d[2] & F_IND:
            if ind or d[1] % 16 or d[1] // 16 > 0xffff: break
            tbl, size, nxt, ttl, ind = d[0], d[1] // 16, 0, d[1] // 16, True
            continue
        if yielded + d[1] > U32: break
        yielded += d[1]
        if d[2] & F_NEXT: nxt = d[3]; ttl -= 1
        else: ttl = 0
        out.append((d[0], d[1], 'w' if d[2] & F_WRITE else 'r'))
    return out, touched

def chain_error(regs, descs, kind):
    """what Reader::from_descriptor_chain (kind r) / VirtioFsWriter::new (kind w) answer: None or the error name"""
    for a, l, k in descs:
        if k != kind: continue
        reg = next(((b, z) for b, z in regs if b <= a < b + z), None)
        if reg is None: return 'findregion'
        if a - reg[0] + l > reg[1]: return 'guestmem'
    return None

def mk_table(descs, links=None):
    """slots of the main table for a plain chain: descriptor i at slot i, next = i + 1"""
    sl = {}
    for i, (a, l, k) in enumerate(descs):
        sl[i * 16] = (a, l, (F_WRITE if k == 'w' else 0) | (F_NEXT if i + 1 < len(descs) else 0), i + 1 if i + 1 < len(descs) else 0)
    return sl

def place_descs(rng, regs, n, kinds=None, lens=None):
    """n descriptors spread over all regions, readable first unless kinds is given"""
    lens = lens or [0, 1, 2, 3, 7, 8, 13, 64, 100]
    cur = {b: b + rng.choice([0, 1, 5, 4090]) for b, z in regs}; out = []
    nr = rng.randrange(0, n + 1); kinds = kinds or (['r'] * nr + ['w'] * (n - nr))
    for i in range(n):
        b, z = regs[i % len(regs)] if rng.random() < 0.7 else rng.choice(regs)
        ln = rng.choice(lens); a = cur[b]
        if a + ln > b + z: a = b + rng.randrange(0, z - ln);
        out.append((a, ln, kinds[i])); cur[b] = a + ln + rng.choice([0, 0, 1, 9])
    return out

def _small_ops(rng, spec, n, big=False):
    """operations with small sizes (also usable on chains of gigabytes)"""
    ops = []
    for _ in range(n):
        if rng.random() < 0.5:
            i = rng.randrange(len(spec.rd)); av = len(spec.rd[i][0])
            k = rng.choice('rxtsX')
            sz = rng.choice([0, 1, 3, 8, 64, min(av, 300), min(av + 1, 300)])
            if k == 's': op = ('s', i, rng.choice([0, 1, av, av + 1, av // 2, max(av - 3, 0)]))
            elif k in 'rx': op = (k, i, sz)
            elif k == 't': op = ('t', i, sz, rng.choice('fal'), 5)
            else: op = ('X', i, sz, rng.choice('fl'), 7)
        else:
            i = rng.randrange(len(spec.wr)); av = len(spec.wr[i][0])
            k = rng.choice('wwvfApag')
            sz = rng.choice([0, 1, 3, 8, 64, min(av, 300), min(av + 1, 300)])
            if k == 'p': op = ('p', i, rng.choice([0, 1, av, av + 1, av // 2, max(av - 3, 0)]))
            elif k in 'wa': op = (k, i, T.rdata(rng, sz))
            elif k == 'v': op = ('v', i, [T.rdata(rng, sz // 2), b'', T.rdata(rng, sz - sz // 2)])
            elif k in 'fg': op = (k, i, sz, rng.choice('fal') if k == 'f' else rng.choice('fl'), T.rdata(rng, rng.choice([sz, max(sz - 1, 0), sz + 2])))
            else: op = ('A', i, sz, rng.choice('fl'), T.rdata(rng, sz))
        ops.append(op); spec.apply(op)
    return ops

def gen_shape_vcases(rng):
    """deterministic shapes (the seed only chooses lengths / positions / operations):
    long plain chains, queue sizes 1..1024, loops cut by the queue size, next index out of range, INDIRECT tables (valid,
    behind direct descriptors, nested, misaligned length, too long, unreadable), 3 and 5 data regions, a chain beyond
    2^32 bytes, and every error branch of the two constructors in a deep position"""
    cases = []
    def add(regs, slots, qsize, note, bad_expected=None, nops=12, dirty_mode='none'):
        eff, touched = vq_collect_py(slots, regs, 0, qsize, 0)
        er, ew = chain_error(regs, eff, 'r'), chain_error(regs, eff, 'w')
        bad = er or ew
        allp = [p for b, z in regs for p in range(b // T.PS, (b + z) // T.PS)]
        d0 = {'none': [], 'alt': allp[::2], 'all': allp}[dirty_mode]
        big = sum(l for a, l, k in eff) > (1 << 24)
        c = {'seed': rng.randrange(256), 'regions': regs, 'descs': eff, 'bad': bad, 'bad_side': 'r' if er else ('w' if ew else None), 'ops': [], 'dirty0': d0, 'via': ['direct', 'enum'][len(cases) % 2],
             'qsize': qsize, 'slots': slots, 'touched': touched, 'note': note, 'lazy': big, 'pattern': 'shape-' + note, 'dirty_mode': dirty_mode}
        if bad_expected is not None: assert bad == bad_expected, (note, bad, bad_expected)
        if not bad:
            spec = T.VSpec(c['seed'], eff, d0, lazy=big)
            c['ops'] = _small_ops(rng, spec, nops, big)
        cases.append(c)
    # --- long plain chains over 3 and 5 regions, several queue sizes
    for regs, n, q in ((R3, 9, 16), (R3, 17, 32), (R5, 33, 64), (R5, 64, 64), (R3, 200, 256), (R5, 1, 1), (R3, 2, 2), (R5, 8, 8), (R3, 300, 1024)):
        for dm in ('none', 'alt'):
            add(regs, mk_table(place_descs(rng, regs, n)), q, 'plain%d-q%d' % (n, q), dirty_mode=dm)
    add(R3, mk_table(place_descs(rng, R3, 12, kinds=list('rwrwrwrwrwrw'))), 16, 'interleaved12')
    # --- a two-descriptor loop: the iterator stops after queue-size descriptors (the same memory again and again)
    for q in (4, 16, 128):
        a = R3[0][0] + 100
        add(R3, {0: (a, 3, F_NEXT | F_WRITE, 1), 16: (a + 4096, 5, F_NEXT | F_WRITE, 0)}, q, 'loop-q%d' % q)
        add(R3, {0: (a, 3, F_NEXT, 1), 16: (a + 8, 2, F_NEXT, 1)}, q, 'selfloop-q%d' % q)
    # --- next index outside the table, unreadable slot
    add(R3, {0: (R3[0][0], 8, F_NEXT, 1), 16: (R3[1][0], 8, F_NEXT | F_WRITE, 16)}, 16, 'next-out-of-range')
    add(R3, {0: (R3[0][0], 8, F_NEXT, 3), 48: (R3[1][0] + 4090, 12, F_NEXT | F_WRITE, 9), 144: (R3[2][0], 4, F_WRITE, 0)}, 16, 'next-skipping-slots')
    # --- INDIRECT tables (in the queue region from 0x8000)
    def ind_table(base, descs):
        return {base + i * 16: (a, l, (F_WRITE if k == 'w' else 0) | (F_NEXT if i + 1 < len(descs) else 0), i + 1 if i + 1 < len(descs) else 0) for i, (a, l, k) in enumerate(descs)}
    for regs, n in ((R3, 1), (R3, 3), (R5, 20), (R3, 100)):
        ds = place_descs(rng, regs, n)
        sl = {0: (0x8000, 16 * n, F_IND, 0)}; sl.update(ind_table(0x8000, ds)); add(regs, sl, 16, 'indirect%d' % n, dirty_mode=['none', 'alt'][n % 2])
    ds = place_descs(rng, R5, 6); hd = place_descs(rng, R5[:1], 2, kinds=['r', 'r'])
    sl = {0: (hd[0][0], hd[0][1], F_NEXT, 1), 16: (hd[1][0], hd[1][1], F_NEXT, 2), 32: (0x8000, 16 * 6, F_IND, 0)}; sl.update(ind_table(0x8000, ds))
    add(R5, sl, 16, 'direct-then-indirect')
    sl = {0: (0x8000, 32, F_IND, 0), 0x8000: (R3[0][0], 8, F_NEXT, 1), 0x8010: (0x9000, 16, F_IND, 0), 0x9000: (R3[1][0], 8, F_WRITE, 0)}
    add(R3, sl, 16, 'nested-indirect')                                       # stops at the inner INDIRECT: one readable descriptor
    add(R3, {0: (0x8000, 24, F_IND, 0), 0x8000: (R3[0][0], 8, 0, 0)}, 16, 'indirect-misaligned-len')          # nothing yielded
    add(R3, {0: (0x8000, 16 * 65536, F_IND, 0)}, 16, 'indirect-too-long')
    add(R3, {0: (0x7000000, 32, F_IND, 0)}, 16, 'indirect-unreadable')
    add(R3, {0: (0x8000, 32, F_IND | F_NEXT, 1), 16: (R3[0][0], 4, F_WRITE, 0), 0x8000: (R3[1][0], 8, F_NEXT | F_WRITE, 1), 0x8010: (R3[2][0] + 4094, 4, F_WRITE, 0)}, 16, 'indirect-with-next-flag')
    add(R3, {0: (0x8000, 48, F_IND, 0), 0x8000: (R3[0][0], 8, F_NEXT, 2), 0x8020: (R3[1][0], 8, F_NEXT | F_WRITE, 7)}, 16, 'indirect-next-out-of-range')
    # --- beyond 2^32 bytes: 600 writable descriptors of 8 MiB over the same region; the iterator yields 511 of them
    big = RBIG[0]
    sl = mk_table([(big[0], big[1], 'w')] * 600); add(RBIG, sl, 1024, 'over-u32-writable', nops=8)
    sl = mk_table([(RBIG[1][0], 40, 'r')] + [(big[0], big[1], 'r')] * 300 + [(big[0], big[1], 'w')] * 300); add(RBIG, sl, 1024, 'over-u32-mixed', nops=8)
    sl = mk_table([(big[0], big[1] - 1, 'w')] * 2 + [(big[0] + 5, U32 - 2 * (big[1] - 1), 'w')]); add(RBIG, sl, 16, 'last-descriptor-too-long', bad_expected='guestmem')
    # --- the error branches of the two constructors, deep in a long chain and inside an indirect table
    for kind in 'rw':
        for err, (a, l) in (('findregion', (0x900000, 8)), ('findregion', (R3[2][0] + R3[2][1], 0)), ('guestmem', (R3[1][0] + R3[1][1] - 3, 4)), ('guestmem', (R3[0][0] + 1, R3[0][1]))):
            ds = place_descs(rng, R3, 150, kinds=['r'] * 75 + ['w'] * 75); ds[40 if kind == 'r' else 120] = (a, l, kind)
            add(R3, mk_table(ds), 256, 'deep-%s-%s' % (err, kind), bad_expected=err)
        ds = place_descs(rng, R3, 10, kinds=['r'] * 5 + ['w'] * 5); ds[2 if kind == 'r' else 7] = (0x900000, 1, kind)
        sl = {0: (0x8000, 160, F_IND, 0)}; sl.update(ind_table(0x8000, ds)); add(R3, sl, 16, 'indirect-findregion-%s' % kind, bad_expected='findregion')
    return cases

def case_text_vq(c):
    regs = [QR] + list(c['regions'])
    raw = ','.join('%d:%d:%d:%d:%d' % ((k // 16,) + v) for k, v in sorted(c['slots'].items()) if k < 16 * c['qsize'])
    ind = ','.join('%d:%d:%d:%d:%d' % ((k,) + v) for k, v in sorted(c['slots'].items()) if k >= 16 * c['qsize'] and in_regions([QR], k, 16))
    return 'seed=%d regions=%s queue=0 qsize=%d via=%s raw=%s ind=%s dirty0=%s ops=%s' % (
        c['seed'], ','.join('%d:%d' % r for r in regs), c['qsize'], c.get('via', 'direct'), raw, ind,
        ','.join(str(p) for p in sorted(c.get('dirty0', ()))), ';'.join(T.op_text(o) for o in c['ops']))

def vqcase_coq(c, out, with_dirty=True):
    regs = c['regions']
    ranges = []
    for a, l, k in c['descs']:
        r = T.region_of(regs, a)
        if r: ranges.append((a, min(l, 64), r[0], r[0] + r[1]))
        if r and l > 64: ranges.append((a + l - 32, 32, r[0], r[0] + r[1]))
    for a, hx in out['mem']:
        r = T.region_of(regs, a)
        if r: ranges.append((a, len(hx) // 2, r[0], r[0] + r[1]))
    ranges = sorted(set(ranges))[:400]
    ws, _ = T.windows(c['seed'], ranges, out['mem'], None)
    universe = [p for b, z in regs for p in range(b // T.PS, (b + z) // T.PS)]
    init = out['init']
    exp_init = '(HOk 0 0 0)' if init == 'ok' else '(HErr %d)' % T.ERRCODE[T.ERRS.get(init.split(':')[-1], 'EBadIndex')]
    tb = '; '.join('(%d, mkrd %d %d %s %s %s %d)' % (a, d[0], d[1], 'true' if d[2] & F_NEXT else 'false', 'true' if d[2] & F_WRITE else 'false', 'true' if d[2] & F_IND else 'false', d[3])
                   for a, d in dict(c['touched']).items() if d is not None)
    return '(check_avq %d [%s] [%s] 0 %d 0 [%s] [%s] %s [%s] [%s] [%s] [%s])' % (
        c['seed'], '; '.join('(%d, %d)' % r for r in regs), tb, c['qsize'],
        '; '.join(str(p) for p in sorted(c.get('dirty0', ()))), '; '.join(T.aop_coq(o) for o in c['ops']), exp_init,
        '; '.join(T.obs_coq(o) for o in out['obs']), T.win_coq(ws),
        '; '.join(str(p) for p in out['dirty']) if with_dirty else '', '; '.join(str(p) for p in universe) if with_dirty else '')

def eval_vqcase(c, out):
    """-> (p04, p17, shape): the chain the implementation saw must be the one the tables describe (counters of the first
    observation), then the flat-stream specification as for every other virtio case"""
    p04, p17, shape = T.eval_vcase(c, out)
    if c['bad'] and not out.get('harness_panic') and out.get('init', 'ok') != 'ok' and not out['init'].startswith(c['bad_side'] + ':'):
        p04.append({'what': 'chain refused by the wrong constructor: %s (the offending descriptor is %s)' % (out['init'], c['bad_side']), 'step': None})
    for p in p04 + p17: p.setdefault('sig', {'transport': 'virtio', 'op': 'chain-shape'}); p['shape'] = c['note']
    return p04, p17, (('shape', c['note'], c['qsize'], len(c['descs'])) if shape is not None or c['bad'] else None)

# ================================================================== round 6 (seed C17f): file -> guest transfers that fail / run dry partway
def _chunk_coq(data, pos, n):
    if isinstance(data, T.GD): return '(firstn (N.to_nat %d) (skipn (N.to_nat %d) (gd %d %d)))' % (n, pos, data.s, len(data))
    return T.dcoq(bytes(data[pos:pos + n]))

def sop_coq(op):
    """an operation as a Coq [sop] (Model/TransportEnv.v part 4)"""
    k = op[0]; i = '%d%%nat' % op[1]
    if k == 'A' and op[3][0] == 's':
        count, steps, data = op[2], T.script_steps(op[3]), op[4]
        rem = count; pos = 0; out = []
        for st in steps:
            if st == 'i': out.append('SIntr'); continue
            if st == 'e': out.append('SFail'); continue
            n = min(int(st), len(data) - pos); out.append('(SGive %s)' % _chunk_coq(data, pos, n))
            d = min(rem, n); pos += d; rem -= d
        # behind the script the source is at end of file (the model's [] case)
        return '(SWriteAllFromS %s %d [%s])' % (i, count, '; '.join(out))
    if k == 'f' and op[3][0] in 'sS':
        steps = T.script_steps(op[3]); st = steps[0] if steps else '0'
        src = 'None' if st == 'e' else '(Some %s)' % _chunk_coq(op[4], 0, min(int(st), len(op[4])))
        return '(SA (ASync (WWriteFrom %s %d %s)))' % (i, op[2], src)
    return '(SA %s)' % T.aop_coq(op)

def gen_fail_cases(rng, scale=1):
    """every file -> guest transfer method (write_from, write_from_at, write_all_from, async_write_from_at; plain and
    split writers; direct and through the Writer enum) over a chain of three writable descriptors (the first ends next
    to a page border, the second spans several pages, the third lies in another region) with a source that
    (a) is shorter than count: first descriptor filled, second partly, third untouched (real files and scripted),
    (b) fails at its n-th call, n = 1..4, after chunks that end before / on / behind a descriptor border,
    (c) answers with short reads (and ErrorKind::Interrupted in between);
    on initial dirty logs none / alternating / all / random / exactly the end pages of the second descriptor."""
    cases = []; n = 0
    (ab, az), (bb, bz) = T.LAYOUTS[0]
    allp = [p for b, z in T.LAYOUTS[0] for p in range(b // T.PS, (b + z) // T.PS)]
    def chain(var):
        l1 = [100, 4096, 5000][var % 3]; a1 = ab + T.PS * 2 - [l1, 1, l1 // 2][(var // 3) % 3] % T.PS - (l1 // T.PS) * T.PS
        a1 = max(a1, ab)
        l2 = [4096, 6000, 9000][(var // 2) % 3]; a2 = a1 + l1 + [0, 13, 4096 + 77][(var // 5) % 3]
        l3 = [8, 100, 4097][(var // 7) % 3]; a3 = bb + [0, 4090, 100][var % 3]
        ds = [(a1, l1, 'w'), (a2, l2, 'w'), (a3, l3, 'w')]
        if var % 4 == 0: ds.insert(0, (bb + 8192, 40, 'r'))
        return ds
    def add(ds, ops, pattern):
        nonlocal n
        mode = ['none', 'alt', 'all', 'random', 'ends'][n % 5]
        w2 = [d for d in ds if d[2] == 'w'][1]
        d0 = {'none': [], 'alt': allp[(n // 5) % 2::2], 'all': allp, 'random': [p for p in allp if rng.random() < 0.4],
              'ends': sorted(set([w2[0] // T.PS, (w2[0] + w2[1] - 1) // T.PS]))}[mode]
        cases.append({'seed': n % 251, 'regions': T.LAYOUTS[0], 'descs': ds, 'bad': None, 'ops': ops, 'dirty0': d0, 'via': ['direct', 'enum'][n % 2],
                      'pattern': pattern, 'dirty_mode': mode}); n += 1
    var = 0
    for rep in range(scale):
        for split in (False, True):
            for meth in ('A', 'f', 'F', 'g'):             # write_all_from, write_from, write_from_at, async_write_from_at
                ds = chain(var); var += 1
                W = [d for d in ds if d[2] == 'w']; l1, l2, l3 = W[0][1], W[1][1], W[2][1]
                pre = [('p', 0, 16)] if split else []; tgt = 1 if split else 0
                room = l1 + l2 + l3 - (16 if split else 0); f1 = l1 - (16 if split else 0)      # bytes of the first descriptor left to the target
                def src(total): return T.rdata(rng, total)
                def op(count, kind, data):
                    if meth == 'A': return ('A', tgt, count, kind, data)
                    if meth == 'f': return ('f', tgt, count, kind, data)
                    if meth == 'F': return ('f', tgt, count, {'f': 'a', 'l': 'a'}.get(kind, 'S' + kind[1:] if kind[0] == 's' else kind), data)
                    return ('g', tgt, count, {'a': 'f'}.get(kind, kind if kind in 'fle' else 'l'), data)
                after = [(rng.choice('wa'), tgt, T.rdata(rng, 5))]
                # (a) the source is shorter than count: it ends in the middle of the second descriptor / exactly on a border / after one byte
                for L in (f1 + l2 // 2, f1, f1 + 1, 0):
                    for kind in (('f', 'l', 's%d' % room) if meth != 'g' else ('f', 'l')):
                        add(chain(var - 1), pre + [op(room, kind, src(L))] + after, 'short-%s-%s' % (meth, kind[0]))
                if meth == 'g':
                    add(chain(var - 1), pre + [op(room, 'e', b'')] + after, 'fail-g-e'); continue
                # (b) the source fails at its n-th call
                for chunks in ([], [f1], [f1 - 1], [f1 + 10], [f1, l2], [1, f1 + 4096], [f1 + 1, 4095, 1], [f1 // 2 + 1, f1, l2 // 2]):
                    kind = 's' + '.'.join(str(c) for c in chunks + ['e'])
                    add(chain(var - 1), pre + [op(room, kind, src(room))] + after, 'fail%d-%s' % (len(chunks) + 1, meth))
                # (c) short reads that add up, with interruptions; and short reads that do not add up
                if meth == 'A':
                    add(chain(var - 1), pre + [op(room, 's1.i.4095.i.i.4097.%d' % room, src(room))] + after, 'pieces-A')
                    add(chain(var - 1), pre + [op(room, 's%d.i.%d.0' % (f1, l2 // 3), src(room))] + after, 'pieces-dry-A')
                    add(chain(var - 1), pre + [op(room, 's%d.%d.%d.1' % (f1, l2, l3 - 1), src(room - 1))] + after, 'one-byte-short-A')
                    add(chain(var - 1), pre + [op(room - 5, 's%d' % room, src(room))] + after + [('f', tgt, 5, 'l', src(5))], 'complete-A')
                else:
                    add(chain(var - 1), pre + [op(room, 's%d' % (f1 + 4097), src(room)), op(room - f1 - 4097, 's%d' % room, src(room))] + after, 'two-calls-' + meth)
    return cases

def failcase_coq(c, out, with_dirty=True):
    regs = c['regions']
    ranges = []
    for a, l, k in c['descs']:
        r = T.region_of(regs, a)
        if r: ranges.append((a, l, r[0], r[0] + r[1]))
    ws, _ = T.windows(c['seed'], ranges, out['mem'], None)
    universe = [p for b, z in regs for p in range(b // T.PS, (b + z) // T.PS)]
    return '(check_svd %d [%s] [%s] [%s] [%s] (HOk 0 0 0) [%s] [%s] [%s] [%s])' % (
        c['seed'], '; '.join('(%d, %d)' % r for r in regs),
        '; '.join('(mkdesc %d %d %s)' % (a, l, 'true' if k == 'w' else 'false') for a, l, k in c['descs']),
        '; '.join(str(p) for p in sorted(c.get('dirty0', ()))), '; '.join(sop_coq(o) for o in c['ops']),
        '; '.join(T.obs_coq(o) for o in out['obs']), T.win_coq(ws),
        '; '.join(str(p) for p in out['dirty']) if with_dirty else '', '; '.join(str(p) for p in universe) if with_dirty else '')
