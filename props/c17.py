"""C17 -- guest memory written by the server is always marked dirty (virtio-fs transport)."""
import os, sys, json, random
from vlib import *
import transport_lib as T
import transport_env_lib as E
sys.path.insert(0, os.path.join(ROOT, 'translator'))
import async_transport

PROP = 'C17'

def run_check(tier, seed):
    ev = Evidence(PROP, tier, seed)
    ev.cov['checker_cmd'] = 'make -C coq Props/C17.vo (coqc 8.16.1, full .vo) + Print Assumptions audit; coqc on generated coq/Cases/c17_*.v'
    ev.cov['trusted_base'] = TRUSTED_COMMON + [
        'coq/Model/Transport.v (hand transcription of IoBuffers::consume/mark_dirty/mark_used and VirtioFsWriter); tied to the code by running model and real types on the same random chains/op sequences each run and comparing results, guest memory and the set of dirty pages',
        'vm-memory: AtomicBitmap::set_addr_range marks pages start/4096 ..= (start+len-1)/4096 and nothing for len = 0 (modelled as mark_range; observed through GuestMemoryMmap<AtomicBitmap> in every run); VolatileSlice::offset/subslice keep the bitmap offset in step with the address',
        'the source of write_from places a prefix of its bytes into the slices and reports its length (preadv on memfd / harness sources with a limit or an error)',
        'harness/src/bin/transport.rs (bitmap reset after the chain is built; dirty pages read back with dirty_at for every page of the data regions; byte diff of all guest memory against the initial pattern) and props/transport_lib.py',
    ]
    ev.assumptions = ['dirty tracking page size 4096 and page-aligned guest regions (dirty page = guest address / 4096)',
                      'whole requests: Proofs/TransportServer.v bridges to the server model (Model/Server.v decide/perform, owned by the server properties C02/C03): for every reply action the writer operations perform issues are run on the segment-level writer; that the real handlers issue these operations is the server model\'s own correspondence (C03 harness) plus the 200 real requests run here each time']
    findings = []; broken = []
    rng = random.Random(seed * 7919 + 17)
    try:
        async_transport.generate(REPO)        # Gen/AsyncTransport.v is in the cone (fusedev part of Proofs/TransportAsync.v)
    except async_transport.TranslateError as ex:
        broken.append({'kind': 'translator', 'item': 'translator/async_transport.py', 'error': str(ex)})
    audit = std_audit(ev, PROP, broken)
    if tier == 'thorough' and audit['ok']: T.coqchk(PROP, ev, broken)
    ok, out, bindir = cargo_build(['transport'], features=['async-io'])
    if not ok:
        broken.append({'kind': 'harness-build', 'log': out[-3000:]})
        ev.cov['rule'] = 'harness did not build'; ev.cov['samples'] = [{'note': 'no run'}]
        return finish(ev, PROP, findings, broken)
    scale = 1 if tier == 'quick' else 8
    if broken: scale *= 4
    n = 140 * scale
    # random chains and op sequences, 50% of them on a dirty log that is not empty at the start (random / all / alternating pages);
    # then the deterministic family for long-lived logs: one writable segment of 3-5 pages, sub-writers written out of
    # order (trailer and header before the payload), stores of several pages through write / write_vectored /
    # write_from(_at) / write_all_from, initial log = exactly the end pages of each upcoming multi-page store (or none/all/alternating/random)
    cases = T.gen_vcases(rng, n // 2, writer_bias=True, dirty_init=True) + T.gen_vcases(rng, n - n // 2, dirty_init=True) \
        + [T.gen_dirty_case(rng) for _ in range(100 * scale)] + [T.gen_short_case(rng) for _ in range(100 * scale)] + T.gen_enum_vcases(rng, writer_only=True)
    txt = [T.case_text_v(c) for c in cases]
    outs, err = T.run_harness(bindir, 'virtio', txt, 'c17')
    evals = 0; shapes = set(); samples = []
    if err: broken.append({'kind': 'harness-run', 'log': err})
    else:
        exprs = []; spec_bad = set(); other = 0
        for i, (c, o) in enumerate(zip(cases, outs)):
            p04, p17, shape = T.eval_vcase(c, o)
            evals += 1 + len(c['ops'])
            for p in p17:
                p['input'] = txt[i]; p['observed_dirty'] = o.get('dirty'); findings.append(p); spec_bad.add(i)
            if p04: other += 1; spec_bad.add(i)            # a data/counter deviation is C04's finding; the dirty comparison is moot there
            if shape and not p17 and not p04 and o.get('dirty'):
                pages = tuple(sorted(set((a % T.PS in (0, 1, T.PS - 1), (a + l - 1) // T.PS - a // T.PS) for a, l, k in c['descs'] if k == 'w')))
                shapes.add((pages, shape[1], len(o['dirty']), c.get('pattern'), c.get('dirty_mode'), bool(c.get('dirty0'))))
            exprs.append(T.vcase_coq(c, o, with_dirty=True) if not o.get('harness_panic') else 'false')
        ev.cov['cases_with_c04_deviation_skipped'] = other
        samples.append({'case': txt[0][:300], 'dirty_pages_observed': outs[0].get('dirty'), 'memory_changes': [d[0] for d in outs[0].get('mem', [])][:8]})
        k = next((i for i, o in enumerate(outs) if len(o.get('dirty', [])) >= 2), None)
        if k is not None: samples.append({'case': txt[k][:300], 'dirty_pages_observed': outs[k]['dirty'], 'memory_changes': [d[0] for d in outs[k]['mem']][:8]})
        if audit['ok']:
            fails, errs = coq_check_cases('c17_v', T.COQ_HEADER, exprs, shard=max(8, (len(exprs) + 15) // 16))
            ev.cov['model_vs_impl_cases'] = len(exprs)
            for e in errs: broken.append({'kind': 'correspondence', 'name': 'coq evaluation failed', 'log': e['log'][-800:]})
            nb = 0
            for i in fails:
                if i in spec_bad: continue
                broken.append({'kind': 'correspondence', 'name': 'Model/Transport.v vrun (results, memory, dirty pages) vs Reader/VirtioFsWriter', 'case': txt[i][:1500]})
                nb += 1
                if nb >= 5: break
    # ---- round 6 (seed C17f): transfers that fail / run dry partway (the bitmap against the byte diff after the FAILED operation),
    #      and chains as the driver's tables describe them (INDIRECT tables, many descriptors, queue sizes, 3+ regions, beyond 2^32 bytes)
    if not err:
        xrng = random.Random(seed * 104729 + 6)
        fcases = E.gen_fail_cases(xrng, scale); shcases = E.gen_shape_vcases(xrng)
        ftxt = [T.case_text_v(c) for c in fcases]; shtxt = [E.case_text_vq(c) for c in shcases]
        outs2, err2 = T.run_harness(bindir, 'virtio', ftxt + shtxt, 'c17x')
        if err2: broken.append({'kind': 'harness-run', 'log': err2})
        else:
            exprs = []; spec_bad = set(); alltxt = ftxt + shtxt
            for i, (c, o) in enumerate(zip(fcases + shcases, outs2)):
                isf = i < len(fcases)
                p04, p17, shape = T.eval_vcase(c, o) if isf else E.eval_vqcase(c, o)
                evals += 1 + len(c['ops'])
                for p in p17:
                    p['input'] = alltxt[i][:6000]; p['observed_dirty'] = o.get('dirty'); findings.append(p); spec_bad.add(i)
                if p04: spec_bad.add(i)
                if shape and not p17 and not p04: shapes.add((c.get('pattern'), c.get('dirty_mode'), len(o.get('dirty', []))))
                if o.get('harness_panic'): exprs.append('false')
                else: exprs.append(E.failcase_coq(c, o, True) if isf else E.vqcase_coq(c, o, True))
            ev.cov['failing_transfer_cases'] = len(fcases); ev.cov['chain_shape_cases'] = len(shcases)
            if audit['ok']:
                fails, errs = coq_check_cases('c17_x', E.COQ_HEADER_C17, exprs, shard=max(8, (len(exprs) + 15) // 16))
                for e in errs: broken.append({'kind': 'correspondence', 'name': 'coq evaluation failed', 'log': e['log'][-800:]})
                nb = 0
                for i in fails:
                    if i in spec_bad: continue
                    broken.append({'kind': 'correspondence', 'name': 'Model/TransportEnv.v srun / from_vq (results, memory, dirty pages) vs Reader/VirtioFsWriter', 'case': alltxt[i][:1500]})
                    nb += 1
                    if nb >= 5: break
    # ---- whole requests through Server::handle_message (read, readdir, getxattr, listxattr, readlink, getattr, unknown opcode)
    scases = [T.gen_scase(rng) for _ in range(200 * scale)]
    stxt = [T.case_text_s(c) for c in scases]
    souts, err = T.run_harness(bindir, 'server', stxt, 'c17')
    if err: broken.append({'kind': 'harness-run', 'log': err})
    else:
        kinds = {}
        for i, (c, o) in enumerate(zip(scases, souts)):
            probs, shape = T.eval_scase(c, o)
            evals += 1
            for p in probs:
                p['input'] = stxt[i][:3000]; p['observed'] = {'res': o.get('res'), 'dirty': o.get('dirty'), 'head': o.get('head')}; findings.append(p)
            if shape and not probs:
                shapes.add(('request',) + shape); kinds[c['kind']] = kinds.get(c['kind'], 0) + 1
        ev.cov['whole_requests'] = kinds
        samples.append({'request': scases[0]['kind'], 'descs': scases[0]['descs'], 'result': souts[0].get('res'), 'dirty_pages_observed': souts[0].get('dirty')})
    ev.cov['evaluations'] = evals
    ev.cov['distinct_nontrivial'] = len(shapes)
    ev.cov['rule'] = ('evaluations = operations run on real Reader/VirtioFsWriter over GuestMemoryMmap<AtomicBitmap> (plus one per chain); after each case the set of dirty pages is compared '
                      'with (a) the pages of all bytes that changed, (b) the pages of all consumed-for-write addresses of the flat-stream specification (both inclusions), (c) the Coq model; '
                      'distinct_nontrivial = distinct (page-alignment classes of the writable segments, set of op kinds, number of dirty pages) among deviation-free cases that marked at least one page, '
                      'plus distinct (request kind, reply completed, number of dirty pages, number of writable descriptors) of whole requests run through Server::handle_message with a payload file system '
                      '(there the bitmap is compared with the byte diff and with the pages of the reply bytes; no Coq model of the server is involved)')
    ev.cov['samples'] = samples[:5] or [{'note': 'no run'}]
    return finish(ev, PROP, findings, broken)

def replay(path):
    obj = json.load(open(path))
    ok, out, bindir = cargo_build(['transport'], features=['async-io'])
    if not ok: print(out[-2000:]); return 2
    rc = 0
    for f in obj.get('failing', []) + [b for b in obj.get('broken', []) if b.get('case')]:
        txt = f.get('input') or f.get('case')
        if not txt: continue
        outs, err = T.run_harness(bindir, 'server' if ' req=' in txt else 'virtio', [txt], 'replay')
        print(txt[:400]); print('  ->', json.dumps(outs[0])[:1000] if outs else err)
        print('  reported:', f.get('what') or f.get('name'))
        rc = 1
    return rc
