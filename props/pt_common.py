"""Shared by C05/C06: tree specifications (one spec -> the real directory AND the abstract host of
Model/HostFs.v), request histories (one history -> harness lines AND Coq [sreq] terms), parsing of
what harness bin `ptfs` printed, rendering of observed replies as Coq terms."""
import os, sys, stat, hashlib, shutil, json
from vlib import *

S_IFMT = 0o170000
FMT = {'reg': 0o100000, 'dir': 0o040000, 'lnk': 0o120000, 'fifo': 0o010000, 'chr': 0o020000, 'blk': 0o060000, 'sock': 0o140000}

# ------------------------------------------------------------------ trees
class Tree:
    """nodes: ino -> dict(kind, mode, uid, gid, ents {name(bytes): ino}, parent, data, target, rdev, xattrs)"""
    def __init__(self):
        self.nodes = {}; self.next = 10
    def add(self, kind, mode, uid=0, gid=0, **kw):
        i = self.next; self.next += 1
        n = dict(kind=kind, mode=mode, uid=uid, gid=gid, ents={}, parent=i, data=b'', target=b'', rdev=0, xattrs={})
        n.update(kw); self.nodes[i] = n
        return i
    def link(self, d, name, i):
        self.nodes[d]['ents'][name] = i
        if self.nodes[i]['kind'] == 'dir': self.nodes[i]['parent'] = d
    def subtree(self, root):
        seen = []; todo = [root]
        while todo:
            i = todo.pop()
            if i in seen: continue
            seen.append(i)
            if self.nodes[i]['kind'] == 'dir': todo += list(self.nodes[i]['ents'].values())
        return sorted(seen)

def build_real(tree, top, path):
    """create node `top` of the tree at `path` (which must not exist); hard links honoured"""
    made = {}
    def mk(i, p):
        n = tree.nodes[i]
        if i in made and n['kind'] != 'dir':
            os.link(made[i], p, follow_symlinks=False); return
        k = n['kind']
        if k == 'dir':
            os.mkdir(p)
            for name, c in n['ents'].items(): mk(c, os.path.join(p, name))
        elif k == 'reg':
            with open(p, 'wb') as f: f.write(n['data'])
        elif k == 'lnk':
            os.symlink(n['target'], p)
        elif k == 'fifo':
            os.mkfifo(p)
        elif k in ('chr', 'blk'):
            os.mknod(p, FMT[k] | n['mode'], n['rdev'])
        elif k == 'sock':
            os.mknod(p, FMT[k] | n['mode'])
        made[i] = p
        if k != 'lnk':
            for xn, xv in n['xattrs'].items(): os.setxattr(p, xn, xv)
            os.chown(p, n['uid'], n['gid']); os.chmod(p, n['mode'])
        else:
            os.lchown(p, n['uid'], n['gid'])
    mk(top, path.encode() if isinstance(path, str) else path)

def coq_bytes(b):
    return '[' + ';'.join(str(x) for x in b) + ']'

def coq_host(tree):
    rows = []
    for i in sorted(tree.nodes):
        n = tree.nodes[i]; k = n['kind']
        if k == 'dir':
            ents = '[' + ';'.join('(%s,%d)' % (coq_bytes(nm), c) for nm, c in n['ents'].items()) + ']'
            kind = '(KDir %s %d false)' % (ents, n['parent'])
        elif k == 'reg': kind = '(KReg %s)' % coq_bytes(n['data'])
        elif k == 'lnk': kind = '(KLnk %s)' % coq_bytes(n['target'])
        else: kind = '(KSpec %d %d)' % (FMT[k], n['rdev'])
        xs = '[' + ';'.join('(%s,%s)' % (coq_bytes(a), coq_bytes(v)) for a, v in sorted(n['xattrs'].items())) + ']'
        mode = 0o777 if k == 'lnk' else n['mode']
        rows.append('(%d, mkInode %s %d %d %d %s)' % (i, kind, mode, n['uid'], n['gid'], xs))
    return '(mkHost [%s] %d [])' % (';\n '.join(rows), tree.next)

# ------------------------------------------------------------------ requests
def hx(b): return b.hex() if b else '-'
def ref_h(r): return ('#%d' % r[1]) if isinstance(r, tuple) else str(r)
def ref_c(r): return ('(Raw %d)' % r[1]) if isinstance(r, tuple) else ('(Slot %d)' % r)
def oref_h(r): return '-' if r is None else ref_h(r)
def oref_c(r): return 'None' if r is None else '(Some %s)' % ref_c(r)

def cname(b):
    """what a &CStr made from these bytes holds"""
    return b.split(b'\0')[0]

def op_line(o):
    k = o['op']; g = o.get
    if k == 'lookup': a = [ref_h(o['p']), hx(o['name'])]
    elif k == 'forget': a = [ref_h(o['i']), o['count']]
    elif k == 'batch_forget': a = [x for i, c in o['l'] for x in (ref_h(i), c)]
    elif k == 'getattr': a = [ref_h(o['i']), oref_h(g('h'))]
    elif k == 'setattr': a = [ref_h(o['i']), oref_h(g('h')), o['valid'], o['mode'], o['uid'], o['gid'], o['size'], g('atime', 1000000), g('ansec', 0), g('mtime', 2000000), g('mnsec', 0)]
    elif k == 'mkdir': a = [ref_h(o['p']), hx(o['name']), o['mode'], o['umask'], o['uid'], o['gid']]
    elif k == 'mknod': a = [ref_h(o['p']), hx(o['name']), o['mode'], o['rdev'], o['umask'], o['uid'], o['gid']]
    elif k == 'create': a = [ref_h(o['p']), hx(o['name']), o['mode'], o['umask'], o['flags'], o['fuse_flags'], o['uid'], o['gid']]
    elif k == 'symlink': a = [ref_h(o['p']), hx(o['name']), hx(o['target']), o['uid'], o['gid']]
    elif k == 'link': a = [ref_h(o['i']), ref_h(o['p']), hx(o['name'])]
    elif k in ('unlink', 'rmdir'): a = [ref_h(o['p']), hx(o['name'])]
    elif k == 'rename': a = [ref_h(o['p']), hx(o['name']), ref_h(o['p2']), hx(o['name2']), o['flags']]
    elif k == 'open': a = [ref_h(o['i']), o['flags'], o['fuse_flags']]
    elif k == 'opendir': a = [ref_h(o['i']), o['flags']]
    elif k in ('release', 'releasedir', 'flush'): a = [ref_h(o['i']), ref_h(o['h'])]
    elif k == 'read': a = [ref_h(o['i']), ref_h(o['h']), o['size'], o['off'], o['flags']]
    elif k == 'write': a = [ref_h(o['i']), ref_h(o['h']), o['off'], hx(o['data']), o['flags'], o['fuse_flags']]
    elif k == 'readlink': a = [ref_h(o['i'])]
    elif k in ('readdir', 'readdirplus'): a = [ref_h(o['i']), ref_h(o['h']), o['size'], o['off']]
    elif k == 'fsyncdir': a = [ref_h(o['i']), ref_h(o['h']), o.get('datasync', 0)]
    elif k == 'setxattr': a = [ref_h(o['i']), hx(o['name']), hx(o['value']), o['flags']]
    elif k == 'getxattr': a = [ref_h(o['i']), hx(o['name']), o['size']]
    elif k == 'listxattr': a = [ref_h(o['i']), o['size']]
    elif k == 'removexattr': a = [ref_h(o['i']), hx(o['name'])]
    elif k == 'fallocate': a = [ref_h(o['i']), ref_h(o['h']), o['mode'], o['off'], o['len']]
    elif k == 'lseek': a = [ref_h(o['i']), ref_h(o['h']), o['off'], o['whence']]
    elif k == 'fsync': a = [ref_h(o['i']), ref_h(o['h']), 0]
    elif k == 'statfs': a = [ref_h(o['i'])]
    elif k == 'access': a = [ref_h(o['i']), o['mask'], o['uid'], o['gid']]
    else: raise ValueError(k)
    return 'O %s %s' % (k, ' '.join(str(x) for x in a))

def op_coq(o):
    k = o['op']; g = o.get; B = lambda b: coq_bytes(cname(b))
    if k == 'lookup': return '(SLookup %s %s)' % (ref_c(o['p']), B(o['name']))
    if k == 'forget': return '(SForget %s %d)' % (ref_c(o['i']), o['count'])
    if k == 'batch_forget': return '(SBatchForget [%s])' % '; '.join('(%s, %d)' % (ref_c(i), c) for i, c in o['l'])
    if k == 'getattr': return '(SGetattr %s %s)' % (ref_c(o['i']), oref_c(g('h')))
    if k == 'setattr': return '(SSetattr %s %s %d %d %d %d %d %d %d %d %d)' % (ref_c(o['i']), oref_c(g('h')), o['valid'], o['mode'], o['uid'], o['gid'], o['size'], g('atime', 1000000), g('ansec', 0), g('mtime', 2000000), g('mnsec', 0))
    if k == 'mkdir': return '(SMkdir %s %s %d %d %d %d)' % (ref_c(o['p']), B(o['name']), o['mode'], o['umask'], o['uid'], o['gid'])
    if k == 'mknod': return '(SMknod %s %s %d %d %d %d %d)' % (ref_c(o['p']), B(o['name']), o['mode'], o['rdev'], o['umask'], o['uid'], o['gid'])
    if k == 'create': return '(SCreate %s %s %d %d %d %d %d %d)' % (ref_c(o['p']), B(o['name']), o['mode'], o['umask'], o['flags'], o['fuse_flags'], o['uid'], o['gid'])
    if k == 'symlink': return '(SSymlink %s %s %s %d %d)' % (ref_c(o['p']), B(o['name']), B(o['target']), o['uid'], o['gid'])
    if k == 'link': return '(SLink %s %s %s)' % (ref_c(o['i']), ref_c(o['p']), B(o['name']))
    if k == 'unlink': return '(SUnlink %s %s)' % (ref_c(o['p']), B(o['name']))
    if k == 'rmdir': return '(SRmdir %s %s)' % (ref_c(o['p']), B(o['name']))
    if k == 'rename': return '(SRename %s %s %s %s %d)' % (ref_c(o['p']), B(o['name']), ref_c(o['p2']), B(o['name2']), o['flags'])
    if k == 'open': return '(SOpen %s %d %d)' % (ref_c(o['i']), o['flags'], o['fuse_flags'])
    if k == 'opendir': return '(SOpendir %s %d)' % (ref_c(o['i']), o['flags'])
    if k == 'release': return '(SRelease %s %s)' % (ref_c(o['i']), ref_c(o['h']))
    if k == 'releasedir': return '(SReleasedir %s %s)' % (ref_c(o['i']), ref_c(o['h']))
    if k == 'flush': return '(SFlush %s %s)' % (ref_c(o['i']), ref_c(o['h']))
    if k == 'read': return '(SRead %s %s %d %d %d)' % (ref_c(o['i']), ref_c(o['h']), o['size'], o['off'], o['flags'])
    if k == 'write': return '(SWrite %s %s %d %s %d %d)' % (ref_c(o['i']), ref_c(o['h']), o['off'], coq_bytes(o['data']), o['flags'], o['fuse_flags'])
    if k == 'readlink': return '(SReadlink %s)' % ref_c(o['i'])
    if k == 'setxattr': return '(SSetxattr %s %s %s %d)' % (ref_c(o['i']), B(o['name']), coq_bytes(o['value']), o['flags'])
    if k == 'getxattr': return '(SGetxattr %s %s %d)' % (ref_c(o['i']), B(o['name']), o['size'])
    if k == 'listxattr': return '(SListxattr %s %d)' % (ref_c(o['i']), o['size'])
    if k == 'removexattr': return '(SRemovexattr %s %s)' % (ref_c(o['i']), B(o['name']))
    if k == 'fallocate': return '(SFallocate %s %s %d %d %d)' % (ref_c(o['i']), ref_c(o['h']), o['mode'], o['off'], o['len'])
    if k == 'lseek': return '(SLseek %s %s %d %d)' % (ref_c(o['i']), ref_c(o['h']), o['off'], o['whence'])
    if k == 'fsync': return '(SFsync %s %s)' % (ref_c(o['i']), ref_c(o['h']))
    if k == 'statfs': return '(SStatfs %s)' % ref_c(o['i'])
    if k == 'access': return '(SAccess %s %d %d %d)' % (ref_c(o['i']), o['mask'], o['uid'], o['gid'])
    raise ValueError(k)

MODELLED = lambda o: o['op'] not in ('readdir', 'readdirplus', 'fsyncdir')

# ------------------------------------------------------------------ harness output
def parse_kv(s):
    d = {}
    for w in s.split():
        if '=' in w:
            k, v = w.split('=', 1); d[k] = v
    return d

def parse_output(out):
    """-> list of histories: dict(id, ok, ops=[dict(reply kv, creds kv, calls)], end_creds)"""
    hs = []; cur = None
    for line in out.split('\n'):
        if line.startswith('H '):
            w = line.split()
            cur = {'id': w[1], 'ok': w[2] == 'ok', 'msg': ' '.join(w[3:]), 'ops': [], 'end': None}
            hs.append(cur)
        elif line.startswith('R ') and cur is not None:
            parts = line[2:].split(' | ')
            cur['ops'].append({'r': parse_kv(parts[0]), 'creds': parse_kv(parts[1]) if len(parts) > 1 else {},
                               'calls': (parts[2].split('=', 1)[1] if len(parts) > 2 else '-'),
                               'tree': (parts[3].split('=', 1)[1].strip() if len(parts) > 3 else '-'), 'raw': parts[0]})
        elif line.startswith('E') and cur is not None:
            cur['end'] = parse_kv(line[1:]); cur = None
    return hs

def errno_of(r):
    e = int(r['errno'])
    return e if e >= 0 else 9997

def canon_xlist(hexs):
    if hexs == '-': return b''
    names = [x for x in bytes.fromhex(hexs).split(b'\0') if x]
    return b''.join(n + b'\0' for n in sorted(names))

def attr_coq(r):
    return '(mkAttr 0 %s %s %s %s %s %s)' % (r['mode'], r['nlink'], r['uid'], r['gid'], r['size'], r['rdev'])

def reply_coq(o, r):
    """observed reply of request o as a Coq [reply] term"""
    e = errno_of(r)
    if e != 0: return '(RpErr %d)' % e
    k = o['op']
    if k in ('lookup', 'mkdir', 'mknod', 'symlink', 'link'): return '(RpEntry %s)' % attr_coq(r)
    if k in ('getattr', 'setattr'): return '(RpAttr %s)' % attr_coq(r)
    if k == 'create': return '(RpCreate %s %s %s)' % (attr_coq(r), 'true' if r.get('handle') == '1' else 'false', r.get('opts', '0'))
    if k in ('open', 'opendir'): return '(RpOpen %s %s)' % ('true' if r.get('handle') == '1' else 'false', r.get('opts', '0'))
    if k in ('read', 'readlink'): return '(RpData %s)' % coq_bytes(bytes.fromhex(r['data']) if r['data'] != '-' else b'')
    if k in ('getxattr',):
        if 'data' in r: return '(RpData %s)' % coq_bytes(bytes.fromhex(r['data']) if r['data'] != '-' else b'')
        return '(RpCount %s)' % r['n']
    if k == 'listxattr':
        if 'data' in r: return '(RpData %s)' % coq_bytes(canon_xlist(r['data']))
        return '(RpCount %s)' % r['n']
    if k in ('write', 'lseek'): return '(RpCount %s)' % r['n']
    return 'RpOk'

def creds_coq(c):
    return '(mkCreds %s %s %s)' % (c.get('euid', '99999'), c.get('egid', '99999'), 'true' if c.get('fsetid') == '1' else 'false')

def cfg_coq(c):
    """c: effective configuration dict"""
    b = lambda k: 'true' if c.get(k) else 'false'
    cache = {'never': 0, 'metadata': 1, 'auto': 2, 'always': 3}[c.get('cache', 'auto')]
    return '(mkCfg %s %s %s %s %s %s %d %s %s)' % (b('do_import'), b('no_open'), b('no_opendir'), b('writeback'), b('killpriv_v2'), b('xattr'), cache, 'false' if c.get('no_direct_io') else 'true', b('inode_file_handles'))

def effective_cfg(c, standalone=True):
    """what PassthroughFs::new + init make of the requested configuration (the harness offers exactly
    the capabilities matching the requested options)"""
    e = dict(c); e['do_import'] = standalone
    if e.get('no_open') and e.get('cache', 'auto') != 'always': e['no_open'] = False
    if e.get('writeback') and e.get('cache', 'auto') == 'never': e['writeback'] = False
    return e

def cfg_line(c):
    return ','.join('%s=%s' % (k, (1 if v is True else 0 if v is False else v)) for k, v in sorted(c.items()) if k != 'do_import') or '-'

COQ_HEADER = ('From Coq Require Import List NArith Bool.\nFrom FB Require Import Model.Names Model.HostFs Model.Passthrough.\n'
              'Import ListNotations.\nLocal Open Scope N_scope.\n')

# ------------------------------------------------------------------ snapshots
def snapshot(top, skip=None):
    """content + metadata of everything under `top` except the subtree `skip` -> dict path -> tuple"""
    snap = {}
    def one(p):
        st = os.lstat(p)
        ent = [stat.S_IFMT(st.st_mode), stat.S_IMODE(st.st_mode), st.st_uid, st.st_gid, st.st_nlink, st.st_ino, st.st_dev,
               st.st_mtime_ns, st.st_ctime_ns]
        if stat.S_ISREG(st.st_mode):
            ent.append(hashlib.sha1(open(p, 'rb').read()).hexdigest()); ent.append(st.st_size)
        elif stat.S_ISLNK(st.st_mode):
            ent.append(os.readlink(p))
        try:
            ent.append(sorted((a, os.getxattr(p, a, follow_symlinks=False)) for a in os.listxattr(p, follow_symlinks=False)))
        except OSError:
            ent.append(None)
        snap[p] = tuple(str(x) for x in ent)
        if stat.S_ISDIR(st.st_mode):
            ent2 = sorted(os.listdir(p))
            snap[p] += (str(ent2),)
            for n in ent2:
                q = os.path.join(p, n)
                if skip is not None and os.path.abspath(q) == os.path.abspath(skip):
                    # the export root itself is inside; but its name, type and inode in the parent are outside facts
                    st2 = os.lstat(q); snap[q + '#entry'] = (str(stat.S_IFMT(st2.st_mode)), str(st2.st_ino))
                    continue
                one(q)
    one(top)
    return snap

def walk_tree(top):
    """canonical walk of a directory for comparing two trees: relative path -> (type, mode, uid, gid, nlink, size, content, target, xattrs)"""
    res = {}
    def one(p, rel):
        st = os.lstat(p)
        ent = [stat.S_IFMT(st.st_mode), stat.S_IMODE(st.st_mode), st.st_uid, st.st_gid, st.st_nlink]
        if stat.S_ISREG(st.st_mode): ent += [st.st_size, hashlib.sha1(open(p, 'rb').read()).hexdigest()]
        elif stat.S_ISLNK(st.st_mode): ent += [os.readlink(p)]
        elif stat.S_ISCHR(st.st_mode) or stat.S_ISBLK(st.st_mode): ent += [st.st_rdev]
        try: ent.append(sorted((a, os.getxattr(p, a, follow_symlinks=False)) for a in os.listxattr(p, follow_symlinks=False)))
        except OSError: ent.append(None)
        res[rel] = tuple(str(x) for x in ent)
        if stat.S_ISDIR(st.st_mode):
            for n in sorted(os.listdir(p)): one(os.path.join(p, n), rel + b'/' + n)
    one(top.encode() if isinstance(top, str) else top, b'.')
    return res

def run_ptfs(bindir, lines, tag, timeout=300):
    d = os.path.join(SCRATCH, 'ptcases'); os.makedirs(d, exist_ok=True)
    p = os.path.join(d, '%s-%d.txt' % (tag, os.getpid()))
    open(p, 'w').write('\n'.join(lines) + '\n')
    rc, out = run([os.path.join(bindir, 'ptfs'), p], timeout=timeout)
    return rc, out

def cut_at_stale(mops, cfg):
    """with inode_file_handles an ESTALE answer (unlinked inode, not modelled) to a request that would have returned an inode or a
    handle leaves the client without the slot the model assigns: the model comparison of that history ends there"""
    if not cfg.get('inode_file_handles'): return mops
    for j, (o, r) in enumerate(mops):
        if errno_of(r['r']) == 116 and o['op'] in ('lookup', 'mkdir', 'mknod', 'create', 'symlink', 'link', 'open', 'opendir'):
            return mops[:j]
    return mops
