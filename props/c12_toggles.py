"""C12, second half: Vfs / passthrough / overlay switch behaviours on only when negotiated.

For every combination of the configuration switches of each layer and a set of capability words,
harness/src/bin/inittoggle.rs builds the real object, runs  init(cap1); probes; init(cap1);
destroy; init(cap2); probes  and reports what it saw.  Here (1) the property predicate is
evaluated on those observations, (2) the observations are compared with coq/Model/InitToggles.v
(the model the theorems of Props/C12.v are about) by evaluation inside Coq."""
import os, re, collections
from vlib import *

ZMO, ZMOD, WBC, KPV2, DAX, AOT = 1 << 17, 1 << 24, 1 << 16, 1 << 28, 1 << 33, 1 << 3
BASE = (1 << 13) | (1 << 14)             # DO_READDIRPLUS | READDIRPLUS_AUTO, returned by the layers unconditionally
ALL = (1 << 64) - 1
BITS = {'O': ZMO, 'D': ZMOD, 'WB': WBC, 'KP': KPV2, 'DAX': DAX}
NAMES = {'O': 'no-open (OPEN answered ENOSYS)', 'D': 'no-opendir (OPENDIR answered ENOSYS)', 'WB': 'writeback open-flag rewriting',
         'KP': 'kill-priv (CAP_FSETID dropped on open(O_TRUNC))', 'DAX': 'per-file DAX attribute'}

def default_out_opts():
    """VfsOptions::default().out_opts re-read from the source (linux variant)"""
    src = open(os.path.join(REPO, 'src/api/vfs/mod.rs')).read()
    m = re.search(r'#\[cfg\(target_os = "linux"\)\]\s*fn default\(\) -> Self \{\s*let out_opts = (.*?);', src, re.S)
    if not m: return None
    names = re.findall(r'FsOptions::([A-Z0-9_]+)', m.group(1))
    abi = open(os.path.join(REPO, 'src/abi/fuse_abi_linux.rs')).read()
    v = 0
    for n in names:
        mm = re.search(r'const %s = ([A-Z0-9_]+);' % n, abi)
        if not mm: return None
        m2 = re.search(r'const %s: u64 = (0x[0-9a-fA-F_]+|\d+);' % mm.group(1), abi)
        if not m2: return None
        v |= int(m2.group(1).replace('_', ''), 0)
    return v

SINGLES = [ZMO, ZMOD, WBC, KPV2, DAX]

def cap_extras(rng, tier):
    ex = [ZMO | ZMOD | WBC | KPV2 | DAX, ALL & ~ZMO, ALL & ~WBC, ALL & ~DAX]
    for _ in range(3 if tier == 'quick' else 12):
        ex.append(rng.getrandbits(64))
    for _ in range(3 if tier == 'quick' else 8):      # random subsets of the five relevant bits (plus noise in the low word)
        w = rng.getrandbits(32) & ~(ZMO | ZMOD | WBC | KPV2)
        for b in SINGLES:
            if rng.random() < 0.5: w |= b
        ex.append(w)
    return ex

def gen_cases(rng, tier, dflt):
    """every combination of the configuration switches of each layer x capability words.  thorough: none, all, each
    relevant bit alone, composites and random words for every combination; quick: none, all, two of the single bits
    (rotating, so that every bit meets every switch over the run) and one composite/random word per combination."""
    import server_common
    known = server_common.fsopt_mask()        # VfsOptions.out_opts is an FsOptions: only known bits can be configured
    extras = cap_extras(rng, tier)
    pool = [0, ALL] + SINGLES + extras
    cases = []
    def add(layer, sw, oo, c1, c2):
        # both request orders (see inittoggle.rs: DESTROY before the first INIT, double DESTROY, repeated INIT in round 2)
        # alternate, so every (layer, switch combination) meets both over its capability words
        cases.append({'id': len(cases), 'layer': layer, 'sw': sw, 'out_opts': oo, 'cap1': c1, 'cap2': c2, 'ord': len(cases) % 2})
    def caps_for(i, full):
        if tier != 'quick': return pool
        if not full: return [ALL, SINGLES[i % 5]]
        return [0, ALL, SINGLES[i % 5], SINGLES[(i // 5 + i + 2) % 5], rng.choice(extras)]
    def second(c1):
        # the word of the INIT after DESTROY: often one that lacks what the first one had
        return rng.choice([0, 0, c1, ALL & ~c1] + pool)
    for sw in range(16):                                   # vfs: no_open no_opendir no_writeback killpriv_v2
        for c1 in caps_for(sw, True):
            add('vfs', sw, None, c1, second(c1))
        # configured out_opts other than the default: random, and the default without the zero-message bits
        for oo in (rng.getrandbits(64) & known, dflt & ~(ZMO | ZMOD), dflt | KPV2 | AOT):
            c1 = rng.choice(pool); add('vfs', sw, oo, c1, second(c1))
    for sw in range(16):                                   # the backend mounted AFTER the first INIT (Vfs::mount initialises it)
        for c1 in (pool if tier != 'quick' else [ALL, SINGLES[sw % 5]]):
            add('vfsm', sw, None, c1, second(c1))
    for sw in range(16):                                   # a second backend's init fails during the first INIT
        for c1 in (pool if tier != 'quick' else [ALL, SINGLES[(sw + 2) % 5]]):
            add('vfsf', sw, None, c1, second(c1))
    for dax in (1, 2):                                     # passthrough dax_file_size = None / larger than the file (default block: Some(0))
        for sw5 in (0, 1, 31):
            for c1 in (ALL, DAX):
                add('pt', sw5 | (1 << 5) | (dax << 7), None, c1, second(c1))
    for pol in (1, 0, 2, 3):                               # passthrough: do_import writeback no_open no_opendir killpriv_v2 x cache policy
        for sw5 in range(32):
            sw = sw5 | (pol << 5)
            for c1 in caps_for(sw5 + pol, pol == 1):
                add('pt', sw, None, c1, second(c1))
    for sw in range(64):                                   # overlay: ... + perfile_dax
        for c1 in caps_for(sw, True)[:(4 if tier == 'quick' else None)]:
            add('ovl', sw, None, c1, second(c1))
    return cases

KEYS = ('I', 'O', 'D', 'WB', 'KP', 'DAX', 'RL', 'RD', 'C', 'CWB', 'KC', 'KS', 'FL', 'GH', 'FH', 'DH', 'WK', 'WA')
_RND = ' '.join('%s=(\\S+)' % k for k in KEYS)
RX = re.compile(r'^(\d+) ' + _RND + r' R=(\S+) \| ' + _RND + '$')

def parse(line):
    m = RX.match(line.strip())
    if not m: return None
    g = m.groups(); n = len(KEYS)
    r1 = dict(zip(KEYS, g[1:1 + n]))
    r2 = dict(zip(KEYS, g[2 + n:2 + 2 * n]))
    return int(g[0]), r1, g[1 + n], r2

# probe -> (feature bit, what "on" looks like).  The twins (RL RD C CWB KC KS) are other entry points that consult the
# same switches as the first five.
BITS = {'O': ZMO, 'D': ZMOD, 'WB': WBC, 'KP': KPV2, 'DAX': DAX, 'RL': ZMO, 'RD': ZMOD, 'C': ZMO, 'CWB': WBC, 'KC': KPV2, 'KS': KPV2}
NAMES.update({'RL': 'no-open (RELEASE answered ENOSYS)', 'RD': 'no-opendir (RELEASEDIR answered ENOSYS)', 'C': 'no-open (CREATE returned no handle)',
              'CWB': 'writeback flag rewriting on CREATE', 'KC': 'kill-priv on CREATE(O_TRUNC) of an existing file', 'KS': 'kill-priv on SETATTR(size)'})
# handle-path probes (FL GH FH DH WK): further entry points that read the same switches
BITS.update({'FL': ZMO, 'GH': ZMO, 'FH': ZMO, 'DH': ZMOD, 'WK': KPV2, 'WA': WBC})
NAMES.update({'FL': 'no-open (FLUSH answered ENOSYS)', 'GH': 'no-open data path (GETATTR ignored the handle)', 'FH': 'no-open data path (FSYNC ignored the handle)',
              'DH': 'no-opendir data path (READDIR ignored the handle)', 'WK': 'kill-priv on WRITE(WRITE_KILL_PRIV)',
              'WA': 'writeback flag rewriting on WRITE (O_APPEND of the request flags not applied to the descriptor)'})
def normalise(layer, r):
    """GH / FH / DH are probed with a handle no OPEN ever returned.  'hl' = the handle-less path was taken, 'h' = the
    handle was looked up (and refused), 'na' = this layer does not let the probe tell.
    passthrough (also behind a Vfs): handle mode refuses with EBADF, no-open / no-opendir mode serves the request.
    overlay: getattr / readdir fall back to the inode for an unknown handle in either mode (na); fsync: handle mode = ENOENT
    (not in the handle table), no-open mode = EBADF from the layer that is handed real handle 0."""
    r = dict(r)
    if layer == 'ovl':
        m = {'GH': {'ok': 'na'}, 'DH': {'ok': 'na'}, 'FH': {'err:9': 'hl', 'err:2': 'h'}}
    else:
        m = dict((k, {'ok': 'hl', 'err:9': 'h'}) for k in ('GH', 'FH', 'DH'))
    for k in m:
        if k in r: r[k] = m[k].get(r[k], 'unmapped:' + r[k])
    return r
def on(r, k):
    if k in ('GH', 'FH', 'DH'): return r[k] == 'hl'
    if k in ('O', 'D', 'RL', 'RD', 'FL'): return r[k] == 'enosys'
    if k == 'C': return r[k] == 'nh'
    return r[k] == '1'

def coq_ires(s):
    k, v = s.split(':')
    return '(IOk %s)' % v if k == 'ok' else '(IErr %s)' % v
def coq_round(r):
    def pr(s): return {'enosys': 'PEnosys', 'h': 'PHandle'}.get(s)
    def tri(s): return {'1': '(Some true)', '0': '(Some false)', 'na': 'None'}.get(s)
    def b(s): return {'1': 'true', '0': 'false'}.get(s)
    def up(s): return 'UOk' if s == 'ok' else ('UEnosys' if s == 'enosys' else ('UOther' if s.startswith('err:') else None))
    def ch(s): return {'h': 'true', 'nh': 'false'}.get(s)
    def hl(s): return {'hl': '(Some true)', 'h': '(Some false)', 'na': 'None'}.get(s)
    tw = [up(r['RL']), up(r['RD']), ch(r['C']), tri(r['CWB']), tri(r['KC']), tri(r['KS'])]
    hp = [up(r['FL']), hl(r['GH']), hl(r['FH']), hl(r['DH']), tri(r['WK']), tri(r['WA'])]
    parts = [coq_ires(r['I']), pr(r['O']), pr(r['D']), tri(r['WB']), tri(r['KP']), b(r['DAX'])]
    if any(p is None for p in parts + tw + hp) or int(r['I'].split(':')[1]) < 0: return None
    return '(mkR %s (mkW %s) (mkH %s))' % (' '.join(parts), ' '.join(tw), ' '.join(hp))

def coq_case(c, r1, rr, r2):
    a, b = coq_round(r1), coq_round(r2)
    if a is None or b is None or int(rr.split(':')[1]) < 0: return None
    obs = '(%s, %s, %s)' % (a, coq_ires(rr), b)
    o_ = 'true' if c['ord'] else 'false'
    if c['layer'] == 'pt':
        m = '(pt_case %s (dax_applies_of_bits %d) (policy_of_bits %d) (lcfg_of_bits %d) %d %d)' % (o_, c['sw'], c['sw'], c['sw'], c['cap1'], c['cap2'])
    elif c['layer'] == 'ovl':
        m = '(ovl_case %s (lcfg_of_bits %d) %d %d)' % (o_, c['sw'], c['cap1'], c['cap2'])
    else:
        oo = 'None' if c['out_opts'] is None else '(Some %d)' % c['out_opts']
        if c['layer'] == 'vfsf': m = '(vfs_fail_case (vstate_of_bits %d %s) %d %d)' % (c['sw'], oo, c['cap1'], c['cap2'])
        else: m = '(vfs_case %s (vstate_of_bits %d %s) %d %d)' % (o_, c['sw'], oo, c['cap1'], c['cap2'])
    return '(case_eqb %s %s)' % (m, obs)

def check_property(c, r1, rr, r2, dflt):
    """the property itself, on the observations of one case -> list of findings"""
    out = []
    layer = c['layer']; is_vfs = layer in ('vfs', 'vfsm', 'vfsf')
    def bad(what, sig):
        s = {'part': 'toggle', 'layer': layer}; s.update(sig)
        out.append({'what': '%s sw=%d out_opts=%s cap1=0x%x cap2=0x%x: %s' % (layer, c['sw'], c['out_opts'], c['cap1'], c['cap2'], what),
                    'sig': s, 'input': dict(c, observed={'round1': r1, 'reinit': rr, 'round2': r2})})
    for k, (r, cap) in enumerate(((r1, c['cap1']), (r2, c['cap2'])), 1):
        for p, bit in BITS.items():
            if on(r, p) and not cap & bit:
                if layer == 'ovl' and p in ('WB', 'CWB') and c['sw'] & 2:
                    sig = {'defect': 'ovl-writeback-config'}
                elif k == 2 and c['cap1'] & bit:
                    # switched on by the first INIT and still on after DESTROY + an INIT that did not negotiate it (the defect
                    # repaired by fix: 3c323ec); under a Vfs the sticky switch is the backend's (the Vfs's own are recomputed)
                    sig = {'defect': 'sticky-reinit', 'layer': 'pt' if is_vfs else layer}
                else:
                    sig = {'probe': p, 'round': k}
                bad('%s is on after INIT #%d although the capability word lacks the feature bit 0x%x' % (NAMES[p], k, bit), sig)
        if r['I'].startswith('ok:'):
            bits = int(r['I'][3:])
            extra = (bits & ~cap) if is_vfs else (bits & ~BASE & ~cap)
            if extra:
                bad('INIT #%d returned option bits 0x%x that the capability word 0x%x does not have' % (k, extra, cap), {'probe': 'opts', 'round': k})
            if is_vfs and c['out_opts'] is None:
                for p, bit in (('O', ZMO), ('D', ZMOD)):
                    # with the default out_opts the switch is on exactly when the bit is in the reply (both rounds: the
                    # stored out_opts only shrink, and the backend follows the word it is given)
                    if on(r, p) != bool(bits & bit):
                        bad('%s is %s but INIT #%d %s 0x%x' % (NAMES[p], 'on' if on(r, p) else 'off', k,
                                                                'did not enable' if on(r, p) else 'enabled', bit), {'probe': p + '-iff', 'round': k})
        elif not is_vfs:
            bad('INIT #%d failed: %s' % (k, r['I']), {'probe': 'init', 'round': k})
    if is_vfs and layer != 'vfsf':       # (vfsf: the first INIT failed, the repeated one is the first to succeed)
        if rr != 'err:22':
            bad('a second INIT without DESTROY was answered %s instead of EINVAL' % rr, {'probe': 'reinit'})
    if layer == 'pt' and not c['sw'] & 1:
        # under a VFS (do_import = false): exactly the capability word
        for p, bit in BITS.items():
            if r1[p] == 'na' or r1[p].startswith('unmapped'): continue
            expect = bool(c['cap1'] & bit)
            if p == 'DAX' and (c['sw'] >> 7) & 3: expect = False       # dax_file_size unset / larger than the file: never
            if on(r1, p) != expect:
                bad('passthrough with do_import=false: %s is %s but the negotiated word %s 0x%x' % (
                    NAMES[p], 'on' if on(r1, p) else 'off', 'lacks' if on(r1, p) else 'has', bit), {'probe': p + '-exact', 'round': 1})
    return out

HEADER = ('From Coq Require Import List NArith Bool.\nFrom FB Require Import Model.InitToggles.\nImport ListNotations.\n'
          'Local Open Scope N_scope.\n')

def run(rng, tier, bindir, findings, broken):
    dflt = default_out_opts()
    if dflt is None:
        broken.append({'kind': 'translator', 'item': 'VfsOptions::default out_opts', 'error': 'expression not found'}); dflt = 0
    cases = gen_cases(rng, tier, dflt)
    d = os.path.join(SCRATCH, 'c12'); os.makedirs(d, exist_ok=True)
    cf = os.path.join(d, 'toggle.cases')
    with open(cf, 'w') as f:
        for c in cases:
            f.write('%d %s %d %s %d %d %d\n' % (c['id'], c['layer'], c['sw'], '-' if c['out_opts'] is None else c['out_opts'], c['cap1'], c['cap2'], c['ord']))
    rc, out = run_cmd([os.path.join(bindir, 'inittoggle'), cf])
    obs = {}
    for line in out.splitlines():
        p = parse(line)
        if p: obs[p[0]] = (normalise(cases[p[0]]['layer'], p[1]), p[2], normalise(cases[p[0]]['layer'], p[3])) if p[0] < len(cases) else p[1:]
    bad_lines = [l for l in out.splitlines() if l.strip() and not parse(l)]
    if rc != 0 or len(obs) != len(cases):
        broken.append({'kind': 'harness-run', 'name': 'inittoggle', 'log': '\n'.join(bad_lines[:5]) or out[-800:]})
    exprs = []; meta = []; nontriv = set(); samples = []
    prop_failed = set()
    for c in cases:
        o = obs.get(c['id'])
        if o is None: continue
        r1, rr, r2 = o
        fs = check_property(c, r1, rr, r2, dflt)
        # a failing input is reported as such; the model need not follow it
        if fs: prop_failed.add(c['id'])
        findings.extend(fs)
        e = coq_case(c, r1, rr, r2)
        if e is None:
            if not fs: broken.append({'kind': 'correspondence', 'name': 'inittoggle observation outside the model', 'case': dict(c, observed=o)})
            continue
        exprs.append(e); meta.append(c)
        nontriv.add((c['layer'], c['sw'], c['ord'], c['out_opts'] is None, tuple(on(r1, p) for p in BITS), tuple(on(r2, p) for p in BITS)))
        if len(samples) < 3 and any(on(r1, p) for p in BITS):
            samples.append(dict(c, observed={'round1': r1, 'reinit': rr, 'round2': r2}))
    # (Model/InitToggles.vo is in the cone of Props/C12.vo, built by std_audit)
    # the model's default out_opts must be the source's
    exprs.append('(vfs_default_out =? %d)' % dflt); meta.append(None)
    fails, errs = coq_check_cases('c12tog', HEADER, exprs, shard=(190 if tier == 'quick' else 250))
    if errs: broken.append({'kind': 'spec-eval', 'log': errs[0]})
    for i in fails:
        c = meta[i]
        if c is None:
            broken.append({'kind': 'correspondence', 'name': 'Model/InitToggles.v vfs_default_out vs VfsOptions::default()', 'case': {'source': dflt}})
            continue
        if c['id'] in prop_failed: continue       # already reported as a failing input
        broken.append({'kind': 'correspondence', 'name': 'Model/InitToggles.v vs %s::init' % {'vfs': 'Vfs', 'vfsm': 'Vfs (backend mounted after INIT)', 'vfsf': 'Vfs (a backend init fails)', 'pt': 'PassthroughFs', 'ovl': 'OverlayFs'}[c['layer']],
                       'case': dict(c, observed=obs[c['id']])})
    n_async = run_async_twin(rng, tier, dflt, findings, broken)
    return len(obs) + n_async, len(nontriv), samples

def run_async_twin(rng, tier, dflt, findings, broken):
    """feature async-io: Vfs::async_open (own copy of the no-open test) and PassthroughFs::async_open (delegates) must
    answer like the sync methods, and ENOSYS only with ZERO_MESSAGE_OPEN in the word of the last INIT.  -> number of cases"""
    ok, out, bindir = cargo_build(['inittoggle_async'], features=['async-io'])
    if not ok:
        broken.append({'kind': 'harness-build', 'name': 'inittoggle_async', 'log': out[-2000:]}); return 0
    words = [0, ALL, ZMO, ALL & ~ZMO]
    cases = []
    for sw in range(16):
        for i, c1 in enumerate(words):
            cases.append((len(cases), sw, None, c1, words[(i + 1 + sw) % 4]))
        cases.append((len(cases), sw, dflt & ~(ZMO | ZMOD), ALL, ZMO))
    if tier != 'quick':
        for _ in range(300): cases.append((len(cases), rng.randrange(16), None, rng.getrandbits(64), rng.getrandbits(64)))
    d = os.path.join(SCRATCH, 'c12'); os.makedirs(d, exist_ok=True)
    cf = os.path.join(d, 'toggle_async.cases')
    with open(cf, 'w') as f:
        for i, sw, oo, c1, c2 in cases: f.write('%d %d %s %d %d\n' % (i, sw, '-' if oo is None else oo, c1, c2))
    rc, out = run_cmd([os.path.join(bindir, 'inittoggle_async'), cf])
    seen = 0
    rx = re.compile(r'^(\d+) V1=(\S+)/(\S+) P1=(\S+)/(\S+) \| V2=(\S+)/(\S+) P2=(\S+)/(\S+)$')
    for line in out.splitlines():
        m = rx.match(line.strip())
        if not m: continue
        seen += 1
        i, sw, oo, c1, c2 = cases[int(m.group(1))]
        g = m.groups()[1:]
        for k, cap in ((0, c1), (1, c2)):
            vs, va, ps, pa = g[4 * k:4 * k + 4]
            inp = {'layer': 'vfs-async', 'sw': sw, 'out_opts': oo, 'cap1': c1, 'cap2': c2, 'observed': line.strip()}
            for who, a, b in (('Vfs', vs, va), ('PassthroughFs', ps, pa)):
                if a != b:
                    findings.append({'what': '%s: open answered %s but async_open answered %s after INIT #%d (sw=%d cap=0x%x)' % (who, a, b, k + 1, sw, cap),
                                     'sig': {'part': 'toggle', 'layer': 'async', 'probe': 'twin'}, 'input': inp})
                if b == 'enosys' and not cap & ZMO:
                    findings.append({'what': '%s::async_open answered ENOSYS after INIT #%d although the capability word 0x%x lacks ZERO_MESSAGE_OPEN (sw=%d)' % (who, k + 1, cap, sw),
                                     'sig': {'part': 'toggle', 'layer': 'async', 'probe': 'AO', 'round': k + 1}, 'input': inp})
    if rc != 0 or seen != len(cases):
        broken.append({'kind': 'harness-run', 'name': 'inittoggle_async', 'log': out[-800:]})
    return seen

def run_cmd(cmd):
    import vlib
    return vlib.run(cmd, timeout=900)
