"""C12, second half: Vfs / passthrough / overlay switch behaviours on only when negotiated (filled in below)."""
def run(rng, tier, bindir, findings, broken):
    return 0, 0, []
