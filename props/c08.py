"""C08 -- an inode stays valid exactly as long as the client holds lookup references to it."""
import os, sys, json, random, shutil
from concurrent.futures import ThreadPoolExecutor
from vlib import *
import ptcommon as P

PROP = 'C08'
U64 = (1 << 64) - 1
HEADER = ('From Coq Require Import List NArith Bool.\nFrom FB Require Import Model.Inodes.\n'
          'Import ListNotations.\nLocal Open Scope N_scope.\n')

def client_ledger(recs, ifh=0):
    """The property predicate evaluated on the implementation's observations alone: the client's
    ledger (entries received minus counts forgotten, never below zero, root exempt) against the
    server's lookup counts (hook), getattr EBADF-or-not on every number ever issued, the number of
    live inode objects, and the inode-number <-> host-identity relation.
    -> (index of first failing step, label, detail) or None"""
    return ledger_run(recs, ifh)[0]

def ledger_run(recs, ifh=0):
    """-> ((step, label, detail) | None, final ledger)"""
    led = {1: 2}
    num_of = {}; host_of = {}
    def give(n): led[n] = min(led.get(n, 0) + 1, U64)
    def forget(n, c):
        if n == 1: return
        led[n] = led.get(n, 0) - min(c, led.get(n, 0))
    def bind(n, h, k):
        # the host identity of a file: with file handles the handle (it carries the generation: the host may give a
        # recycled inode number to a new file while the old one is still referenced), else (ino, dev)
        key = (h['ino'], h['dev'], h['fh'] if ifh else '')
        if key in num_of and num_of[key] != n:
            return (k, 'number', 'host file %s got number %d, had %d before' % (key, n, num_of[key]))
        if n in host_of and host_of[n] != key:
            return (k, 'number', 'number %d denotes host file %s, denoted %s before' % (n, key, host_of[n]))
        num_of[key] = n; host_of[n] = key
        return None
    for k, r in enumerate(recs[1:]):
        o = r['op']; bad = None
        if o in ('lookup', 'mkdir', 'mknod', 'symlink', 'link', 'create') and r['res'] == 0:
            give(r['ino'])
            if r.get('host'): bad = bind(r['ino'], r['host'], k)
        elif o == 'forget': forget(r['ino'], r['count'])
        elif o == 'bforget':
            for a, b in r['reqs']: forget(a, b)
        elif o in ('readdir', 'readdirplus'):
            for e in r['ents']:
                # a listing that ends in an error delivers nothing: the client sees the errno, not the entries
                if r['plus'] and e['del'] and r['res'] == 0: give(e['ino'])
                if e.get('host') and bad is None: bad = bind(e['ino'], e['host'], k)
        elif o == 'destroy':
            led = {1: 2}; num_of = {}; host_of = {}
        if bad: return bad, led
        for n, e, rc in r['valid']:
            want = led.get(n, 0); have = max(rc, 0)
            if have > want: return (k, 'extra-reference', 'number %d: server count %d, client holds %d' % (n, have, want)), led
            if have < want: return (k, 'lost-reference', 'number %d: server count %d, client holds %d' % (n, have, want)), led
            if (e != 9) != (want > 0): return (k, 'valid', 'number %d: getattr errno %d, client holds %d' % (n, e, want)), led
        live = sum(1 for v in led.values() if v > 0)
        if r['sizes'][0] > live: return (k, 'extra-reference', 'server keeps %d inode objects, client holds references to %d' % (r['sizes'][0], live)), led
        if r['sizes'][0] < live: return (k, 'lost-reference', 'server keeps %d inode objects, client holds references to %d' % (r['sizes'][0], live)), led
    return None, led

def model_expr(mode, recs, fx=None):
    fx = fx or P.FhIndex()
    root = recs[0]['host']
    steps = []
    for r in recs[1:]:
        op, orep = P.inode_op(r, fx, root)
        if orep is None: orep = 'OUnit' if r['res'] == 0 else '(OErrno %d)' % r['res']
        if op == 'ONop': orep = 'OUnit'
        steps.append('(%s, (%s, %s, (%d,%d,%d)))' % (op, orep, P.coq_valid(r), r['sizes'][0], r['sizes'][1], r['sizes'][2]))
    c = P.coq_cfg(mode)
    return 'first_mismatch %s (fresh %s %s) [%s] 0' % (c, c, P.coq_target(root, fx), ';\n '.join(steps))

def gen_cases(rnd, n_per_mode, profile='c08'):
    cases = []
    for mode in P.MODES4:
        for j in range(n_per_mode):
            no_open = 1 if j % 7 == 3 else 0; no_opendir = 1 if j % 5 == 2 else 0
            g = P.Gen(random.Random(rnd.getrandbits(48)), no_open, no_opendir, profile)
            lines = g.generate(rnd.randint(12, 40), special=(j % 6 == 1))
            cases.append({'mode': mode, 'no_open': no_open, 'no_opendir': no_opendir, 'lines': lines})
    return cases

def run_cases(bindir, cases, tag):
    def one(ic):
        i, c = ic
        rc, recs, out = P.run_history(bindir, '%s_%d' % (tag, i), P.script(c['mode'], c['no_open'], c['no_opendir'], c['lines']))
        return rc, recs, out
    with ThreadPoolExecutor(max_workers=NPROC) as ex:
        res = list(ex.map(one, enumerate(cases)))
    shutil.rmtree(os.path.join(SCRATCH, 'ptables', str(os.getpid())), ignore_errors=True)
    return res

def nlines(c):
    return sum(1 for l in c['lines'])

def run_check(tier, seed):
    ev = Evidence(PROP, tier, seed)
    ev.cov['checker_cmd'] = 'make -C coq Props/C08.vo (coqc 8.16.1, full .vo) + Print Assumptions audit'
    ev.cov['trusted_base'] = TRUSTED_COMMON + [
        'Model/Inodes.v is a hand transcription of passthrough/mod.rs (InodeMap, allocate_inode, do_lookup, forget_one), inode_store.rs, util.rs (UniqueInodeGenerator) and the entry-returning handlers of sync_io.rs; tied to the code by running the model inside Coq on every generated history with the host answers observed by the harness (reply, lookup count of every number ever issued, EBADF-or-not, table sizes after every request)',
        'harness/src/bin/ptables.rs (drives a real PassthroughFs over a temporary ext4 tree; host identities from its own fstat/name_to_handle_at on its own descriptors) and the read-only hook verif_table_sizes/verif_refcount',
        'host inode numbers > 2^47 (virtual inode numbers) are covered by the theorems but not exercised by the tie (ext4 numbers are small); the AtomicU64 counters are assumed not to wrap (fewer than 2^64 allocations)',
    ]
    ev.assumptions = ['single mount under the exported directory', 'sequential request processing (interleavings: C09)',
                      'handle mode + use_host_ino: the host does not reuse the inode number of a file that is still referenced (stated as a hypothesis in the theorems)']
    findings, broken = [], []
    import pure_tie; pure_tie.prepare(PROP, ev, broken)      # Gen/RustPure.v from the function bodies in REPO (PROP_src_* theorems)
    audit = std_audit(ev, PROP, broken)
    pure_tie.after_audit(PROP, broken)                         # a source tie broke: look for a concrete differing input
    ok, out, bindir = cargo_build(['ptables'])
    if not ok:
        broken.append({'kind': 'harness-build', 'log': out[-3000:]})
        return finish(ev, PROP, findings, broken)
    rnd = random.Random(seed)
    n_per_mode = 15 if tier == 'quick' else 500
    cases = gen_cases(rnd, n_per_mode)
    # targeted corpus: the shapes the mutations / defects need
    for mode in P.MODES4:
        cases.append({'mode': mode, 'no_open': 0, 'no_opendir': 0, 'lines': [
            'lookup 1 0 d1', 'lookup 2 1 a', 'lookup 3 1 b', 'lookup 4 0 d2', 'lookup 5 4 c', 'forget 2 1', 'forget 3 1', 'forget 5 5',
            'lookup 6 1 a', 'forget 6 18446744073709551615', 'lookup 7 4 c', 'unlink 1 a', 'rename 1 b 4 zz', 'lookup 8 4 zz',
            'opendir 0 1', 'readdirplus 1 0 4096 0 1', 'readdir 1 0 4096 0 100', 'readdirplus 1 0 4096 0 100', 'releasedir 1 0',
            'forget 0 3', 'bforget 7:1 8:1 7:9', 'lookup 9 4 c', 'create 10 1 0 p 0']})
    # descriptor exhaustion in the middle of a listing (audit 6): RLIMIT_NOFILE lowered for the one request so that the
    # lookup of the 3rd / 2nd / 1st entry of the root directory cannot get its descriptor.  Whatever the reply (the entries
    # collected so far, or the error when nothing was collected), readdirplus holds references for exactly the entries the
    # client received.  Descriptor modes (each new inode keeps its descriptor); handle modes as control.
    for mode in P.MODES4:
        for no_opendir in (0, 1):
            cases.append({'mode': mode, 'no_open': 0, 'no_opendir': no_opendir, 'lines': [
                'opendir 0 0', 'fail 3 readdirplus 0 0 4096 0 100', 'fail 2 readdirplus 0 0 4096 0 100', 'fail 1 readdirplus 0 0 4096 0 100',
                'fail 4 readdir 0 0 4096 0 100', 'fail 2 readdir 0 0 4096 0 100', 'readdirplus 0 0 4096 0 2', 'fail 5 readdirplus 0 0 4096 last 100',
                'releasedir 0 0', 'bforgetall plain']})
    # host inode-number recycling: the client keeps a reference to a file that is unlinked; the host gives its inode
    # number to a new file (ext4 does when no descriptor pins the inode: handle modes); the new file must get its own
    # number and survive the forget of the old one.  Four shapes of the old file; fd mode as control (no recycling).
    n_random = len(cases)
    for mode in ((1, 0), (1, 1), (0, 0)):
        sl = 1 if mode[0] else 0
        cases.append({'mode': mode, 'no_open': 0, 'no_opendir': 0, 'recycle': True, 'lines': [
            'mknod 1 0 rfa reg', 'mknod 2 0 rfb reg', 'lookup 3 0 rfb', 'mknod 4 0 rfc reg', 'link 5 4 0 rfc2', 'mkdir 6 0 rfd',
            'recycle 1 0 rfa ga file %d' % sl, 'lookup 10 0 ga', 'forget 1 1', 'lookup 11 0 ga',
            'unlink 0 rfb', 'recycle 2 0 rfb gb file 0', 'lookup 12 0 gb', 'forget 2 2', 'lookup 13 0 gb',
            'recycle 4 0 rfc,rfc2 gc file 0', 'lookup 14 0 gc', 'forget 4 2', 'lookup 15 0 gc',
            'recycle 6 0 rfd gd dir 0', 'lookup 16 0 gd', 'forget 6 1', 'lookup 17 0 gd', 'bforget 10:9 12:9 14:9 16:9']})
    res = run_cases(bindir, cases, 'c08')
    rec_stats = {}
    for c, (rc, recs, out) in zip(cases, res):
        if c.get('recycle'):
            rs = [r for r in recs if r.get('op') == 'recycle']
            rec_stats['%d%d' % c['mode']] = {'scenarios': len(rs), 'inode_number_recycled': sum(1 for r in rs if r['found'])}
    ev.cov['inode_number_recycling'] = rec_stats
    if not any(v['inode_number_recycled'] for k, v in rec_stats.items() if k[0] == '1'):
        ev.cov['inode_number_recycling']['note'] = 'precondition not met: the host file system did not hand a freed inode number out again'
    evals = 0; shapes = set(); samples = []; exprs = []; idx = []
    pred_fail = {}
    cut = 0
    for ci, (c, (rc, recs, out)) in enumerate(zip(cases, res)):
        hung = [r for r in recs if 'hung' in r]; recs = [r for r in recs if 'hung' not in r]
        if hung:
            # verdict of the watchdog inside the harness: this request did not return
            k = hung[0]['hung']
            findings.append({'what': 'request %d (%s) did not return within %d s' % (k, c['lines'][k] if k < len(c['lines']) else '?', hung[0]['seconds']),
                             'input': {'mode': c['mode'], 'no_open': c['no_open'], 'no_opendir': c['no_opendir'], 'lines': c['lines'][:k + 1]}, 'sig': {'check': 'hang'}})
            continue
        if rc != 0 or len(recs) != nlines(c) + 1:
            if 'panicked' in out:
                # the server (or an assertion of the harness) panicked: a concrete failing input
                findings.append({'what': 'the run panicked after request %d: %s' % (len(recs) - 1, ' '.join(out[out.find('panicked'):].split())[:300]),
                                 'input': {'mode': c['mode'], 'no_open': c['no_open'], 'no_opendir': c['no_opendir'], 'lines': c['lines'][:len(recs)]}, 'sig': {'check': 'crash'}})
            elif not recs:
                broken.append({'kind': 'harness-run', 'rc': rc, 'case': c, 'log': out[-800:]})
            else:
                cut += 1          # cut by our own timeout / killed: partial coverage, not a finding
            continue
        evals += len(recs) - 1
        for r in recs[1:]:
            if r['op'] not in ('rename', 'unlink', 'rmdir', 'use', 'open', 'opendir', 'release', 'releasedir'):
                shapes.add((c['mode'], r['op'], r['res'] == 0, len(r.get('ents', [])) > 0))
        bad = client_ledger(recs, c['mode'][0])
        if bad:
            k, label, detail = bad
            r = recs[1 + k]
            sig = {'op': r['op'], 'check': label}
            if r['op'] == 'create': sig.update(existed=bool(r['existed']), failed=r['res'] != 0)
            if any(x['op'] == 'recycle' and x.get('found') for x in recs[1:2 + k]): sig.update(recycled=True, ifh=c['mode'][0], uhi=c['mode'][1])
            findings.append({'what': 'after request %d (%s): %s' % (k, c['lines'][k], detail), 'sig': sig,
                             'input': {'mode': c['mode'], 'no_open': c['no_open'], 'no_opendir': c['no_opendir'], 'lines': c['lines'][:k + 1]},
                             'observed': r})
            pred_fail[ci] = k
        if len(samples) < 3: samples.append({'mode': c['mode'], 'lines': c['lines'][:6], 'first_records': recs[1:3]})
        exprs.append(model_expr(c['mode'], recs)); idx.append(ci)
    # model on the same histories
    if audit['ok'] and exprs:
        vals, errs = coq_eval_values('c08', HEADER, exprs, shard=12)
        for e in errs[:3]: broken.append({'kind': 'correspondence', 'name': 'coq evaluation of cases failed', 'log': e})
        for ci, v in zip(idx, vals):
            if v is None: continue
            if 'None' in v.split(':')[0]: continue
            import re
            m = re.search(r'Some (\d+)', v); k = int(m.group(1)) if m else -1
            c = cases[ci]
            broken.append({'kind': 'correspondence', 'name': 'Model/Inodes.v step vs PassthroughFs (reply, counts, validity, table sizes)',
                           'case': {'mode': c['mode'], 'lines': c['lines'][:k + 1]}, 'first_mismatching_request': k,
                           'observed': res[ci][1][1 + k] if 0 <= k < len(res[ci][1]) - 1 else None,
                           'property_predicate_failed_on_this_case': ci in pred_fail})
        ev.cov['model_vs_impl_histories'] = len(exprs)
    ev.cov['evaluations'] = evals
    ev.cov['histories_cut_by_timeout'] = cut
    ev.cov['distinct_nontrivial'] = len(shapes)
    ev.cov['rule'] = ('random histories over a 12-entry tree in the 4 (inode_file_handles, use_host_ino) modes; evaluations = requests whose reply, '
                      'per-number lookup counts, EBADF-or-not and table sizes were compared with the Coq model and with the client ledger; '
                      'distinct_nontrivial = distinct (mode, request kind, ok/error, listing non-empty) combinations of table-affecting requests')
    ev.cov['samples'] = samples
    return finish(ev, PROP, findings, broken)
